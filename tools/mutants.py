"""Hand-written sensitivity mutants: name -> (file, old, new, [checks that should kill it]).
Apply with: python tools/mutants.py <name> <repo-copy-dir>"""
import sys, os
M = {
 'union_all': ('compiler/universe.py', "' UNION ALL\\n'.join(rules_sql)", "' UNION\\n'.join(rules_sql)", ['C01', 'C07']),
 'no_disambiguate': ('compiler/rule_translate.py', "  if rule['head']['predicate_name'] != 'Combine':\n    DisambiguateCombineVariables(rule, names_allocator)", "  if False:\n    DisambiguateCombineVariables(rule, names_allocator)", ['C02']),
 'no_extract_unif': ('compiler/rule_translate.py', "  for k, expr in s.select.items():\n    if 'variable' in expr:\n      s.vars_unification.append({", "  for k, expr in s.select.items():\n    if False:\n      s.vars_unification.append({", ['C08', 'C01']),
 'drop_constraint': ('compiler/rule_translate.py', "    for u in self.vars_unification:\n      if u['left'] == u['right']:\n        continue\n", "    for u in self.vars_unification[1:]:\n      if u['left'] == u['right']:\n        continue\n", ['C01']),
 'distinct_missing_key': ('compiler/rule_translate.py', "        list(set(s.select.keys()) - set(aggregated_vars)), key=str)", "        list(set(s.select.keys()) - set(aggregated_vars)), key=str)[:1]", ['C02']),
 'field_off_by_one': ('compiler/rule_translate.py', "    return 'col%d' % logica_field\n  return logica_field", "    return 'col%d' % (logica_field + (logica_field > 1))\n  return logica_field", ['C01', 'C11']),
}
if __name__ == '__main__':
    name, d = sys.argv[1], sys.argv[2]
    f, old, new = M[name][:3]
    p = os.path.join(d, f)
    s = open(p).read()
    assert s.count(old) == 1, (name, s.count(old))
    open(p, 'w').write(s.replace(old, new))
    print('mutant', name, 'applied to', f)
