#!/bin/sh
# usage: tools/mutrun.sh <patch-file | 'sed:<file>:<expr>'> <ID> [budget]
# Applies a mutation to a scratch copy of /repo, runs the check against it, removes the copy.
set -e
MUT="$1"; ID="$2"; B="${3:-}"
D=$(mktemp -d /tmp/lvmut.XXXXXX)
rsync -a --exclude .git --exclude '*.pyc' /repo/ "$D/"
case "$MUT" in
  py:*) /venv/bin/python /verif/tools/mutants.py "${MUT#py:}" "$D";;
  sed:*) f=$(echo "$MUT" | cut -d: -f2); e=$(echo "$MUT" | cut -d: -f3-); sed -i "$e" "$D/$f"; (cd "$D" && diff -u "/repo/$f" "$f" | head -20 || true);;
  *) (cd "$D" && patch -p1 < "$MUT");;
esac
cd /verif
EV="evidence/$ID.json"; SAVE=$(mktemp /tmp/lvev.XXXXXX); [ -f "$EV" ] && cp "$EV" "$SAVE"
set +e
if [ -n "$B" ]; then VERIF_BUDGET=$B VERIF_REPO="$D" /venv/bin/python -m lv.check "$ID" | tail -25; else VERIF_REPO="$D" /venv/bin/python -m lv.check "$ID" | tail -25; fi
rc=$?
rm -rf "$D"
[ -s "$SAVE" ] && cp "$SAVE" "$EV"; rm -f "$SAVE"
# replays written while testing a mutant are not findings of the real tree
exit $rc
