#!/usr/bin/env python3
"""Print a markdown table of /verif/seeded/*/meta.json (which check caught which change)."""
import glob
import json
import os

VERIF = os.path.dirname(os.path.dirname(os.path.abspath(__file__)))
rows = []
for d in sorted(glob.glob(os.path.join(VERIF, 'seeded', '*'))):
    try:
        m = json.load(open(os.path.join(d, 'meta.json')))
    except Exception:
        continue
    name = os.path.basename(d)
    res = []
    for k, v in sorted(m.get('checks', {}).items()):
        c = k.split(':')[0]
        verdict = 'caught' if v['exit'] == 1 else ('MISSED' if v['exit'] == 0 else 'harness-error')
        b = ''
        if v.get('buckets'):
            b = ' (' + v['buckets'][0].split('bucket=')[-1][:60] + ')'
        res.append('%s %s%s' % (c, verdict, b))
    rows.append((name, m.get('property', ''), (m.get('summary') or '')[:110].replace('|', '/'),
                 '; '.join(res) or 'not run yet'))
print('| change | property | what it does | checks (latest run) |')
print('|---|---|---|---|')
for r in rows:
    print('| %s | %s | %s | %s |' % r)
