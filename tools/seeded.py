#!/usr/bin/env python3
"""Seeded-change bookkeeping.

  seeded.py confirm <src_dir> <name>      confirm a candidate change (patch.diff, demo.py,
        meta.json in <src_dir>) in a scratch worktree of /repo: demo passes on the clean
        tree, patch applies, pinned tests still 40 passed, demo fails on the changed tree.
        On success copies it to /verif/seeded/<name>/ and records what was run in meta.json.
  seeded.py run <name> [CHECK ...] [--tier quick] [--seed N]
        apply seeded/<name>/patch.diff in a scratch worktree and run the named checks
        (default: the property the change breaks) against it with VERIF_REPO; records the
        exit codes under meta.json["checks"].
Scratch worktrees live under /tmp and are removed afterwards.
"""
import json
import os
import shutil
import subprocess
import sys
import time

VERIF = os.path.dirname(os.path.dirname(os.path.abspath(__file__)))
REPO = '/repo'
PYTEST = ['/venv/bin/python', '-m', 'pytest', '-q', '-p', 'no:cacheprovider',
          '--timeout=900', '--continue-on-collection-errors']


def sh(cmd, cwd=None, env=None, timeout=None):
    p = subprocess.run(cmd, cwd=cwd, env=env, stdout=subprocess.PIPE,
                       stderr=subprocess.STDOUT, text=True, timeout=timeout)
    return p.returncode, p.stdout


def worktree(tag):
    d = '/tmp/sv_%s_%d' % (tag, os.getpid())
    sh(['git', '-C', REPO, 'worktree', 'remove', '--force', d])
    rc, out = sh(['git', '-C', REPO, 'worktree', 'add', '--detach', d, 'HEAD'])
    if rc:
        raise SystemExit('worktree failed: ' + out)
    return d


def drop(d):
    sh(['git', '-C', REPO, 'worktree', 'remove', '--force', d])
    shutil.rmtree(d, ignore_errors=True)
    sh(['git', '-C', REPO, 'worktree', 'prune'])


def tests(d):
    rc, out = sh(PYTEST, cwd=d, timeout=1800)
    last = [l for l in out.strip().split('\n') if 'passed' in l or 'failed' in l][-1:]
    for f in ('logica.db',):
        try:
            os.remove(os.path.join(d, f))
        except OSError:
            pass
    return last[0] if last else out[-300:]


def confirm(src, name):
    meta = json.load(open(os.path.join(src, 'meta.json')))
    d = worktree(name)
    ran = []
    try:
        demo = os.path.join(src, 'demo.py')
        rc0, out0 = sh(['/venv/bin/python', demo, d], timeout=1800)
        ran.append({'cmd': 'demo.py <clean worktree>', 'exit': rc0, 'tail': out0[-300:]})
        rc, out = sh(['git', '-C', d, 'apply', os.path.join(src, 'patch.diff')])
        ran.append({'cmd': 'git apply patch.diff', 'exit': rc, 'tail': out[-300:]})
        if rc:
            print('patch does not apply:', out)
            return False
        t = tests(d)
        ran.append({'cmd': ' '.join(PYTEST), 'result': t})
        rc1, out1 = sh(['/venv/bin/python', demo, d], timeout=1800)
        ran.append({'cmd': 'demo.py <changed worktree>', 'exit': rc1, 'tail': out1[-600:]})
        ok = rc0 == 0 and rc1 != 0 and '40 passed' in t
        print('clean demo exit', rc0, '| tests:', t, '| changed demo exit', rc1)
        if not ok:
            print(out0[-500:], '\n----\n', out1[-800:])
            return False
        dst = os.path.join(VERIF, 'seeded', name)
        shutil.rmtree(dst, ignore_errors=True)
        shutil.copytree(src, dst, ignore=shutil.ignore_patterns(
            '__pycache__', 'PROMPT.md', '*.pyc', '*.db'))
        meta['confirmed'] = ran
        meta['repo_head'] = sh(['git', '-C', REPO, 'rev-parse', 'HEAD'])[1].strip()
        meta.setdefault('checks', {})
        json.dump(meta, open(os.path.join(dst, 'meta.json'), 'w'), indent=1)
        return True
    finally:
        drop(d)


def run(name, checks, tier='quick', seed='1', budget=None):
    dst = os.path.join(VERIF, 'seeded', name)
    meta = json.load(open(os.path.join(dst, 'meta.json')))
    checks = checks or [meta['property']]
    d = worktree(name)
    try:
        rc, out = sh(['git', '-C', d, 'apply', os.path.join(dst, 'patch.diff')])
        if rc:
            print('patch does not apply:', out)
            return
        for c in checks:
            env = dict(os.environ, VERIF_REPO=d, VERIF_SEED=str(seed))
            t0 = time.time()
            cmd = ['/venv/bin/python', '-m', 'lv.check', c, '--tier', tier]
            if budget:
                cmd += ['--budget', str(budget)]
            rc, out = sh(cmd, cwd=VERIF, env=env, timeout=4 * 3600)
            viol = [l for l in out.split('\n') if l.startswith('VIOLATION')]
            buckets = [l for l in out.split('\n') if l.startswith('--- failing case')]
            res = {'exit': rc, 'tier': tier, 'seed': int(seed), 'wall_s': round(time.time() - t0, 1),
                   'violations': len(viol), 'buckets': [b[:200] for b in buckets][:6],
                   'summary': out.strip().split('\n')[-1][:300]}
            meta.setdefault('checks', {})['%s:%s:seed%s' % (c, tier, seed)] = res
            print(name, c, json.dumps(res)[:700])
        json.dump(meta, open(os.path.join(dst, 'meta.json'), 'w'), indent=1)
    finally:
        drop(d)
        shutil.rmtree(os.path.join(VERIF, '.build', 'mut_replays'), ignore_errors=True)


if __name__ == '__main__':
    a = sys.argv[1:]
    if a[0] == 'confirm':
        sys.exit(0 if confirm(a[1], a[2]) else 1)
    elif a[0] == 'run':
        tier, seed, budget, rest = 'quick', '1', None, []
        it = iter(a[2:])
        for x in it:
            if x == '--tier':
                tier = next(it)
            elif x == '--seed':
                seed = next(it)
            elif x == '--budget':
                budget = next(it)
            else:
                rest.append(x)
        run(a[1], rest, tier, seed, budget)
