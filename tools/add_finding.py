"""usage: add_finding.py <property> <key> <status> <commit|-> <replay.json|case.json> <what...>"""
import json, sys
prop, key, status, commit, path = sys.argv[1:6]
what = ' '.join(sys.argv[6:])
rec = json.load(open(path))
case = rec['case'] if 'case' in rec and ('bucket' in rec or len(rec) <= 3) else rec
kf = json.load(open('/verif/known_findings.json'))
kf['findings'] = [e for e in kf['findings'] if not (e['property'] == prop and e['key'] == key)]
e = {'property': prop, 'key': key, 'status': status, 'what': what, 'repro': case}
if commit != '-':
    e['commit'] = commit
kf['findings'].append(e)
json.dump(kf, open('/verif/known_findings.json', 'w'), indent=1)
print('findings:', [(x['property'], x['key'], x['status']) for x in kf['findings']])
