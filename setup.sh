#!/bin/sh
# Offline setup: make sure hypothesis imports in /venv; create scratch dirs.
set -e
cd "$(dirname "$0")"
if ! /venv/bin/python -c "import hypothesis" 2>/dev/null; then
  /venv/bin/pip install --no-index --find-links /opt/veriftools/wheels hypothesis
fi
mkdir -p .build evidence replays
/venv/bin/python -c "import hypothesis; print('hypothesis', hypothesis.__version__)"
