"""Regenerates MANIFEST.json from the table below (keeps it valid at all times)."""
import json, os
HERE = os.path.dirname(os.path.abspath(__file__))
props = [json.loads(l) for l in open(os.path.join(HERE, 'properties.jsonl'))]
CHECKS = {
 'C01': dict(text='Generated-program search: every intensional predicate of typed core-fragment programs is compiled, executed on SQLite and compared as a multiset (and by column names) with an independent nested-loop reference evaluator; failures are delta-debugged to a minimal program.',
             note='Trusted: CPython, sqlite3, Hypothesis, the reference evaluator lv/ref.py (no code shared with the compiler; self-tested on the documentation examples). Bounded: <=7 predicates, <=6 rows/table, nesting <=2.',
             technique='property-based differential testing against a reference evaluator (Hypothesis)', ref='2/C01'),
 'C02': dict(text='Generated-program search over the aggregation profile (predicate-level and expression-level aggregation, distinct, negation, clashing local names, null inputs, empty groups, ties); every intensional predicate is run on SQLite and compared with the reference evaluator; a mismatch is attributed to a recorded engine deviation only if the reference reproduces the actual rows under exactly that deviation.',
             note='Trusted: CPython, sqlite3, Hypothesis, reference evaluator lv/ref.py. Membership tests among nulls and comparisons of composite values are not asserted (counted as inconclusive).',
             technique='property-based differential testing against a reference evaluator (Hypothesis)', ref='2/C02'),
}
NOT_YET = 'check not built yet in this round (planned in DESIGN.md)'
m = {
 'version': 1,
 'setup_cmd': 'sh setup.sh',
 'hooks': {'guard': 'EVGSKV_LOGICA_VERIF', 'enable': 'no hooks: checks import the working tree of /repo (or $VERIF_REPO) directly', 'baseline_off_cmd': 'cd /repo && /venv/bin/python -m pytest -ra -q -p no:cacheprovider --timeout=900 --continue-on-collection-errors', 'source_commits': [], 'add_only': True},
 'engines': [{'name': 'lv', 'path': 'lv/', 'serves_properties': sorted(CHECKS), 'kind_free_text': 'Hypothesis-driven generators + reference evaluator + real compiler/SQLite driver; 16 worker processes'}],
 'checks': [], 'not_applicable': [],
 'notes': 'All checks: cd /verif && /venv/bin/python -m lv.check <ID> --tier quick|thorough; VERIF_SEED honoured; VERIF_REPO selects the tree under test (default /repo).',
}
for p in props:
    pid = p['id']
    if pid in CHECKS:
        c = CHECKS[pid]
        m['checks'].append({
            'property_id': pid,
            'quick_cmd': '/venv/bin/python -m lv.check %s --tier quick' % pid,
            'thorough_cmd': '/venv/bin/python -m lv.check %s --tier thorough' % pid,
            'evidence_file': 'evidence/%s.json' % pid,
            'replay_cmd_template': '/venv/bin/python -m lv.check %s --replay {path}' % pid,
            'engine': 'lv',
            'level_claimed': {'category': 'exploration', 'text': c['text'], 'design_ref': c['ref']},
            'level_note': c['note'], 'technique': c['technique']})
    else:
        m['not_applicable'].append({'property_id': pid, 'reason': NOT_YET})
json.dump(m, open(os.path.join(HERE, 'MANIFEST.json'), 'w'), indent=1)
print('checks', len(m['checks']), 'not_applicable', len(m['not_applicable']))
