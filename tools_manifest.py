"""Regenerates MANIFEST.json from the table below (keeps it valid at all times)."""
import json, os
HERE = os.path.dirname(os.path.abspath(__file__))
props = [json.loads(l) for l in open(os.path.join(HERE, 'properties.jsonl'))]
CHECKS = {
 'C01': dict(text='Generated-program search: every intensional predicate of typed core-fragment programs is compiled, executed on SQLite and compared as a multiset (and by column names) with an independent nested-loop reference evaluator; failures are delta-debugged to a minimal program.',
             note='Trusted: CPython, sqlite3, Hypothesis, the reference evaluator lv/ref.py (no code shared with the compiler; self-tested on the documentation examples). Bounded: <=7 predicates, <=6 rows/table, nesting <=2.',
             technique='property-based differential testing against a reference evaluator (Hypothesis)', ref='2/C01'),
 'C02': dict(text='Generated-program search over the aggregation profile (predicate-level and expression-level aggregation, distinct, negation, clashing local names, null inputs, empty groups, ties); every intensional predicate is run on SQLite and compared with the reference evaluator; a mismatch is attributed to a recorded engine deviation only if the reference reproduces the actual rows under exactly that deviation.',
             note='Trusted: CPython, sqlite3, Hypothesis, reference evaluator lv/ref.py. Membership tests among nulls and comparisons of composite values are not asserted (counted as inconclusive).',
             technique='property-based differential testing against a reference evaluator (Hypothesis)', ref='2/C02'),
 'C07': dict(text='Metamorphic generated-program search: statement/fact/conjunct/disjunct permutations, per-rule variable renamings and order-changing predicate renamings of generated programs must leave every predicate equal (as a multiset; List as multiset, Set as set, ties by validity) to the reference value of the original program.',
             note='Trusted: CPython, sqlite3, Hypothesis, reference evaluator (arbitrates which side is wrong). Recursive and functor programs get their order/naming variants in C03/C04.',
             technique='metamorphic property-based testing + reference evaluator (Hypothesis)', ref='2/C07'),
 'C08': dict(text='Generated-program search over plan annotations: every concrete predicate gets each of {none,@NoInject,@With,@NoWith,@NoInject+@NoWith,@NoInject+@With,@Ground} in fixed and drawn assignments; every predicate under every assignment equals the reference evaluator, where injectible calls are capture-avoiding body substitution; SQL text difference shows the plan changed.',
             note='Trusted: CPython, sqlite3, Hypothesis, reference evaluator. @Ground on the in-memory logica_test database.',
             technique='metamorphic/differential property-based testing (Hypothesis)', ref='2/C08'),
 'C11': dict(text='Generated programs are printed in two spellings differing in one documented sugar class (S1-S10) at one or all occurrences; both spellings, compiled and run on SQLite, must equal the reference evaluator value of the AST.',
             note='Trusted: CPython, sqlite3, Hypothesis, reference evaluator. S8 is not asserted when a list element contains a functional call to a table (two documented sugars interact).',
             technique='metamorphic property-based testing over spelling variants (Hypothesis)', ref='2/C11'),
 'C03': dict(text='Generated recursive programs (self, ring, dense mutual recursion, Min=/Max= recursion, negation of non-recursive predicates, multiset recursion) over graphs of <= 6 nodes at depths 1..30 incl. the > 20 iterative range executed through concertina_lib on SQLite; oracle class chosen by our own SCC/root/cut analysis: exact classes equal T^(depth+1)(empty) as a multiset, monotone set-valued programs under any strategy satisfy T^(depth+1) <= R <= lfp.',
             note='Trusted: CPython, sqlite3, Hypothesis, reference evaluator lv/ref.py + step semantics lv/recgen.py. Programs not live within the bound are C19 territory and skipped (counted). SQLite statements needing > 192 MB heap are inconclusive (counted).',
             technique='property-based differential testing against a reference step evaluator (Hypothesis)', ref='2/C03'),
 'C09': dict(text='Generated typed core-fragment programs printed once per engine (8 dialects); every concrete predicate is compiled: the outcome must be SQL or one of the four diagnostic exception types, and the SQL (preamble, defines_and_exports, main) must pass an independent per-dialect lexer + block scoper (balanced brackets/literals, alias.column in scope, WITH tables defined before use, no placeholder leak); SQLite output is also executed to calibrate the scoper in both directions.',
             note='Trusted: CPython, sqlite3, Hypothesis, lv/sqlscope.py (lexers written from the engines documented lexical rules). Only SQLite is executed. Text inside $$...$$ is not examined.',
             technique='property-based testing with a validity predicate (SQL lexer/scoper) over generated programs x 8 dialects (Hypothesis)', ref='2/C09'),
 'C10': dict(text='Hostile strings (alphabet of every character special to Logica, Python formatting and the eight SQL dialects + a dictionary of injection fragments) written in each literal form at 11 positions for all 8 engines: on SQLite the returned value must equal the string; in every dialect the emitted statement, tokenised by that dialects lexical rules, must have the token shape of the control string and its literal must decode to the string. ${flag} sub-domain: generated definitions with chains, DAGs, cycles, self-reference, undefined names and user overrides; compilation must end (substitution rounds counted, memory-bounded child) in the full expansion or a diagnostic.',
             note='Trusted: CPython, sqlite3, Hypothesis, lv/sqlscope.py lexers. Strings never contain "${" (parameter introducer) in sub-domain A. One open known finding (line break inside a re-indented block) is excluded by construction and counted.',
             technique='property-based round-trip / token-shape metamorphic testing (Hypothesis)', ref='2/C10'),
 'C13': dict(text='(a) every integration-corpus program that compiles offline and generated programs (recursion in every unfolding mode, functors, @Iteration, imports, udfs, type-checked dialects) compiled in fresh interpreters under PYTHONHASHSEED 0 and a drawn seed; (b) in-process histories from a Hypothesis RuleBasedStateMachine (parse, compile, failing compile, incantation main file, re-use of a rules object) compared step by step with the fresh-interpreter baseline; oracle: byte equality of SQL text, table_to_export_map and dependency edges after masking logical_stop_<digits>, and the caller-owned rules object unchanged.',
             note='Trusted: CPython, Hypothesis. Hash seeds and histories are sampled. Order of dict keys of table_to_export_map / the edge list is noted, not compared.',
             technique='property-based differential testing across hash seeds + stateful (rule-based state machine) testing against a fresh-process baseline (Hypothesis)', ref='2/C13'),
 'C14': dict(text='(A) random compile-shaped workflow plans (DAG of <= 10 actions, 0-2 flat or diamond iteration groups, repetitions 1-4, stop signals raised by the recording runner at a drawn call) handed to concertina_lib.ExecuteLogicaProgram as execution objects; (B) plans compiled from generated SQLite programs with several @Ground and deep recursion, run on a real connection; oracle: invariants over the sql_runner call log (inputs before readers, exactly-once, declared order x repetitions, prefix + at most one more pass after a stop signal, bounded number of calls) and equality of multi-predicate with single-predicate results.',
             note='Trusted: CPython, sqlite3, Hypothesis, lv/plans.py log checker. Synthetic groups have only the two shapes recursion_library emits. No concurrency exists in concertina_lib; termination is decided as a bound on runner calls.',
             technique='property-based testing of invariants over execution histories (generated plans + recording runner, Hypothesis)', ref='2/C14'),
 'C16': dict(text='Exhaustive enumeration of all ordered pairs of type terms of depth <= 2 over a reduced alphabet (1.67M pairs in quick) plus Hypothesis-sampled pairs and triples of depth <= 3 with shared TypeReference objects, reference chains and bare concrete children; oracle is an independent structural meet with bottom (two formulations cross-checked); symmetry, same-denotation, idempotence, information preservation, clash iff bottom, order independence of clash-free triples.',
             note='Trusted: CPython, Hypothesis, the independent oracle lv/typemeet.py. Cyclic (occurs-check) cases skipped; nothing asserted after a clash inside a triple.',
             technique='exhaustive enumeration + property-based testing against a reference model (Hypothesis)', ref='2/C16'),
 'C17': dict(text='Stateful model-based search: a Hypothesis RuleBasedStateMachine owns one persistent SQLite file and 2-3 variants of a generated program grounding the same predicate names; steps run a predicate exactly as logica.py does (script mode, the real logica.py CLI in-process, or concertina for several predicates), repeat runs, reopen the observer, and tamper with a freshly written table to prove dependants read it; after every step the file read through a second connection must equal a table->multiset model computed by the independent reference evaluator, and returned rows must equal the reference.',
             note='Trusted: CPython, sqlite3, Hypothesis, lv/ref.py, lv/canon.py. Bounds: <= 9 predicates, <= 5 rows per fact table, <= 3 grounded predicates, 2-3 variants, <= 11 steps. overwrite:false, @Ground(P, Q), copy_to_file and rule-less grounded predicates are outside the stated domain and not generated.',
             technique='stateful model-based testing (Hypothesis RuleBasedStateMachine) against a reference evaluator, with fault-injection probes', ref='2/C17'),
 'C18': dict(text='Generated-program search: programs with ordered/limited predicates (annotation and denotation spellings, asc/desc key lists that are total over the rows, K from 0 to n+2) and deliberately shaped consumers (join, aggregation, negation, combine, functional call, injectible chain, nested ordered predicate) under @With/@NoWith/@NoInject/@Ground are compiled and run on SQLite; the ordered predicate is compared as a LIST and every dependent predicate as a multiset with an independent reference evaluator (sort, take first K); limit-only predicates are checked existentially.',
             note='Trusted: CPython, sqlite3, Hypothesis, reference evaluator lv/ref.py. Bounded: <= 6 rows per table, key columns null-free ints or lowercase-ASCII strings, no composite columns in ordered predicates, SQLite only, Python parser only; under type checking only the CheckOrderByClause diagnostic is asserted.',
             technique='property-based differential testing against a reference evaluator (Hypothesis), with an existential oracle for unordered truncation', ref='2/C18'),
 'C20': dict(text='One generated built-in call per case (scalar built-ins over small int/string/list domains; aggregates over <= 5 facts under ALL permutations of the fact order, K from 1 to n+1, ties, duplicates, nulls); executed on SQLite and compared with small Python models written from the documentation; every built-in of the statement exercised in every run.',
             note='Trusted: CPython, sqlite3, Hypothesis, the models in lv/builtin_models.py (each cites its documentation source). Corners the docs leave open (Element out of range, Split with empty separator, int division with remainder, negative modulo ...) are kept out of the domain and listed in evidence.',
             technique='property-based testing against reference models + exhaustive permutation of aggregate input order (Hypothesis)', ref='2/C20'),
}
NOT_YET = 'check not built yet in this round (planned in DESIGN.md)'
m = {
 'version': 1,
 'setup_cmd': 'sh setup.sh',
 'hooks': {'guard': 'EVGSKV_LOGICA_VERIF', 'enable': 'no hooks: checks import the working tree of /repo (or $VERIF_REPO) directly', 'baseline_off_cmd': 'cd /repo && /venv/bin/python -m pytest -ra -q -p no:cacheprovider --timeout=900 --continue-on-collection-errors', 'source_commits': [], 'add_only': True},
 'engines': [{'name': 'lv', 'path': 'lv/', 'serves_properties': sorted(CHECKS), 'kind_free_text': 'Hypothesis-driven generators + reference evaluator + real compiler/SQLite driver; 16 worker processes'}],
 'checks': [], 'not_applicable': [],
 'notes': 'All checks: cd /verif && /venv/bin/python -m lv.check <ID> --tier quick|thorough; VERIF_SEED honoured; VERIF_REPO selects the tree under test (default /repo).',
}
for p in props:
    pid = p['id']
    if pid in CHECKS:
        c = CHECKS[pid]
        m['checks'].append({
            'property_id': pid,
            'quick_cmd': '/venv/bin/python -m lv.check %s --tier quick' % pid,
            'thorough_cmd': '/venv/bin/python -m lv.check %s --tier thorough' % pid,
            'evidence_file': 'evidence/%s.json' % pid,
            'replay_cmd_template': '/venv/bin/python -m lv.check %s --replay {path}' % pid,
            'engine': 'lv',
            'level_claimed': {'category': 'exploration', 'text': c['text'], 'design_ref': c['ref']},
            'level_note': c['note'], 'technique': c['technique']})
    else:
        m['not_applicable'].append({'property_id': pid, 'reason': NOT_YET})
json.dump(m, open(os.path.join(HERE, 'MANIFEST.json'), 'w'), indent=1)
print('checks', len(m['checks']), 'not_applicable', len(m['not_applicable']))
