"""Program transformations on lv.model ASTs.

Sugar classes S1..S10 (C11), permutations / renamings (C07), plan annotations (C08).
Every function returns a NEW program dict; random choices come from `rng`.
"""
import copy

from lv import model
from lv.model import expr_vars, body_vars


# ----------------------------------------------------------------- generic walkers

def map_body(body, fn, nested=False, in_or=False):
    """Bottom-up rewrite of a body; fn(lit, nested, in_or) -> list of literals."""
    out = []
    for l in body:
        k = l[0]
        if k == 'neg':
            l = ('neg', map_body(l[1], fn, True, False)) + tuple(l[2:])
        elif k == 'impl':
            l = ('impl', map_body(l[1], fn, True, False),
                 map_body(l[2], fn, True, False)) + tuple(l[3:])
        elif k == 'agg':
            l = tuple(l[:4]) + (map_body(l[4], fn, True, False),) + tuple(l[5:])
        elif k == 'or':
            l = ('or', tuple(map_body(b, fn, nested, True) for b in l[1]))
        out.extend(fn(l, nested, in_or))
    return tuple(out)


def map_expr(e, fn):
    """Bottom-up expression rewrite; fn(expr) -> expr."""
    k = e[0]
    if k in ('lit', 'var'):
        return fn(e)
    if k in ('bin', 'cmp'):
        return fn((k, e[1], map_expr(e[2], fn), map_expr(e[3], fn)))
    if k == 'not':
        return fn(('not', map_expr(e[1], fn)))
    if k == 'if':
        return fn(('if', map_expr(e[1], fn), map_expr(e[2], fn), map_expr(e[3], fn)))
    if k == 'list':
        return fn(('list', tuple(map_expr(x, fn) for x in e[1])))
    if k == 'rec':
        return fn(('rec', tuple((f, map_expr(x, fn)) for f, x in e[1])))
    if k == 'field':
        return fn(('field', map_expr(e[1], fn), e[2]))
    if k == 'size':
        return fn(('size', map_expr(e[1], fn)))
    if k in ('elem', 'inx', 'arrow'):
        return fn((k, map_expr(e[1], fn), map_expr(e[2], fn)))
    if k == 'fcall':
        return fn(('fcall', e[1], tuple((f, map_expr(x, fn)) for f, x in e[2])))
    raise ValueError(e)


def map_lit_exprs(l, fn):
    """Apply an expression rewrite to the expressions directly inside a literal."""
    k = l[0]
    if k == 'call':
        return ('call', l[1], tuple((f, map_expr(x, fn)) for f, x in l[2])) + tuple(l[3:])
    if k == 'cmp':
        return ('cmp', l[1], map_expr(l[2], fn), map_expr(l[3], fn))
    if k == 'assign':
        return ('assign', l[1], map_expr(l[2], fn)) + tuple(l[3:])
    if k == 'in':
        return ('in', map_expr(l[1], fn), map_expr(l[2], fn))
    if k == 'prop':
        return ('prop', map_expr(l[1], fn))
    if k == 'agg':
        return tuple(l[:3]) + (map_expr(l[3], fn),) + tuple(l[4:])
    return l


def with_rules(prog, rules):
    p = dict(prog)
    p['rules'] = list(rules)
    return p


def toggle(opts, flag):
    opts = tuple(opts)
    return tuple(o for o in opts if o != flag) if flag in opts else opts + (flag,)


class Site(object):
    """Counts applicable sites; applies at site `target` (or all when target is None)."""

    def __init__(self, target):
        self.target = target
        self.n = 0
        self.applied = 0

    def hit(self):
        i = self.n
        self.n += 1
        if self.target is None or self.target == i:
            self.applied += 1
            return True
        return False


def fresh_name(rule, prefix):
    used = model.rule_all_vars(rule)
    i = 0
    while '%s%d' % (prefix, i) in used:
        i += 1
    return '%s%d' % (prefix, i)


# ----------------------------------------------------------------- sugar classes

def _lit_sugar(prog, site, litfn, headfn=None):
    rules = []
    for r in prog['rules']:
        r2 = dict(r)
        if headfn is not None:
            r2 = headfn(r2, site)
        if litfn is not None:
            r2['body'] = map_body(r2['body'], lambda l, n, o: litfn(l, n, o, site, r2))
        rules.append(r2)
    p = with_rules(prog, rules)
    return p


def s1_positional(prog, target):
    """positional arguments <-> col0:, col1: ..."""
    site = Site(target)

    def litfn(l, nested, in_or, site, r):
        if l[0] == 'call' and l[1] not in prog.get('inj', {}) and \
                any(isinstance(a[0], int) for a in l[2]):
            if site.hit():
                opts = l[3] if len(l) > 3 else ()
                return [('call', l[1], l[2], toggle(opts, 'colnames'))]
        return [l]

    def headfn(r, site):
        if any(isinstance(f, int) for f, _ in r['head']):
            if site.hit():
                r['opts'] = toggle(r.get('opts', ()), 'colnames')
        return r
    return _lit_sugar(prog, site, litfn, headfn), site


def s2_short(prog, target):
    """`a:` <-> `a: a`"""
    site = Site(target)

    def applicable(args):
        return any(isinstance(f, str) and t == ('var', f) for f, t in
                   [(a[0], a[1]) for a in args])

    def litfn(l, nested, in_or, site, r):
        if l[0] == 'call' and applicable(l[2]):
            if site.hit():
                opts = l[3] if len(l) > 3 else ()
                return [('call', l[1], l[2], toggle(opts, 'short'))]
        return [l]

    def headfn(r, site):
        if applicable([(f, v) for f, v in r['head'] if v[0] != 'AGG']):
            if site.hit():
                r['opts'] = toggle(r.get('opts', ()), 'short')
        return r
    return _lit_sugar(prog, site, litfn, headfn), site


def s3_value(prog, target):
    """F(x) = v <-> F(x, logica_value: v) in heads and in body calls."""
    site = Site(target)

    def litfn(l, nested, in_or, site, r):
        if l[0] == 'call' and any(a[0] == 'logica_value' for a in l[2]) and \
                l[1] not in prog.get('inj', {}):
            if site.hit():
                opts = l[3] if len(l) > 3 else ()
                return [('call', l[1], l[2], toggle(opts, 'valueeq'))]
        return [l]

    def headfn(r, site):
        v = r.get('value')
        if v is not None and v[0] != 'AGG':
            if site.hit():
                r['opts'] = toggle(r.get('opts', ()), 'valuefield')
        return r
    return _lit_sugar(prog, site, litfn, headfn), site


def s3c_fcall(prog, target):
    """functional call inside an expression <-> extra conjunct binding logica_value
    (in the scope the expression is written in)."""
    site = Site(target)
    inj = prog.get('inj', {})
    rules = []
    for r in prog['rules']:
        r2 = dict(r)
        counter = [0]

        def pull(e, extra, r2=r2):
            def fn(x):
                if x[0] == 'fcall' and x[1] not in inj and site.hit():
                    used = model.rule_all_vars(r2) | set(v for c in extra
                                                         for v in model.lit_vars(c))
                    i = counter[0]
                    while 'fv%d' % i in used:
                        i += 1
                    counter[0] = i + 1
                    v = 'fv%d' % i
                    extra.append(('call', x[1], tuple(x[2]) +
                                  (('logica_value', ('var', v)),), ()))
                    return ('var', v)
                return x
            return map_expr(e, fn)

        def litfn(l, nested, in_or, r2=r2):
            extra = []
            l2 = map_lit_exprs(l, lambda e: e)  # copy
            k = l[0]
            if k in ('call', 'cmp', 'assign', 'in', 'prop'):
                if k == 'call':
                    l2 = ('call', l[1], tuple((f, pull(x, extra)) for f, x in l[2])) \
                        + tuple(l[3:])
                elif k == 'cmp':
                    l2 = ('cmp', l[1], pull(l[2], extra), pull(l[3], extra))
                elif k == 'assign':
                    l2 = ('assign', l[1], pull(l[2], extra)) + tuple(l[3:])
                elif k == 'in':
                    l2 = ('in', pull(l[1], extra), pull(l[2], extra))
                elif k == 'prop':
                    l2 = ('prop', pull(l[1], extra))
                return [l2] + extra
            if k == 'agg':
                # the aggregated expression belongs to the combine's own scope
                e2 = pull(l[3], extra)
                return [tuple(l[:3]) + (e2, tuple(l[4]) + tuple(extra)) + tuple(l[5:])]
            return [l]
        r2['body'] = map_body(r2['body'], litfn)
        # head expressions: conjunct of the rule body
        extra = []
        head = []
        for f, hx in r2['head']:
            if hx[0] == 'AGG':
                head.append((f, ('AGG', hx[1], pull(hx[2], extra))))
            else:
                head.append((f, pull(hx, extra)))
        r2['head'] = tuple(head)
        v = r2.get('value')
        if v is not None:
            r2['value'] = ('AGG', v[1], pull(v[2], extra)) if v[0] == 'AGG' \
                else pull(v, extra)
        if extra:
            if any(l[0] == 'or' for l in r2['body']) and False:
                pass
            r2['body'] = tuple(r2['body']) + tuple(extra)
        rules.append(r2)
    return with_rules(prog, rules), site


def s4_eq(prog, target):
    """`=` <-> `==` in propositions."""
    site = Site(target)

    def litfn(l, nested, in_or, site, r):
        if l[0] == 'assign' and site.hit():
            eq = l[3] if len(l) > 3 else '=='
            return [('assign', l[1], l[2], '=' if eq == '==' else '==')]
        return [l]
    return _lit_sugar(prog, site, litfn), site


def s5_neg(prog, target):
    """~P <-> Max{1 :- P} is null"""
    site = Site(target)

    def litfn(l, nested, in_or, site, r):
        if l[0] == 'neg' and site.hit():
            form = l[2] if len(l) > 2 else 0
            return [('neg', l[1], 1 - form)]
        return [l]
    return _lit_sugar(prog, site, litfn), site


def s6_impl(prog, target):
    """A => B <-> ~(A, ~B)"""
    site = Site(target)

    def litfn(l, nested, in_or, site, r):
        if l[0] == 'impl' and site.hit():
            form = l[3] if len(l) > 3 else 0
            return [('impl', l[1], l[2], 1 - form)]
        return [l]
    return _lit_sugar(prog, site, litfn), site


def s7_combine(prog, target, shift=1):
    """x Op= (e :- b) <-> x == Op{e :- b} <-> x == (combine Op= e :- b) (<-> x = Op{..})"""
    site = Site(target)

    def litfn(l, nested, in_or, site, r):
        if l[0] == 'agg' and site.hit():
            forms = [1, 2] if l[2] == '+' else [0, 1, 2, 3]
            i = forms.index(l[5]) if l[5] in forms else 0
            return [tuple(l[:5]) + (forms[(i + shift) % len(forms)],)]
        return [l]
    return _lit_sugar(prog, site, litfn), site


def s8_in(prog, target):
    """x in [a, b] <-> (x == a | x == b)   (top level only: no disjunction inside
    negation / aggregation)"""
    site = Site(target)
    inj = prog.get('inj', {})

    def has_table_call(e):
        found = []
        map_expr(e, lambda x: found.append(1) or x
                 if x[0] == 'fcall' and x[1] not in inj else x)
        return bool(found)

    def litfn(l, nested, in_or, site, r):
        # a functional call to a table inside the list is a conjunct of the whole rule
        # in the `in` form and of one alternative in the `|` form: the two documented
        # sugars interact, neither reading is asserted
        if l[0] == 'in' and l[2][0] == 'list' and not nested and not in_or \
                and len(l[2][1]) >= 1 and not has_table_call(l[2]) \
                and not has_table_call(l[1]):
            if site.hit():
                br = []
                for item in l[2][1]:
                    if l[1][0] == 'var':
                        br.append((('assign', l[1][1], item, '=='),))
                    else:
                        br.append((('cmp', '==', l[1], item),))
                if len(br) == 1:
                    return list(br[0])
                return [('or', tuple(br))]
        return [l]
    return _lit_sugar(prog, site, litfn), site


def s9_split_or(prog, target):
    """one rule with `|`  <->  several rules."""
    site = Site(target)
    rules = []
    for r in prog['rules']:
        idx = [i for i, l in enumerate(r['body']) if l[0] == 'or']
        if idx and site.hit():
            i = idx[0]
            for b in r['body'][i][1]:
                r2 = dict(r)
                r2['body'] = tuple(r['body'][:i]) + tuple(b) + tuple(r['body'][i + 1:])
                rules.append(r2)
        else:
            rules.append(r)
    return with_rules(prog, rules), site


def s10_aggvalue(prog, target):
    """P(k) Op= e <-> P(k, logica_value? Op= e) distinct"""
    site = Site(target)

    def headfn(r, site):
        v = r.get('value')
        if v is not None and v[0] == 'AGG':
            if site.hit():
                r['opts'] = toggle(r.get('opts', ()), 'valuefield')
                r['distinct'] = True
        return r
    return _lit_sugar(prog, site, None, headfn), site


SUGAR = {
    'S1_positional_colN': s1_positional,
    'S2_short_named': s2_short,
    'S3_value_eq_field': s3_value,
    'S3c_fcall_conjunct': s3c_fcall,
    'S4_eq_eqeq': s4_eq,
    'S5_neg_max_is_null': s5_neg,
    'S6_implication': s6_impl,
    'S7_combine_forms': s7_combine,
    'S8_in_alternatives': s8_in,
    'S9_rules_vs_or': s9_split_or,
    'S10_agg_value_field': s10_aggvalue,
}


def count_sites(prog, cls):
    p, site = SUGAR[cls](prog, -1)
    return site.n


# ----------------------------------------------------------------- permutations (C07)

def shuffle_body(body, rng):
    def deep(l):
        k = l[0]
        if k == 'neg':
            return ('neg', shuffle_body(l[1], rng)) + tuple(l[2:])
        if k == 'impl':
            return ('impl', shuffle_body(l[1], rng), shuffle_body(l[2], rng)) + tuple(l[3:])
        if k == 'agg':
            return tuple(l[:4]) + (shuffle_body(l[4], rng),) + tuple(l[5:])
        if k == 'or':
            brs = [shuffle_body(b, rng) for b in l[1]]
            rng.shuffle(brs)
            return ('or', tuple(brs))
        return l
    out = [deep(l) for l in body]
    rng.shuffle(out)
    return tuple(out)


def permute(prog, rng, statements=True, conjuncts=True):
    rules = []
    for r in prog['rules']:
        r2 = dict(r)
        if conjuncts:
            r2['body'] = shuffle_body(r['body'], rng)
        rules.append(r2)
    if statements:
        rng.shuffle(rules)
    p = with_rules(prog, rules)
    if statements and prog.get('inj'):
        items = list(prog['inj'].items())
        rng.shuffle(items)
        p['inj'] = dict(items)
    return p


def rename_expr(e, m):
    return map_expr(e, lambda x: ('var', m.get(x[1], x[1])) if x[0] == 'var' else x)


def rename_body(body, m):
    def fn(l, nested, in_or):
        k = l[0]
        l = map_lit_exprs(l, lambda x: ('var', m.get(x[1], x[1])) if x[0] == 'var' else x)
        if k == 'assign':
            l = ('assign', m.get(l[1], l[1])) + tuple(l[2:])
        elif k == 'agg':
            l = ('agg', m.get(l[1], l[1])) + tuple(l[2:])
        if k == 'call':
            # shorthand `a:` only stays legal if the variable keeps the field's name
            opts = l[3] if len(l) > 3 else ()
            if 'short' in opts:
                l = ('call', l[1], l[2], tuple(o for o in opts if o != 'short'))
        return [l]
    return map_body(body, fn)


ALPHA_POOL = ['x', 'y', 'z', 'w', 'u', 'v', 'p', 'q', 'a', 'b', 'c', 'd', 'e', 'f',
              'g', 'h', 'k', 'm', 'n', 'r', 's', 't', 'aa', 'ab', 'zz', 'foo', 'bar',
              'left', 'right', 'value', 'col', 'arg', 'x1', 'x2', 'y_1', 'tmp', 'res']


def alpha_rename(prog, rng):
    """Consistent bijective renaming of the variables of every rule (independently per
    rule; names may coincide with names of other rules and of injectible callees)."""
    rules = []
    for r in prog['rules']:
        vs = sorted(model.rule_all_vars(r))
        if not vs:
            rules.append(r)
            continue
        pool = [n for n in ALPHA_POOL]
        new = rng.sample(pool, len(vs)) if len(vs) <= len(pool) else \
            ['rv%d' % i for i in range(len(vs))]
        m = dict(zip(vs, new))
        r2 = dict(r)
        r2['body'] = rename_body(r['body'], m)
        head = []
        for f, hx in r['head']:
            if hx[0] == 'AGG':
                head.append((f, ('AGG', hx[1], rename_expr(hx[2], m))))
            else:
                head.append((f, rename_expr(hx, m)))
        r2['head'] = tuple(head)
        v = r.get('value')
        if v is not None:
            r2['value'] = ('AGG', v[1], rename_expr(v[2], m)) if v[0] == 'AGG' \
                else rename_expr(v, m)
        r2['opts'] = tuple(o for o in r.get('opts', ()) if o != 'short')
        rules.append(r2)
    p = with_rules(prog, rules)
    inj = {}
    for name, d in prog.get('inj', {}).items():
        if d[0] == 'fun':
            vs = sorted(set(d[1]) | expr_vars(d[2]))
            m = dict(zip(vs, rng.sample(ALPHA_POOL, len(vs))))
            inj[name] = ('fun', tuple(m[x] for x in d[1]), rename_expr(d[2], m))
        else:
            vs = sorted(set(d[1]) | body_vars(d[2]))
            m = dict(zip(vs, rng.sample(ALPHA_POOL, len(vs))))
            inj[name] = ('rel', tuple(m[x] for x in d[1]), rename_body(d[2], m))
    p['inj'] = inj
    return p


PRED_POOL = ['Aa', 'Zz', 'Mid', 'Beta', 'Alpha', 'Omega', 'Kk', 'Bb', 'Yy', 'Cc', 'Xx',
             'Dd', 'Ww', 'Ee', 'Vv', 'Ff', 'Uu', 'Gg', 'Tt', 'Hh', 'Ss', 'Ii']


def rename_preds(prog, rng):
    """Bijective renaming of predicates (changes their lexicographic order)."""
    names = []
    for r in prog['rules']:
        if r['pred'] not in names:
            names.append(r['pred'])
    for n in prog.get('inj', {}):
        if n not in names:
            names.append(n)
    new = rng.sample(PRED_POOL, len(names)) if len(names) <= len(PRED_POOL) else \
        ['Pp%d' % i for i in range(len(names))]
    m = dict(zip(names, new))

    def ex(x):
        if x[0] == 'fcall':
            return ('fcall', m.get(x[1], x[1]), x[2])
        return x

    def fn(l, nested, in_or):
        l = map_lit_exprs(l, ex)
        if l[0] == 'call':
            l = ('call', m.get(l[1], l[1])) + tuple(l[2:])
        return [l]
    rules = []
    for r in prog['rules']:
        r2 = dict(r)
        r2['pred'] = m[r['pred']]
        r2['body'] = map_body(r['body'], fn)
        head = []
        for f, hx in r['head']:
            if hx[0] == 'AGG':
                head.append((f, ('AGG', hx[1], map_expr(hx[2], ex))))
            else:
                head.append((f, map_expr(hx, ex)))
        r2['head'] = tuple(head)
        v = r.get('value')
        if v is not None:
            r2['value'] = ('AGG', v[1], map_expr(v[2], ex)) if v[0] == 'AGG' \
                else map_expr(v, ex)
        rules.append(r2)
    p = with_rules(prog, rules)
    inj = {}
    for name, d in prog.get('inj', {}).items():
        if d[0] == 'fun':
            inj[m[name]] = ('fun', d[1], map_expr(d[2], ex))
        else:
            inj[m[name]] = ('rel', d[1], map_body(d[2], fn))
    p['inj'] = inj
    if 'preds' in prog:
        p['preds'] = [m.get(x, x) for x in prog['preds']]
    if 'sig' in prog:
        p['sig'] = {m.get(k, k): v for k, v in prog['sig'].items()}
    p['ann'] = [rename_in_annotation(a, m) for a in prog.get('ann', [])]
    return p, m


def rename_in_annotation(a, m):
    import re
    return re.sub(r'\b([A-Z][A-Za-z0-9]*)\b', lambda g: m.get(g.group(1), g.group(1)), a)
