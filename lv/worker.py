"""One shard of one property's generated search.  Usage:
python -m lv.worker <ID> <tier> <seed> <k> <nshards> <budget> <outfile>"""
import importlib
import json
import sys
import traceback

from lv import core


def main(argv):
    pid, tier, seed, k, n, budget, out = argv
    ctx = core.Ctx(pid, tier, int(seed), int(k), int(n), int(budget))
    core.CASE_SALT[0] = (int(seed) * 1000003 + int(k) * 7919 + 1) * 0x9E3779B97F4A7C15 % (2 ** 64)
    core.setup_repo_imports()
    mod = importlib.import_module('lv.props.' + pid.lower())
    col = core.Collector()
    mod.shard(ctx, col)
    # minimise at most one failure per bucket inside the shard (parallel ddmin)
    if hasattr(mod, 'minimise'):
        seen = set()
        for f in col.failures:
            if f['bucket'] in seen:
                continue
            seen.add(f['bucket'])
            try:
                f['case'] = core.deep_call(mod.minimise, f['case'], f['bucket'])
                f['minimised'] = True
                for b, d in core.deep_call(mod.check_case, f['case']):
                    if b == f['bucket']:
                        f['detail'] = str(d)[:4000]
            except Exception:
                f['minimise_error'] = traceback.format_exc()[-1000:]
    with open(out, 'w') as f:
        json.dump(col.dump(), f, default=str)


if __name__ == '__main__':
    main(sys.argv[1:])
