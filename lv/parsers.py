"""Driving both Logica parsers on one text in one process (C06, C15).

`parse.ParseFile` reads LOGICA_PARSER at every call; the C++ shared object is the one
built by lv.cppbuild from the current $VERIF_REPO source.
"""
import os
import re
import traceback

from lv import core, cppbuild

_state = {}


def setup():
    if 'parse' in _state:
        return _state['parse']
    core.setup_repo_imports()
    cppbuild.install()
    from parser_py import parse
    _state['parse'] = parse
    _state['HAS'] = parse.HeritageAwareString
    _state['too_much'] = parse.TOO_MUCH
    return parse


def _repo_frame(e):
    """innermost frame of the repository in the traceback: 'file.py:function'."""
    rp = core.repo_path()
    fr = None
    for f in traceback.extract_tb(e.__traceback__):
        if os.path.abspath(f.filename).startswith(rp):
            fr = f
    if fr is None:
        return '?'
    return '%s:%s' % (os.path.basename(fr.filename), fr.name)


_ANSI = re.compile(r'\x1b\[[0-9;]*m')


def _msg_class(msg):
    """diagnostic text without colours, quoted program fragments and numbers."""
    msg = _ANSI.sub('', msg)
    msg = msg.strip().split('\n')[0]
    return re.sub(r'\s+', ' ', msg)[:60]


def parse_one(text, mode, import_root=None):
    """-> (status, payload)
    'ok'        payload = list of rules (with HeritageAwareString objects)
    'reject'    payload = diagnostic class (a ParsingException)
    'internal'  payload = 'ExcType:file.py:function'  (any other exception: counts as a
                rejection for C06 and is tallied separately)"""
    parse = setup()
    os.environ['LOGICA_PARSER'] = mode

    def _cls(msg):
        # diagnostics about imports quote the (temporary) import root
        if import_root:
            msg = msg.replace(import_root + '/', '<root>/').replace(import_root, '<root>')
        return _msg_class(msg)
    try:
        if import_root is not None:
            return 'ok', parse.ParseFile(text, import_root=import_root)['rule']
        return 'ok', parse.ParseFile(text)['rule']
    except parse.ParsingException as e:
        if mode == 'CPP':
            t = getattr(e, '_formatted_error_text', '') or ''
            if t.startswith('Error: '):
                return 'internal', 'cpp:' + _cls(t)
            m = re.search(r'\[ [^\]]*Error[^\]]*\] (.*)', _ANSI.sub('', t), re.S)
            return 'reject', _cls(m.group(1) if m else t)
        return 'reject', _cls(str(e))
    except (KeyboardInterrupt, SystemExit, MemoryError):
        raise
    except Exception as e:  # pylint: disable=broad-exception-caught
        return 'internal', '%s:%s' % (type(e).__name__, _repo_frame(e))
    finally:
        os.environ['LOGICA_PARSER'] = 'PY'
        # `Signa inter verba ...` switches a process-wide mode on; never generated,
        # but a corrupted text must not leak state into the next case either way
        if parse.TOO_MUCH != _state['too_much']:
            parse.TOO_MUCH = _state['too_much']


def parse_both(text, import_root=None):
    return {'PY': parse_one(text, 'PY', import_root),
            'CPP': parse_one(text, 'CPP', import_root)}


def plain(n):
    """tree with every str subclass turned into str (spans dropped)."""
    if isinstance(n, dict):
        return {k: plain(v) for k, v in n.items()}
    if isinstance(n, list):
        return [plain(v) for v in n]
    if isinstance(n, str):
        return str(n)
    return n


def strip_heritage(n):
    if isinstance(n, dict):
        return {k: strip_heritage(v) for k, v in n.items()
                if k not in ('expression_heritage', 'full_text')}
    if isinstance(n, list):
        return [strip_heritage(v) for v in n]
    if isinstance(n, str):
        return str(n)
    return n


def first_diff(a, b, path=''):
    """-> (path, a_value, b_value) of the first difference, or None."""
    if type(a) is not type(b) and not (isinstance(a, str) and isinstance(b, str)):
        return path, a, b
    if isinstance(a, dict):
        for k in sorted(set(a) | set(b), key=str):
            if k not in a:
                return path + '/' + str(k), '<absent>', b[k]
            if k not in b:
                return path + '/' + str(k), a[k], '<absent>'
            d = first_diff(a[k], b[k], path + '/' + str(k))
            if d:
                return d
        return None
    if isinstance(a, list):
        if len(a) != len(b):
            return path + '/len', len(a), len(b)
        for i, (x, y) in enumerate(zip(a, b)):
            d = first_diff(x, y, path + '/%d' % i)
            if d:
                return d
        return None
    if a != b:
        return path, a, b
    return None


def path_class(path):
    """'/0/body/conjunction/conjunct/2/x' -> 'x' preceded by its two parents, indices
    dropped: groups tree differences by where in the grammar they occur."""
    parts = [p for p in path.split('/') if p and not p.isdigit()]
    return '/'.join(parts[-3:])


def heritage_strings(n, out, path=''):
    """collects (path, HeritageAwareString) for every such object in the tree."""
    has = _state['HAS']
    if isinstance(n, dict):
        for k, v in n.items():
            heritage_strings(v, out, path + '/' + str(k))
    elif isinstance(n, list):
        for i, v in enumerate(n):
            heritage_strings(v, out, path + '/%d' % i)
    elif isinstance(n, has):
        out.append((path, n))
    return out


def the_strings(n, out):
    """contents of all string literals ({'the_string': {'the_string': s}})."""
    if isinstance(n, dict):
        for k, v in n.items():
            if k == 'the_string' and isinstance(v, str):
                out.append(str(v))
            else:
                the_strings(v, out)
    elif isinstance(n, list):
        for v in n:
            the_strings(v, out)
    return out


def resolve(tree, path):
    """the nodes along '/a/0/b': [tree, tree[a], tree[a][0], ...]."""
    out = [tree]
    n = tree
    for part in [q for q in path.split('/') if q]:
        if isinstance(n, list):
            n = n[int(part)]
        else:
            n = n[part]
        out.append(n)
    return out


def is_array_operand(tree, path):
    """True when the HeritageAwareString at `path` is the expression_heritage of the
    array operand of `a[i]`, i.e. of the first argument of an Element call
    (.../call/record/field_value/0/value/expression/expression_heritage) or of the call
    below a subscript etc.: what ParseArraySub parses from the text before '['."""
    parts = [q for q in path.split('/') if q]
    if len(parts) < 6 or parts[-5:] != ['field_value', '0', 'value', 'expression',
                                        'expression_heritage']:
        return False
    nodes = resolve(tree, path)
    call = nodes[-7]        # the dict holding 'record' -> 'field_value' -> [0] ...
    return isinstance(call, dict) and call.get('predicate_name') == 'Element' and \
        parts[-6] == 'record'


def span_pairs(a, b, out, path=''):
    """(path, ha, hb) for every position where both trees have a HeritageAwareString."""
    has = _state['HAS']
    if isinstance(a, dict) and isinstance(b, dict):
        for k in a:
            if k in b:
                span_pairs(a[k], b[k], out, path + '/' + str(k))
    elif isinstance(a, list) and isinstance(b, list):
        for i, (x, y) in enumerate(zip(a, b)):
            span_pairs(x, y, out, path + '/%d' % i)
    elif isinstance(a, has) and isinstance(b, has):
        out.append((path, a, b))
    return out
