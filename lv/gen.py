"""Typed program generator (construction, not rejection).

All random choices go through `rng`, a random.Random-compatible object; the checks pass
Hypothesis' st.randoms(use_true_random=False) so every choice is a Hypothesis draw.

Types: 'N' number, 'S' string, 'LN' / 'LS' lists, 'R' record {a: N, b: S}.
"""
from lv.model import mk_rule, expr_vars, body_vars

NUMS = [0, 1, 2, 3, 5, 7, -1]
STRS = ['a', 'b', 'c', 'ab']
VARNAMES = ['x', 'y', 'z', 'w', 'u', 'v', 'p', 'q', 'a', 'b', 'c', 'd', 'e', 'f',
            'g', 'h', 'k', 'm', 'n', 'r', 's', 't']
ATOMS = ('N', 'S')
# user wrappers of the K variants: `ArgMax2(x) = ArgMaxK(x, 2);` (printed with the program)
KVARIANTS = ('ArgMin2', 'ArgMax2', 'ArgMin3', 'ArgMax3')
REC_FIELDS = (('a', 'N'), ('b', 'S'))

DEFAULTS = dict(
    n_edb=(2, 3), n_inj=(0, 2), n_idb=(1, 3), max_rows=5, max_arity=3,
    p_named=0.3, p_value=0.25, p_null_fact=0.0,
    p_fcall=0.08, p_if=0.12, p_composite_col=0.15,
    p_or=0.25, p_two_rules=0.35,
    p_neg=0.0, p_agg=0.0, p_distinct=0.0, p_aggx=0.0,
    p_rel_inj=0.5, p_prop=0.15, p_impl=0.0,
    agg_ops=('Sum', 'Min', 'Max', 'Count', '+'),
    pred_agg_ops_n=('Sum', 'Min', 'Max', 'Count', '+'),
    pred_agg_ops_s=('Min', 'Max'),
    p_sibling_reuse=0.0, p_feed_sibling=0.0, nest_depth=1, p_multi_combine=0.0,
    p_shuffle=1.0, p_short=0.3, p_colnames=0.1,
    min_list_len=0,      # C05: 1 keeps empty list literals (type not ground) away
    p_head_perm=0.0,     # named head arguments listed in a drawn order (per rule / fact)
    p_if_composite=0.0,  # if-then-else whose branches are lists / records
    allow_mba_head_perm=True,   # False restores the exclusion of the (fixed, 288b00f) mba finding
    p_in_lit_left=0.0,   # `literal in [..]` with repeated / variable elements
    p_spread_edb=0.0,    # fact table with pairwise different values in one Num column
    avoid_d11=True,      # known finding C01 D11 (see gen.cmp); False re-derives it
    p_uminus=0.0,        # unary minus (also nested: -(-x))
    p_unnest_chain=0.0,  # x in L, l == List{z :- z in [x, ..]}, y in l
    p_recif=0.0,         # a variable bound to a record-valued if-then-else, read >= 2 times
    # --- C08 / C09 profile (all default to "off": the rng stream of other checks is unchanged)
    # p_aggx (above): aggregating EXPRESSION `Op{e :- body}` at any expression position
    p_aggx_nobody=0.5,   # share of those (and of p_agg_nobody literals) written without a body
    aggx_ops=None,       # operators of aggregating expressions (None: agg_ops)
    p_agg_nobody=0.0,    # body-less aggregating literal `v Op= e` / `v == Op{e}` among filters
    p_sibling_reuse_neg=0.0,   # sibling NEGATIONS re-use local names (`~E(x, y), ~E(y, x)`)
    p_inj_combine=0.0,   # injectibles whose bodies contain combines / negations
    p_inj_extra=0.0,     # extra calls of injectibles in a rule body (twice, nested)
    p_fcall_nest=0.0,    # an argument of an injectible function call is such a call itself
    p_name_clash=0.0,    # new variables named like locals of injectibles / sibling combines
    p_call_idb=0.0,      # a call prefers an intensional predicate (deeper plans)
    p_reuse_pick=0.0,    # inside a scope built with sibling reuse a new local takes a freed
    #                      sibling name with this probability (else: uniform over free names)
    inj_distinct_args=False,  # True: the arguments of one injectible call are pairwise
    #                      different texts (else a literal) and outputs are fresh variables:
    #                      `J(w, w, w)` for `J(g, v, h) :- h == v` injects the same-text
    #                      equation `w == w`, dropped by the compiler, unknown in SQL on null
    p_inj_feed=0.0,      # an input of an extra injectible call is an output of an earlier one
    null_in_single_fact=True,   # False: a one-fact table (it gets injected) has no null; a
    #                      join on its null column is the same-text equation `null == null`
    #                      of DESIGN 6, dropped by the compiler, unknown in SQL
    p_graph_edb=0.0,     # fact table over a closed 3-value domain (`F(F(x))` stays defined)
    p_hazard_rule=0.0,   # share of intensional predicates that are small rules built around
    #                      calls of injectibles (see Gen.idb_hazard)
)


class Gen(object):
    def __init__(self, rng, **opts):
        self.rng = rng
        self.o = dict(DEFAULTS)
        self.o.update(opts)
        self.sig = {}            # name -> {'fields': ((f, type)..), 'value': type|None}
        self.rules = []
        self.concrete = []
        self.inj = {}            # name -> InjDef
        self.inj_sig = {}        # name -> (kind, ptypes, value type | n_inputs)
        self.used = set()
        self.roots = set()
        self.excluded = {}
        self.labels = set()
        self.kvariants = set()
        self.colvals = {}        # (pred, field) -> literal exprs present in facts
        self.hot_names = []      # local names shared by sibling scopes of a rule that may be
        #                          injected (p_name_clash: the capture hazard of injection)
        self.warm_names = []     # other parameter / local names of injectibles
        self._reuse_pool = None  # sibling local names free for reuse in the current scope
        self._reused = set()     # names that really are local to >= 2 sibling scopes
        self._nest = 0           # current combine/negation nesting (aggregating expressions)
        self._aggx_off = 0       # > 0: no aggregating expression here

    # ------------------------------------------------------------------ helpers
    def chance(self, p):
        return p > 0 and self.rng.random() < p

    def lit_of(self, t):
        rng = self.rng
        if t == 'N':
            return ('lit', rng.choice(NUMS))
        if t == 'S':
            return ('lit', rng.choice(STRS))
        if t == 'LN':
            return ('lit', [rng.choice(NUMS)
                            for _ in range(rng.randint(self.o['min_list_len'], 3))])
        if t == 'LS':
            return ('lit', [rng.choice(STRS)
                            for _ in range(rng.randint(self.o['min_list_len'], 3))])
        if t == 'R':
            return ('rec', (('a', self.lit_of('N')), ('b', self.lit_of('S'))))
        raise ValueError(t)

    def newvar(self, env, t, prefer=None):
        rng = self.rng
        if prefer and prefer not in self.used and prefer not in VARNAMES[:0]:
            v = prefer
        else:
            hot = None
            pool = self._reuse_pool
            if pool and self.o['p_reuse_pick'] and self.chance(self.o['p_reuse_pick']):
                # controlled reuse (i), sharpened: take a name that IS local to a sibling
                hot = sorted(v for v in pool if v not in self.used)
            elif self.o['p_name_clash'] and (self.hot_names or self.warm_names) and \
                    self.chance(self.o['p_name_clash']):
                # controlled reuse (ii): a caller's variable is named like a local of an
                # injectible / of sibling combines of a predicate that may be injected
                pick = self.hot_names if (self.hot_names and (
                    not self.warm_names or rng.random() < 0.65)) else self.warm_names
                hot = [v for v in pick if v not in self.used]
                if hot:
                    self.labels.add('name_clash_candidate' if pick is self.warm_names
                                    else 'name_clash_sibling_local')
            if hot:
                v = rng.choice(hot)
                if pool and v in pool:
                    self._reused.add(v)
                    self.labels.add('sibling_local_name_shared')
            else:
                free = [v for v in VARNAMES if v not in self.used]
                v = rng.choice(free) if free else 'vv%d' % len(self.used)
        env[v] = t
        self.used.add(v)
        return v

    def bound(self, env, t):
        return [v for v, vt in env.items() if vt == t]

    # ------------------------------------------------------------------ signatures
    def new_sig(self, allow_composite=False, named_p=None):
        rng = self.rng
        ar = rng.randint(1, self.o['max_arity'])
        types = [rng.choice(('N', 'N', 'S')) for _ in range(ar)]
        if allow_composite and self.chance(self.o['p_composite_col']):
            types[-1] = rng.choice(('LN', 'LS', 'R'))
        named_p = self.o['p_named'] if named_p is None else named_p
        allnamed = self.chance(named_p)
        fields = []
        for i in range(ar):
            if allnamed or (fields and isinstance(fields[-1], str)) or \
                    (i > 0 and self.chance(0.3)):
                fields.append('f%d' % i)
            else:
                fields.append(i)
        vt = rng.choice(ATOMS) if self.chance(self.o['p_value']) else None
        return {'fields': tuple(zip(fields, types)), 'value': vt}

    # ------------------------------------------------------------------ EDB
    def edb_graph(self, name):
        """2-3 columns of one atom type over a closed domain of 3 values, 4-6 rows with
        repetition: joins chain (aggregates over it computed from its own values are
        again keys of it)."""
        rng = self.rng
        t = 'N' if rng.random() < 0.7 else 'S'
        ar = rng.choice((2, 2, 3))
        named = rng.random() < 0.3
        fields = tuple((('f%d' % i) if (named or (i == 2 and rng.random() < 0.5)) else i, t)
                       for i in range(ar))
        dom = rng.sample([x for x in (NUMS if t == 'N' else STRS)], 3)
        s = {'fields': fields, 'value': None}
        self.sig[name] = s
        for _ in range(rng.randint(4, 6)):
            row = [('lit', rng.choice(dom)) for _ in range(ar)]
            for (f, _t), v in zip(fields, row):
                self.colvals.setdefault((name, f), []).append(v)
            self.rules.append(mk_rule(name, tuple((f, v) for (f, _t), v in zip(fields, row)),
                                      ()))
        self.concrete.append(name)
        self.graphs = getattr(self, 'graphs', []) + [name]
        self.labels.add('graph_edb')

    def edb(self, name):
        rng = self.rng
        if self.o['p_graph_edb'] and self.chance(self.o['p_graph_edb']):
            return self.edb_graph(name)
        s = self.new_sig(allow_composite=True)
        self.sig[name] = s
        n = rng.randint(1, self.o['max_rows'])
        types = [t for f, t in s['fields']] + ([s['value']] if s['value'] else [])
        pool = [tuple(self.lit_of(t) for t in types) for _ in range(max(1, n // 2 + 1))]
        spread = None
        if self.o['p_spread_edb'] and 'N' in types and self.chance(self.o['p_spread_edb']):
            # a table whose first Num column takes pairwise different values in a drawn
            # arrival order (ranking aggregates need > K distinct values in a group)
            n = rng.randint(4, 6)
            spread = (types.index('N'), rng.sample(NUMS, n))
            self.labels.add('spread_edb')
        for i_row in range(n):
            row = list(rng.choice(pool))
            if spread is not None:
                row[spread[0]] = ('lit', spread[1][i_row])
            if self.o['p_null_fact'] and len(row) > 1 and (
                    n > 1 or self.o['null_in_single_fact']):
                for i in range(1, len(row)):
                    if types[i] in ATOMS and self.chance(self.o['p_null_fact']):
                        row[i] = ('lit', None)
                        self.labels.add('null_fact')
            head = tuple((f, v) for (f, t), v in zip(s['fields'], row))
            for (f, t), v in zip(s['fields'], row):
                self.colvals.setdefault((name, f), []).append(v)
            val = row[-1] if s['value'] else None
            opts = ('colnames',) if self.chance(self.o['p_colnames']) else ()
            head = self.maybe_permute_head(head, opts)
            self.rules.append(mk_rule(name, head, (), value=val, opts=opts))
        self.concrete.append(name)

    # ------------------------------------------------------------------ expressions
    def expr(self, t, env, depth=2, allow_fcall=True):
        rng = self.rng
        cands = self.bound(env, t)
        if depth > 0 and allow_fcall and self.chance(self.o['p_fcall']):
            fc = self.fcall(t, env, depth)
            if fc:
                return fc
        if depth > 0 and self.o['p_aggx'] and not self._aggx_off and \
                self._nest < self.o['nest_depth'] and self.chance(self.o['p_aggx']):
            ax = self.aggx(t, env, depth)
            if ax:
                return ax
        r = rng.random()
        if depth <= 0 or r < 0.35 or t in ('LN', 'LS', 'R'):
            if t in ('LN', 'LS', 'R') and depth > 0 and self.o['p_if_composite'] and \
                    self.chance(self.o['p_if_composite']):
                self.labels.add('if_composite')
                return ('if', self.boolexpr(env, depth - 1),
                        self.expr(t, env, depth - 1, allow_fcall),
                        self.expr(t, env, depth - 1, allow_fcall))
            if cands and rng.random() < 0.7:
                return ('var', rng.choice(cands))
            if t in ('LN', 'LS') and depth > 0 and rng.random() < 0.6:
                et = t[1]
                return ('list', tuple(self.expr(et, env, depth - 1, allow_fcall)
                                      for _ in range(rng.randint(1, 3))))
            if t == 'R' and depth > 0 and rng.random() < 0.6:
                return ('rec', (('a', self.expr('N', env, depth - 1, allow_fcall)),
                                ('b', self.expr('S', env, depth - 1, allow_fcall))))
            return self.lit_of(t)
        if self.chance(self.o['p_if']):
            return ('if', self.boolexpr(env, depth - 1), self.expr(t, env, depth - 1,
                    allow_fcall), self.expr(t, env, depth - 1, allow_fcall))
        # composite accessors
        if r < 0.5:
            if self.bound(env, 'R'):
                self.labels.add('field_access')
                return ('field', ('var', rng.choice(self.bound(env, 'R'))),
                        'a' if t == 'N' else 'b')
            lt = 'L' + t
            if self.bound(env, lt):
                lv = ('var', rng.choice(self.bound(env, lt)))
                if t == 'N' and rng.random() < 0.5:
                    self.labels.add('size')
                    return ('size', lv)
                self.labels.add('element')
                return ('elem', lv, ('lit', rng.randint(0, 2)))
            if t == 'N' and self.bound(env, 'LS') and rng.random() < 0.5:
                self.labels.add('size')
                return ('size', ('var', rng.choice(self.bound(env, 'LS'))))
        if t == 'N':
            if self.o['p_uminus'] and self.chance(self.o['p_uminus']):
                # unary minus, half of the time of something that is itself negated
                inner = self.expr('N', env, depth - 1, allow_fcall)
                if self.chance(0.5):
                    inner = ('bin', 'neg', ('lit', 0), inner)
                self.labels.add('unary_minus')
                return ('bin', 'neg', ('lit', 0), inner)
            return ('bin', rng.choice(['+', '-', '*']),
                    self.expr('N', env, depth - 1, allow_fcall),
                    self.expr('N', env, depth - 1, allow_fcall))
        return ('bin', '++', self.expr('S', env, depth - 1, allow_fcall),
                self.expr('S', env, depth - 1, allow_fcall))

    def cmp(self, env, depth=1, allow_fcall=True):
        rng = self.rng
        t = rng.choice(('N', 'N', 'S'))
        a = self.expr(t, env, depth, allow_fcall)
        b = self.expr(t, env, depth, allow_fcall)
        op = rng.choice(['<', '<=', '<=', '>', '>=', '>=', '==', '!=', '!='])
        if op == '==':
            if a == b:
                op = '<='
                self.excl('same_text_equation')
            else:
                for x, y in ((a, b), (b, a)):
                    if self.o['avoid_d11'] and x[0] == 'var' and \
                            (expr_vars(y) - self.roots):
                        # D11 class: bare variable equated with an expression over
                        # variables that may be derived from it
                        op = '<='
                        self.excl('D11_var_eq_derived_expr')
                        break
        return ('cmp', op, a, b)

    def excl(self, why):
        self.excluded[why] = self.excluded.get(why, 0) + 1

    def boolexpr(self, env, depth=1):
        rng = self.rng
        r = rng.random()
        if depth > 0 and r < 0.15:
            return ('bin', rng.choice(['&&', '||']), self.boolexpr(env, depth - 1),
                    self.boolexpr(env, depth - 1))
        if depth > 0 and r < 0.22:
            return ('not', self.boolexpr(env, depth - 1))
        if r < 0.3:
            t = rng.choice(ATOMS)
            lst = ('list', tuple(self.expr(t, env, 0, False)
                                 for _ in range(rng.randint(1, 3))))
            self.labels.add('in_bool')
            return ('inx', self.expr(t, env, 1, False), lst)
        return self.cmp(env, depth, allow_fcall=False)

    def fcall(self, t, env, depth):
        rng = self.rng
        cands = [n for n in self.inj if self.inj_sig[n][0] == 'fun' and
                 self.inj_sig[n][2] == t]
        cands += [n for n in self.concrete if self.sig[n]['value'] == t]
        if not cands:
            return None
        n = rng.choice(cands)
        if n in self.inj:
            return self.inj_fcall(n, env, depth)
        fields = self.pick_fields(self.sig[n], atoms_only=True)
        self.labels.add('fcall')
        return ('fcall', n, tuple((f, self.expr(ft, env, depth - 1, False))
                                  for f, ft in fields))

    def inj_fcall(self, n, env, depth, nest=True, feed=None):
        """Call of the injectible function n; with p_fcall_nest an argument is itself a
        call of an injectible function (F(F(1)): nested injection)."""
        ptypes = self.inj_sig[n][1]
        self.labels.add('inj_fun_call')
        args = []
        for i, pt in enumerate(ptypes):
            a = None
            if nest and self.o['p_fcall_nest'] and self.chance(self.o['p_fcall_nest']):
                inner = [m for m in self.inj if self.inj_sig[m][0] == 'fun' and
                         self.inj_sig[m][2] == pt]
                if inner:
                    m = n if (n in inner and self.rng.random() < 0.5) else \
                        self.rng.choice(inner)
                    # one level only: every use of a parameter copies the argument's SQL,
                    # F(F(F(F(x)))) with 5 uses each is 625 copies of a correlated sub-query
                    a = self.inj_fcall(m, env, 1, nest=False, feed=feed)
                    self.labels.add('inj_fun_call_nested')
                    if m == n:
                        self.labels.add('inj_fun_call_nested_same')
            fv = [v for v, vt in (feed or ()) if vt == pt]
            if a is None and fv and self.chance(self.o['p_inj_feed']):
                a = ('var', self.rng.choice(fv))
                self.labels.add('inj_output_feeds_inj_input')
            if a is None:
                a = self.expr(pt, env, depth - 1, False)
            if self.o['inj_distinct_args'] and a[0] != 'lit' and a in [x for _, x in args]:
                a = self.lit_of(pt)
            args.append((i, a))
        return ('fcall', n, tuple(args))

    # ---- scopes of combines / negations / aggregating expressions
    def _open_scope(self, p_reuse):
        """Controlled reuse (i): with probability p_reuse the local names of earlier
        sibling scopes are free for the allocator while this scope is built."""
        saved_used = None
        if self.chance(p_reuse) and getattr(self, '_sib_locals', None):
            saved_used = set(self.used)
            self.used -= self._sib_locals
            self._reuse_pool = set(self._sib_locals)
            self.labels.add('sibling_name_reuse')
        return (saved_used, set(self.used))

    def _close_scope(self, tok, inner):
        saved_used, before = tok
        locals_ = set(self.used) - before
        if saved_used is not None:
            locals_ |= self._sib_locals & set(inner)
            self.used |= saved_used
            self._reuse_pool = None
        self._sib_locals = set(getattr(self, '_sib_locals', set())) | locals_
        return locals_

    def aggx(self, t, env, depth):
        """Aggregating EXPRESSION of type t: `Op{e :- body}` or, body-less, `Op{e}`."""
        rng = self.rng
        ops = self.o['aggx_ops'] or self.o['agg_ops']
        if t == 'N':
            # not `+`: its only spelling `(combine += e :- b)` is refused as a direct
            # argument of a call / head ("place it in auxiliary variable first")
            cand = [x for x in ops if x in ('Sum', 'Min', 'Max', 'Count', 'ArgMin',
                                            'ArgMax')]
        elif t == 'S':
            cand = [x for x in ops if x in ('Min', 'Max', 'ArgMin', 'ArgMax')]
        elif t in ('LN', 'LS'):
            cand = [x for x in ops if x in ('List', 'Set') or x in KVARIANTS]
        else:
            cand = []
        if not cand:
            return None
        op = rng.choice(cand)
        inner = dict(env)
        tok = None
        if self.chance(self.o['p_aggx_nobody']):
            b = ()
            self.labels.add('aggx_bodyless')
        else:
            tok = self._open_scope(self.o['p_sibling_reuse'])
            b = tuple(self.sub_body(inner, self.o['nest_depth'] - self._nest - 1))
            self.labels.add('aggx_with_body')
        self._nest += 1
        try:
            if op == 'Count':
                e = self.expr(rng.choice(ATOMS), inner, 1)
            elif op in ('ArgMin', 'ArgMax'):
                e = ('arrow', self.expr(t, inner, 1), self.expr('N', inner, 1))
            elif op in KVARIANTS:
                e = ('arrow', self.expr(t[1], inner, 1), self.expr('N', inner, 1))
                self.kvariants.add(op)
            elif op in ('List', 'Set'):
                e = self.expr(t[1], inner, 1)
            else:
                e = self.expr(t, inner, 1)
        finally:
            self._nest -= 1
        if tok is not None:
            self._close_scope(tok, inner)
        self.labels.add('aggx')
        self.labels.add('aggx_' + op)
        return ('aggx', op, e, b)

    def agg_nobody(self, env):
        """Body-less aggregating literal `v Op= e` (inline `y += x`), `v == Op{e}`."""
        rng = self.rng
        ops = [x for x in (self.o['aggx_ops'] or self.o['agg_ops'])
               if x in ('Sum', 'Min', 'Max', 'Count', '+', 'List', 'Set')]
        if not ops:
            return None
        op = rng.choice(ops)
        self._nest += 1
        try:
            if op == 'Count':
                e, t = self.expr(rng.choice(ATOMS), env, 1), 'N'
            elif op in ('Sum', '+'):
                e, t = self.expr('N', env, 1), 'N'
            elif op in ('List', 'Set'):
                et = rng.choice(ATOMS)
                e, t = self.expr(et, env, 1), 'L' + et
            else:
                t = rng.choice(ATOMS)
                e = self.expr(t, env, 1)
        finally:
            self._nest -= 1
        v = self.newvar(env, t)
        self.labels.add('agg_literal_bodyless')
        return ('agg', v, op, e, (), rng.choice([1, 2]) if op == '+' else
                rng.choice([0, 1, 2, 3]))

    def pick_fields(self, s, atoms_only=False, min_one=False):
        """A legal subset of a signature's fields for a call: a prefix of the
        positional ones plus any subset of the named ones."""
        rng = self.rng
        fields = [(f, t) for f, t in s['fields'] if not atoms_only or t in ATOMS]
        pos = [x for x in s['fields'] if isinstance(x[0], int)]
        nam = [x for x in s['fields'] if not isinstance(x[0], int)]
        pos = pos[:rng.randint(0, len(pos))]
        if atoms_only:
            # positional prefix must stop before a composite column
            cut = []
            for x in pos:
                if x[1] not in ATOMS:
                    break
                cut.append(x)
            pos = cut
            nam = [x for x in nam if x[1] in ATOMS]
        nam = rng.sample(nam, rng.randint(0, len(nam)))
        res = pos + nam
        if min_one and not res:
            res = [s['fields'][0]] if (not atoms_only or s['fields'][0][1] in ATOMS) \
                else res
        return res

    # ------------------------------------------------------------------ injectibles
    def make_inj(self, name):
        rng = self.rng
        if self.o['p_inj_combine'] and self.chance(self.o['p_inj_combine']):
            return self.make_inj_combine(name)
        self._aggx_off += 1
        try:
            return self._make_inj_plain(name)
        finally:
            self._aggx_off -= 1

    def make_inj_combine(self, name):
        """Injectible whose body contains combines / negations: a function
        `F(x) = Sum{y :- E(x, y)}` or a relation `J(x, lo, hi) :- lo = Min{y :- E(x, y)},
        hi = Max{y :- E(y, x)}, ~E(x, x)` (sibling scopes re-using local names)."""
        rng = self.rng
        o = self.o
        self.used = set()
        self.roots = set()
        self._sib_locals = set()
        self._agg_results = []
        self._reused = set()
        saved = {k: o[k] for k in ('agg_ops', 'p_fcall', 'p_sibling_reuse',
                                   'p_sibling_reuse_neg', 'p_name_clash', 'p_reuse_pick')}
        o['agg_ops'] = tuple(x for x in o['agg_ops']
                             if x in ('Sum', 'Min', 'Max', 'Count', '+')) or ('Sum',)
        o['p_fcall'] = 0.0
        o['p_name_clash'] = 0.0
        o['p_sibling_reuse'] = max(o['p_sibling_reuse'], 0.7)
        o['p_sibling_reuse_neg'] = max(o['p_sibling_reuse_neg'], 0.7)
        o['p_reuse_pick'] = max(o['p_reuse_pick'], 0.7)
        self._aggx_off += 1
        try:
            k_in = rng.randint(1, 2)
            in_names = rng.sample(VARNAMES, k_in)
            in_types = [rng.choice(ATOMS) for _ in range(k_in)]
            env = dict(zip(in_names, in_types))
            self.used |= set(in_names)
            self.roots |= set(in_names)
            keyed = rng.random() < 0.75     # `Op{y :- E(x, y)}`: result depends on the input
            if rng.random() < 0.5:
                lit = (keyed and self.keyed_combine(
                    env, rng.choice(in_names),
                    in_types[0] if rng.random() < 0.7 else None)) or self.combine(env, 1)
                t = env.pop(lit[1])
                body = ('aggx', lit[2], lit[3], lit[4])
                if t == 'N' and rng.random() < 0.3:
                    penv = dict(zip(in_names, in_types))
                    body = ('bin', rng.choice(['+', '-']), body,
                            self.expr('N', penv, 1, False))
                self.inj[name] = ('fun', tuple(in_names), body)
                self.inj_sig[name] = ('fun', in_types, t)
                self.labels.add('inj_fun_with_combine')
            else:
                kinds = rng.choice((('agg',), ('agg', 'agg'), ('agg', 'agg'), ('neg', 'neg'),
                                    ('agg', 'neg'), ('neg',), ('agg', 'neg', 'agg')))
                body, outs = [], []
                for kind in kinds:
                    if kind == 'agg':
                        lit = (keyed and self.keyed_combine(env, rng.choice(in_names))) or \
                            self.combine(env, 1)
                        body.append(lit)
                        outs.append((lit[1], env[lit[1]]))
                    else:
                        body.append((keyed and self.keyed_negation(
                            env, rng.choice(in_names))) or self.negation(env, 1))
                if not outs and rng.random() < 0.5:
                    t = rng.choice(ATOMS)
                    e = self.expr(t, dict(zip(in_names, in_types)), 1, False)
                    v = self.newvar(env, t)
                    body.append(('assign', v, e))
                    outs.append((v, t))
                if rng.random() < 0.3:
                    body.append(self.cmp(env, 1, allow_fcall=False))
                rng.shuffle(body)
                params = list(in_names) + [v for v, t in outs]
                self.inj[name] = ('rel', tuple(params), tuple(body))
                self.inj_sig[name] = ('rel', list(in_types) + [t for v, t in outs], k_in)
                self.labels.add('inj_rel_with_combine')
                if len(kinds) > 1:
                    self.labels.add('inj_rel_sibling_scopes')
        finally:
            self._aggx_off -= 1
            o.update(saved)
        self.inj_hot = getattr(self, 'inj_hot', []) + [name]
        for v in sorted(self._reused):
            if v not in self.hot_names:
                self.hot_names.append(v)
        for v in sorted(self.used - self._reused):
            if v not in self.warm_names:
                self.warm_names.append(v)

    def keyed_call(self, inner, key, want_t=None):
        """A call joining one column of a concrete predicate with the bound variable `key`
        and binding another column to a fresh local.  -> (literal, (local, type)) | None"""
        rng = self.rng
        kt = inner[key]
        cands = []
        for n in self.concrete:
            fields = self.sig[n]['fields']
            for i, (fn, ft) in enumerate(fields):
                if ft != kt:
                    continue
                for j, (gn, gt) in enumerate(fields):
                    if j != i and gt in ATOMS and (want_t is None or gt == want_t):
                        cands.append((n, i, j))
        if not cands:
            return None
        dense = [c for c in cands if c[0] in getattr(self, 'graphs', ())]
        if dense and rng.random() < 0.85:
            cands = dense
        n, i, j = rng.choice(cands)
        fields = self.sig[n]['fields']
        maxpos = max([k for k in (i, j) if isinstance(fields[k][0], int)] + [-1])
        args, yv = [], None
        for k, (fn, ft) in enumerate(fields):
            if k == i:
                args.append((fn, ('var', key)))
            elif k == j:
                yv = (self.newvar(inner, ft), ft)
                args.append((fn, ('var', yv[0])))
            elif isinstance(fn, int) and k < maxpos:
                args.append((fn, ('var', self.newvar(inner, ft))))
        return ('call', n, tuple(args), ()), yv

    def keyed_combine(self, env, key, out_t=None):
        """`v Op= (y :- E(key, y))` -> ('agg', v, op, e, body, form) | None"""
        rng = self.rng
        inner = dict(env)
        tok = self._open_scope(self.o['p_sibling_reuse'])
        r = self.keyed_call(inner, key, out_t) or (out_t and self.keyed_call(inner, key))
        if not r:
            self._close_scope(tok, inner)
            return None
        lit, (y, yt) = r
        body = [lit]
        if rng.random() < 0.25:
            body.append(('cmp', rng.choice(['<', '<=', '>', '>=', '!=']), ('var', y),
                         self.lit_of(yt)))
        if self.o['nest_depth'] >= 2 and self._nest == 0 and rng.random() < 0.3:
            # a scope nested in this one and correlated with ITS local: `~T(y, z)`
            self._nest += 1
            try:
                nested = self.keyed_negation(inner, y)
            finally:
                self._nest -= 1
            if nested:
                body.append(nested)
                self.labels.add('nested_scope_reads_enclosing_local')
        ops = [x for x in self.o['agg_ops'] if x in (
            ('Sum', 'Min', 'Max', '+', 'Min', 'Max') if yt == 'N' else ('Min', 'Max'))]
        op = rng.choice(ops or ['Max'])
        self._close_scope(tok, inner)
        v = self.newvar(env, yt)
        self._agg_results = getattr(self, '_agg_results', []) + [v]
        self.labels.add('combine')
        self.labels.add('combine_' + op)
        self.labels.add('keyed_combine')
        return ('agg', v, op, ('var', y), tuple(body),
                rng.choice([1, 2]) if op == '+' else rng.choice([0, 1, 2, 3]))

    def keyed_negation(self, env, key):
        """`~E(key, y)` with y local -> ('neg', body, 0) | None"""
        inner = dict(env)
        tok = self._open_scope(self.o['p_sibling_reuse_neg'])
        r = self.keyed_call(inner, key)
        self._close_scope(tok, inner)
        if not r:
            return None
        self.labels.add('negation')
        self.labels.add('keyed_negation')
        return ('neg', (r[0],), 0)

    def _make_inj_plain(self, name):
        rng = self.rng
        if self.chance(self.o['p_rel_inj']):
            # relational: inputs..., outputs computed from inputs, optional filter
            k_in = rng.randint(1, 2)
            k_out = rng.randint(1, 2)
            names = rng.sample(VARNAMES, k_in + k_out + 1)
            ptypes = [rng.choice(ATOMS) for _ in range(k_in + k_out)]
            env = dict(zip(names[:k_in], ptypes[:k_in]))
            saved, self.roots = self.roots, set(names)
            body = []
            for i in range(k_in, k_in + k_out):
                e = self.expr(ptypes[i], env, 2, allow_fcall=False)
                body.append(('assign', names[i], e))
                env[names[i]] = ptypes[i]
            if rng.random() < 0.4:
                # a local variable of the callee (capture hazard on injection)
                lt = rng.choice(ATOMS)
                lv = names[-1]
                body.append(('assign', lv, self.expr(lt, env, 1, allow_fcall=False)))
                env[lv] = lt
                self.labels.add('inj_local')
            if rng.random() < 0.5:
                body.append(self.cmp(env, 1, allow_fcall=False))
            self.roots = saved
            rng.shuffle(body)
            self.inj[name] = ('rel', tuple(names[:k_in + k_out]), tuple(body))
            self.inj_sig[name] = ('rel', ptypes, k_in)
        else:
            k = rng.randint(1, 2)
            ptypes = [rng.choice(ATOMS) for _ in range(k)]
            t = rng.choice(ATOMS)
            names = rng.sample(VARNAMES, k)
            env = dict(zip(names, ptypes))
            saved, self.roots = self.roots, set(names)
            body = self.expr(t, env, 2, allow_fcall=False)
            self.roots = saved
            self.inj[name] = ('fun', tuple(names), body)
            self.inj_sig[name] = ('fun', ptypes, t)

    # ------------------------------------------------------------------ literals
    def call(self, env, name=None, fresh_only=False):
        rng = self.rng
        if name is None and self.o['p_call_idb'] and self.chance(self.o['p_call_idb']):
            idbs = [n for n in self.concrete if n.startswith('I')]
            if idbs:
                name = rng.choice(idbs[-3:])
                self.labels.add('call_prefers_idb')
        name = name or rng.choice(self.concrete)
        s = self.sig[name]
        fields = self.pick_fields(s, min_one=True)
        args = []
        opts = []
        short = self.chance(self.o['p_short'])
        for f, t in fields:
            r = rng.random()
            bound = self.bound(env, t)
            if t not in ATOMS or r < 0.5 or fresh_only:
                v = self.newvar(env, t, prefer=(f if short and isinstance(f, str)
                                                else None))
                self.roots.add(v)
                args.append((f, ('var', v)))
            elif r < 0.8 and bound:
                args.append((f, ('var', rng.choice(bound))))
                self.labels.add('join')
            elif r < 0.93:
                pool = [x for x in self.colvals.get((name, f), ())
                        if x != ('lit', None)]   # `P(f: null)` vs a null fact is a
                #                                   same-text equation (DESIGN 6)
                args.append((f, rng.choice(pool) if pool and rng.random() < 0.85
                             else self.lit_of(t)))
            else:
                args.append((f, self.expr(t, dict(env), 1)))
        if s['value'] and rng.random() < 0.5:
            v = self.newvar(env, s['value'])
            self.roots.add(v)
            args.append(('logica_value', ('var', v)))
            if rng.random() < 0.4:
                opts.append('valueeq')
        if short:
            opts.append('short')
        if self.chance(self.o['p_colnames']):
            opts.append('colnames')
        if any(isinstance(f, str) for f, _ in args):
            self.labels.add('named_args')
        return ('call', name, tuple(args), tuple(opts))

    def inj_call(self, env, name=None, feed=None):
        rng = self.rng
        rels = [n for n in self.inj if self.inj_sig[n][0] == 'rel']
        if not rels:
            return None
        n = name or rng.choice(rels)
        _, ptypes, k_in = self.inj_sig[n]
        args = []
        for i, pt in enumerate(ptypes):
            if i < k_in:
                fv = [v for v, vt in (feed or ()) if vt == pt]
                if fv and self.chance(self.o['p_inj_feed']):
                    args.append((i, ('var', rng.choice(fv))))
                    self.labels.add('inj_output_feeds_inj_input')
                else:
                    args.append((i, self.expr(pt, dict(env), 1, allow_fcall=False)))
                if self.o['inj_distinct_args'] and args[-1][1][0] != 'lit' and \
                        args[-1][1] in [a for _, a in args[:-1]]:
                    args[-1] = (i, self.lit_of(pt))
            elif n in getattr(self, 'inj_hot', ()) or self.o['inj_distinct_args']:
                # output computed by a combine: always a fresh variable (unified with a
                # bound one it would be the D11 class: a variable equated with an
                # aggregate that may be derived from it)
                args.append((i, ('var', self.newvar(env, pt))))
            else:
                if rng.random() < 0.75 or not self.bound(env, pt):
                    args.append((i, ('var', self.newvar(env, pt))))
                else:
                    args.append((i, ('var', rng.choice(self.bound(env, pt)))))
        self.labels.add('inj_rel_call')
        return ('call', n, tuple(args), ())

    def binding_literal(self, env, depth):
        rng = self.rng
        r = rng.random()
        if r < 0.55 or not env:
            return self.call(env)
        if r < 0.7:
            t = rng.choice(ATOMS + (('LN', 'R') if rng.random() < 0.2 else ()))
            e = self.expr(t, dict(env), 2)
            v = self.newvar(env, t)
            self.labels.add('assign')
            return ('assign', v, e, rng.choice(['==', '==', '=']))
        if r < 0.85:
            t = rng.choice(ATOMS)
            lt = 'L' + t
            if self.bound(env, lt) and rng.random() < 0.5:
                lst = ('var', rng.choice(self.bound(env, lt)))
                self.labels.add('in_column_list')
            else:
                lst = ('list', tuple(self.expr(t, dict(env), 1)
                                     for _ in range(rng.randint(1, 3))))
            self.labels.add('in')
            if self.o['p_in_lit_left'] and self.chance(self.o['p_in_lit_left']):
                # a literal on the left: `"a" in [x, "a", y]` holds once per equal element
                lit = self.lit_of(t)
                elems = [lit if rng.random() < 0.5 else self.expr(t, dict(env), 0)
                         for _ in range(rng.randint(2, 3))]
                self.labels.add('in_literal_left')
                return ('in', lit, ('list', tuple(elems)))
            if rng.random() < 0.65:
                v = self.newvar(env, t)
                if lst[0] == 'var' or not (expr_vars(lst) if self.o['avoid_d11']
                                           else (expr_vars(lst) - self.roots)):
                    # (with avoid_d11: a variable drawn from a list over other
                    # variables is derived, so that `g in [.. v ..]` is never
                    # paired with `v in [.. g ..]` - the D11 class)
                    self.roots.add(v)
                return ('in', ('var', v), lst)
            b = self.bound(env, t)
            if self.o['avoid_d11'] and b:
                # (D11) the tested variable itself must be table-bound, not derived
                nb = [x for x in b if x in self.roots]
                if len(nb) < len(b):
                    self.excl('D11_in_on_derived_variable')
                b = nb
            if b:
                bv = rng.choice(b)
                e2 = {k: x for k, x in env.items() if k != bv}
                if self.o['avoid_d11']:
                    # open known finding C01 D11: `c in [.. t ..]` with t derived from the
                    # bound c is refused ("circular dependency of In calls") when c comes
                    # from an injected predicate's computed column: the list of a bound
                    # variable's `in` mentions table-bound variables only
                    if any(k not in self.roots for k in e2):
                        self.excl('D11_in_list_over_derived_variable')
                    e2 = {k: x for k, x in e2.items() if k in self.roots}
                if lst[0] == 'list':
                    lst = ('list', tuple(self.expr(t, e2, 1)
                                         for _ in range(rng.randint(1, 3))))
                return ('in', ('var', bv), lst)
            return ('in', self.lit_of(t), lst)
        if r < 0.93:
            ic = self.inj_call(env)
            if ic:
                return ic
        return self.call(env)

    def filter_literal(self, env, depth):
        rng = self.rng
        o = self.o
        r = rng.random()
        tot = 0.5 + o['p_neg'] + o['p_agg'] + o['p_prop'] + o['p_impl']
        r *= tot
        if o['p_impl'] and depth > 0 and r > tot - o['p_impl']:
            return self.implication(env, depth)
        if r < 0.5:
            c = self.cmp(env, 1)
            return ('cmp', c[1], c[2], c[3])
        r -= 0.5
        if r < o['p_prop']:
            self.labels.add('prop')
            be = self.boolexpr(env, 1)
            if be[0] == 'inx':
                # a parenthesised top-level `(x in l)` IS an inclusion literal
                if expr_vars(be[1]) & expr_vars(be[2]):
                    self.excl('in_list_mentions_lhs')
                    be = ('bin', '&&', be, ('cmp', '==', ('lit', 1), ('lit', 1)))
                else:
                    return ('in', be[1], be[2])
            return ('prop', be)
        r -= o['p_prop']
        if r < o['p_neg'] and depth > 0:
            return self.negation(env, depth)
        if depth > 0 and o['p_agg'] > 0:
            return self.combine(env, depth)
        c = self.cmp(env, 1)
        return ('cmp', c[1], c[2], c[3])

    def negation(self, env, depth):
        inner = dict(env)
        tok = None
        if self.o['p_sibling_reuse_neg']:
            tok = self._open_scope(self.o['p_sibling_reuse_neg'])
            if tok[0] is not None:
                self.labels.add('sibling_name_reuse_negation')
        b = self.sub_body(inner, depth - 1)
        if tok is not None:
            self._close_scope(tok, inner)
        self.labels.add('negation')
        if len(b) > 1:
            self.labels.add('negation_of_conjunction')
        return ('neg', tuple(b), 0)

    def implication(self, env, depth):
        """(A => B): for every solution of A (locals allowed) B holds."""
        rng = self.rng
        inner = dict(env)
        a = [self.call(inner)]
        if rng.random() < 0.3:
            c = self.cmp(inner, 1, allow_fcall=False)
            a.append(('cmp', c[1], c[2], c[3]))
        inner2 = dict(inner)
        if rng.random() < 0.5:
            b = [self.call(inner2)]
        else:
            c = self.cmp(inner2, 1, allow_fcall=False)
            b = [('cmp', c[1], c[2], c[3])]
        self.labels.add('implication')
        return ('impl', tuple(a), tuple(b), 0)

    def sub_body(self, inner_env, depth):
        """Body of a combine/negation: binders (may introduce locals, may join with
        outer variables), optional filters.  No disjunction inside."""
        rng = self.rng
        saved_or = self.o['p_or']
        lits = []
        self._nest += 1
        try:
            for _ in range(rng.randint(1, 2)):
                lits.append(self.call(inner_env))
            for _ in range(rng.randint(0, 1)):
                lits.append(self.filter_literal(inner_env, depth))
        finally:
            self._nest -= 1
        self.o['p_or'] = saved_or
        return lits

    def combine(self, env, depth):
        rng = self.rng
        inner = dict(env)
        saved_used = None
        if self.chance(self.o['p_sibling_reuse']) and getattr(self, '_sib_locals', None):
            # controlled reuse (i): sibling combines share local names.  Free those
            # names for the allocator while this combine is built.
            saved_used = set(self.used)
            self.used -= self._sib_locals
            self._reuse_pool = set(self._sib_locals)
            self.labels.add('sibling_name_reuse')
        before = set(self.used)
        b = self.sub_body(inner, depth - 1)
        prev = [x for x in getattr(self, '_agg_results', []) if env.get(x) == 'N']
        if prev and self.chance(self.o['p_feed_sibling']):
            # the value of an earlier combine is used inside this one
            b.append(('cmp', rng.choice(['<', '<=', '>', '>=', '!=']),
                      self.expr('N', inner, 1), ('var', rng.choice(prev))))
            self.labels.add('combine_uses_sibling_result')
            if saved_used is not None:
                self.labels.add('sibling_reuse_and_feed')
        op = rng.choice(self.o['agg_ops'])
        if op == 'Count':
            e = self.expr(rng.choice(ATOMS), inner, 1)
            t = 'N'
        elif op in ('Sum', '+'):
            e = self.expr('N', inner, 1)
            t = 'N'
        elif op in ('List', 'Set'):
            et = rng.choice(ATOMS)
            e = self.expr(et, inner, 1)
            t = 'L' + et
        elif op in ('ArgMin', 'ArgMax'):
            t = rng.choice(ATOMS)
            e = ('arrow', self.expr(t, inner, 1), self.expr('N', inner, 1))
        elif op in KVARIANTS:
            et = rng.choice(ATOMS)
            e = ('arrow', self.expr(et, inner, 1), self.expr('N', inner, 1))
            t = 'L' + et
            self.kvariants.add(op)
        else:
            t = rng.choice(ATOMS)
            e = self.expr(t, inner, 1)
        locals_ = (set(self.used) - before) | (self._sib_locals & set(inner)
                                               if saved_used is not None else set())
        if saved_used is not None:
            self.used |= saved_used
            self._reuse_pool = None
        self._sib_locals = set(getattr(self, '_sib_locals', set())) | locals_
        v = self.newvar(env, t)
        self._agg_results = getattr(self, '_agg_results', []) + [v]
        self.labels.add('combine')
        self.labels.add('combine_' + op)
        form = rng.choice([0, 1, 2, 3])
        if op == '+':
            form = rng.choice([1, 2])
        return ('agg', v, op, e, tuple(b), form)

    def body(self, env, depth=1, nlit=None):
        rng = self.rng
        lits = []
        n = nlit or rng.randint(1, 3)
        for _ in range(n):
            lits.append(self.binding_literal(env, depth))
        for _ in range(rng.choice((0, 0, 1, 1, 2))):
            lits.append(self.filter_literal(env, depth))
        if depth > 0 and self.chance(self.o['p_multi_combine']):
            # several sibling combines in one rule (shared local names, one reading
            # the result of another): the shape DisambiguateCombineVariables protects
            for _ in range(rng.randint(2, 3)):
                lits.append(self.combine(env, depth))
            self.labels.add('multi_combine_rule')
        if self.o['p_agg_nobody'] and env and self.chance(self.o['p_agg_nobody']):
            a = self.agg_nobody(env)
            if a:
                lits.append(a)
        if self.o['p_inj_extra'] and self.inj and self.chance(self.o['p_inj_extra']):
            lits.extend(self.extra_inj_calls(env))
        return lits

    def extra_inj_calls(self, env, feed0=()):
        """1-3 more calls of injectibles (preferably those containing combines): the same
        one twice, the output of one feeding the next, nested function calls."""
        rng = self.rng
        hot = [n for n in getattr(self, 'inj_hot', []) if n in self.inj]
        out = []
        n = None
        feed = list(feed0)   # (variable, type): outputs of the calls made so far
        for i in range(rng.choice((1, 2, 2, 3))):
            if n is None or rng.random() < 0.4:
                n = rng.choice(hot) if hot and rng.random() < 0.75 else \
                    rng.choice(sorted(self.inj))
            elif i:
                self.labels.add('inj_called_twice')
            if self.inj_sig[n][0] == 'rel':
                lit = self.inj_call(env, name=n, feed=feed)
                k_in = self.inj_sig[n][2]
                for (_, a), pt in list(zip(lit[2], self.inj_sig[n][1]))[k_in:]:
                    if a[0] == 'var':
                        feed.append((a[1], pt))
            else:
                fc = self.inj_fcall(n, dict(env), 2, feed=feed)
                v = self.newvar(env, self.inj_sig[n][2])
                lit = ('assign', v, fc, '==')
                feed.append((v, self.inj_sig[n][2]))
            out.append(lit)
        self.labels.add('inj_extra_calls')
        return out

    def disjunction(self, env):
        """A `( A | B )` group whose branches bind the same new variable."""
        rng = self.rng
        t = rng.choice(ATOMS)
        e0 = dict(env)
        v = self.newvar(env, t)
        br = []
        for _ in range(rng.randint(2, 3)):
            be = dict(e0)
            cands = [n for n in self.concrete
                     if any(ft == t for f, ft in self.sig[n]['fields'])]
            if cands and rng.random() < 0.5:
                # a call binding v in one of its fields, other fields fresh locals
                n = rng.choice(cands)
                s = self.sig[n]
                target = rng.choice([f for f, ft in s['fields'] if ft == t])
                fields = [x for x in s['fields']
                          if x[0] == target or isinstance(x[0], str) or
                          (isinstance(target, int) and isinstance(x[0], int)
                           and x[0] < target) or
                          (isinstance(target, str) and isinstance(x[0], int)
                           and rng.random() < 0.5 and False)]
                args = []
                for f, ft in fields:
                    if f == target:
                        args.append((f, ('var', v)))
                    elif isinstance(f, int) or rng.random() < 0.5:
                        args.append((f, ('var', self.newvar(be, ft))))
                lits = [('call', n, tuple(args), ())]
                be[v] = t
            else:
                lits = [('assign', v, self.expr(t, e0, 1), '==')]
                be[v] = t
            if rng.random() < 0.4:
                c = self.cmp(be, 1)
                lits.append(('cmp', c[1], c[2], c[3]))
            br.append(tuple(lits))
        self.labels.add('disjunction')
        return ('or', tuple(br))

    # ------------------------------------------------------------------ IDB
    def idb(self, name):
        rng = self.rng
        o = self.o
        s = self.new_sig(allow_composite=True)
        fields = [f for f, t in s['fields']]
        types = [t for f, t in s['fields']]
        vt = s['value']
        distinct = self.chance(o['p_distinct'])
        nrules = 2 if self.chance(o['p_two_rules']) else 1
        aggs = {}
        if distinct:
            for i, (f, t) in enumerate(list(zip(fields, types))):
                if i == 0 or not isinstance(f, str) or rng.random() >= 0.7:
                    continue
                if t not in ATOMS:
                    t = types[i] = rng.choice(ATOMS)
                op = rng.choice(o['pred_agg_ops_n'] if t == 'N' else o['pred_agg_ops_s'])
                aggs[f] = op
                if op in ('List', 'Set') or op in KVARIANTS:
                    types[i] = 'L' + t
            if vt and rng.random() < 0.6:
                op = rng.choice(o['pred_agg_ops_n'] if vt == 'N' else o['pred_agg_ops_s'])
                if op in ('List', 'Set') or op in KVARIANTS:
                    op = 'Max'
                aggs['logica_value'] = op
            # grouping only on atoms
            for i, (f, t) in enumerate(zip(fields, types)):
                if t not in ATOMS and f not in aggs:
                    types[i] = 'N'
            s = {'fields': tuple(zip(fields, types)), 'value': vt}
        rules = []
        for _ in range(nrules):
            env = {}
            self.used = set()
            self.roots = set()
            self._sib_locals = set()
            self._agg_results = []
            self._reused = set()
            body = self.body(env, o['nest_depth'])
            if self.chance(o['p_or']):
                body.append(self.disjunction(env))
            if o['p_unnest_chain'] and self.chance(o['p_unnest_chain']):
                # x in [..], l == List{z :- z in [x, x + k]}, y in l : an unnesting that
                # depends on another one through an aggregating expression
                xv = self.newvar(env, 'N')
                zv = self.newvar(dict(env), 'N')        # local to the combine
                inner = ('in', ('var', zv), ('list', (('var', xv), ('bin', '+', ('var', xv),
                                                                  self.lit_of('N')))))
                lv_ = self.newvar(env, 'LN')
                yv = self.newvar(env, 'N')
                self.used |= {xv, zv, lv_, yv}
                chain = [('in', ('var', xv), ('list', tuple(self.lit_of('N') for _ in
                                                            range(rng.randint(1, 3))))),
                         ('agg', lv_, rng.choice(['List', 'Set']), ('var', zv), (inner,),
                          rng.choice([0, 1, 2, 3])),
                         ('in', ('var', yv), ('var', lv_))]
                self.roots |= {xv}
                body.extend(chain)
                self.labels.add('unnest_chain')
            recv = None
            if o['p_recif'] and env and self.chance(o['p_recif']):
                # v == (if c then {a:.., b:..} else {a:.., b:..}), then v.a / v.b read in a
                # comparison and in the head: several subscripts of one conditional record
                def reclit():
                    return ('rec', (('a', self.expr('N', env, 1, False)),
                                    ('b', self.expr('S', env, 1, False))))
                cond = self.boolexpr(env, 1)
                alts = [reclit(), reclit()]
                if self.chance(0.3):
                    alts.append(reclit())
                e = alts[-1]
                for alt in reversed(alts[:-1]):
                    e = ('if', cond, alt, e)
                    cond = self.boolexpr(env, 1)
                recv = self.newvar(env, 'R')
                body.append(('assign', recv, e, '=='))
                if self.chance(0.6):
                    body.append(('cmp', rng.choice(['<=', '>=', '!=']),
                                 ('field', ('var', recv), 'a'), self.lit_of('N')))
                self.labels.add('record_if_read_twice')
            head = []
            for f, t in zip(fields, types):
                if recv is not None and f not in aggs and t in ('N', 'S') and \
                        self.chance(0.7):
                    head.append((f, ('field', ('var', recv), 'a' if t == 'N' else 'b')))
                    continue
                if f in aggs:
                    head.append((f, ('AGG', aggs[f], self.agg_head_expr(aggs[f], t, env))))
                else:
                    head.append((f, self.expr(t, env, 2)))
            val = None
            if vt:
                if 'logica_value' in aggs:
                    op = aggs['logica_value']
                    val = ('AGG', op, self.agg_head_expr(op, vt, env))
                else:
                    val = self.expr(vt, env, 2)
            if self.chance(o['p_shuffle']):
                rng.shuffle(body)
            opts = []
            if self.chance(o['p_colnames']):
                opts.append('colnames')
            if self.chance(o['p_short']):
                opts.append('short')
            if distinct and nrules > 1 and not o.get('allow_mba_head_perm'):
                # finding C02 mba_named_head_order (fixed in /repo by 288b00f): multi-body
                # aggregation refused bodies listing named head arguments in another order
                if o['p_head_perm'] and len(head) >= 2 and self.chance(o['p_head_perm']):
                    self.excl('mba_named_head_order_not_modelled_by_reference')
            else:
                head = self.maybe_permute_head(head, opts)
            rules.append(mk_rule(name, head, body, value=val, distinct=distinct,
                                 opts=opts))
            if o['p_name_clash'] and nrules == 1 and not distinct:
                # this predicate may get injected: local names shared by its sibling
                # scopes are capture hazards for its callers
                for v in sorted(self._reused):
                    if v not in self.hot_names:
                        self.hot_names.append(v)
        if distinct:
            self.labels.add('distinct')
            if aggs:
                self.labels.add('pred_aggregation')
            if nrules > 1 and aggs:
                self.labels.add('multi_body_aggregation')
        if nrules > 1:
            self.labels.add('multi_rule')
        self.rules.extend(rules)
        self.sig[name] = s
        self.concrete.append(name)

    def idb_hazard(self, name):
        """A small predicate built around injection (the shapes of C08):
          calls   I(x, a, b) :- E(x), a == F(x), b == F(a), J(b, lo, hi)   1-3 calls of
                  injectibles, chained / nested, optionally reading an earlier such predicate
                  (which is itself injected unless annotated);
          stats   I(k, lo, hi) :- E(k), lo = Min{y :- T(k, y)}, hi = Max{y :- T(y, k)}, ~T(k, y)
                  sibling scopes sharing a local name, single rule: injectable into callers.
        Variables of the caller take names of the callees' locals (p_name_clash)."""
        rng = self.rng
        o = self.o
        self.used = set()
        self.roots = set()
        self._sib_locals = set()
        self._agg_results = []
        self._reused = set()
        saved = {k: o[k] for k in ('p_inj_feed', 'p_name_clash', 'p_short', 'p_reuse_pick',
                                   'p_sibling_reuse', 'p_sibling_reuse_neg', 'p_fcall')}
        o['p_inj_feed'] = max(o['p_inj_feed'], 0.8)
        o['p_name_clash'] = max(o['p_name_clash'], 0.7)
        o['p_reuse_pick'] = max(o['p_reuse_pick'], 0.7)
        o['p_sibling_reuse'] = max(o['p_sibling_reuse'], 0.8)
        o['p_sibling_reuse_neg'] = max(o['p_sibling_reuse_neg'], 0.8)
        o['p_short'] = 0.0
        o['p_fcall'] = 0.0
        self._aggx_off += 1
        try:
            env = {}
            first = [n for n in self.concrete if n.startswith('E')]
            if getattr(self, 'graphs', None) and rng.random() < 0.85:
                first = self.graphs
            body = [self.call(env, name=rng.choice(first), fresh_only=True)]
            keys = [(v, t) for v, t in env.items() if t in ATOMS]
            if keys and rng.random() < 0.3:
                # one more key drawn from a list (an unnesting travels with the injection)
                kv, kt = rng.choice(keys)
                pool = [x for x in self.colvals.get((body[0][1], body[0][2][0][0]), ())
                        if x != ('lit', None)] or [self.lit_of(kt)]
                els = [self.lit_of(kt) if rng.random() < 0.3 else rng.choice(
                    [x for k2, xs in self.colvals.items() for x in xs
                     if x != ('lit', None) and isinstance(x[1], str) == (kt == 'S')
                     and not isinstance(x[1], (list, dict))] or pool)
                    for _ in range(rng.randint(2, 3))]
                v = self.newvar(env, kt)
                body.append(('in', ('var', v), ('list', tuple(els))))
                keys.append((v, kt))
                self.labels.add('hazard_rule_in_list')
            prev = [n for n in getattr(self, 'hazard_preds', []) if n in self.concrete]
            if prev and rng.random() < 0.5:
                before = set(env)
                body.append(self.call(env, name=rng.choice(prev), fresh_only=True))
                keys += [(v, t) for v, t in env.items() if v not in before and t in ATOMS]
                self.labels.add('hazard_reads_hazard_predicate')
            outs = []
            stats = rng.random() < 0.3 or not self.inj
            if stats and keys:
                for kind in rng.choice((('agg', 'agg'), ('agg', 'agg'), ('neg', 'neg'),
                                        ('agg', 'neg'), ('agg', 'agg', 'neg'))):
                    key = rng.choice(keys)[0]
                    if kind == 'agg':
                        lit = self.keyed_combine(env, key)
                        if lit:
                            body.append(lit)
                            outs.append((lit[1], env[lit[1]]))
                    else:
                        lit = self.keyed_negation(env, key)
                        if lit:
                            body.append(lit)
                self.labels.add('hazard_rule_stats')
            elif self.inj:
                n_before = set(env)
                body.extend(self.extra_inj_calls(env, feed0=keys))
                outs = [(v, t) for v, t in env.items() if v not in n_before and t in ATOMS]
                self.labels.add('hazard_rule_calls')
            cols = (outs + keys)[:3] if rng.random() < 0.7 else (keys[:1] + outs)[:3]
            if not cols:
                cols = [(v, t) for v, t in env.items()][:1]
            head = [(i, ('var', v)) for i, (v, t) in enumerate(cols)]
            types = [t for v, t in cols]
            rng.shuffle(body)
        finally:
            self._aggx_off -= 1
            o.update(saved)
        self.rules.append(mk_rule(name, head, body))
        self.sig[name] = {'fields': tuple((i, t) for i, t in enumerate(types)), 'value': None}
        self.concrete.append(name)
        self.hazard_preds = getattr(self, 'hazard_preds', []) + [name]
        if o['p_name_clash']:
            for v in sorted(self._reused):
                if v not in self.hot_names:
                    self.hot_names.append(v)
        self.labels.add('hazard_rule')

    def maybe_permute_head(self, head, opts):
        """Named head arguments in another order denote the same row."""
        head = list(head)
        if not self.o['p_head_perm'] or len(head) < 2:
            return head
        if not all(isinstance(f, str) or 'colnames' in opts for f, v in head):
            return head
        if self.chance(self.o['p_head_perm']):
            self.rng.shuffle(head)
            self.labels.add('head_args_permuted')
        return head

    def agg_head_expr(self, op, t, env):
        if op == 'Count':
            return self.expr(self.rng.choice(ATOMS), env, 1)
        if op in ('List', 'Set'):
            return self.expr(t[1], env, 1)
        if op in ('ArgMin', 'ArgMax'):
            return ('arrow', self.expr(t, env, 1), self.expr('N', env, 1))
        if op in KVARIANTS:
            self.kvariants.add(op)
            return ('arrow', self.expr(t[1], env, 1), self.expr('N', env, 1))
        return self.expr(t, env, 2)

    # ------------------------------------------------------------------ program
    def program(self):
        rng = self.rng
        o = self.o
        for i in range(rng.randint(*o['n_edb'])):
            self.edb('E%d' % i)
        for i in range(rng.randint(*o['n_inj'])):
            self.make_inj('J%d' % i)
        for i in range(rng.randint(*o['n_idb'])):
            if o['p_hazard_rule'] and self.chance(o['p_hazard_rule']):
                self.idb_nonempty('I%d' % i, maker=self.idb_hazard)
            else:
                self.idb_nonempty('I%d' % i)
        return self.result()

    def idb_nonempty(self, name, maker=None):
        """Generate a predicate; if the reference evaluator finds it empty, draw it
        again (at most 3 times; an empty one is kept with probability 0.2)."""
        from lv import ref
        maker = maker or self.idb
        for attempt in range(4):
            n_rules = len(self.rules)
            snapshot = (dict(self.sig), list(self.concrete))
            maker(name)
            if attempt == 3 or self.chance(0.2):
                return
            try:
                ev = ref.Evaluator({'rules': self.rules, 'inj': self.inj}, budget=60000)
                if ev.rows(name):
                    return
            except Exception:
                return
            del self.rules[n_rules:]
            self.sig, self.concrete = snapshot
            self.excl('regenerated_empty_predicate')

    def result(self):
        ann = ['%s(x) = %sK(x, %s);' % (k, k[:-1], k[-1]) for k in sorted(self.kvariants)]
        if ann:
            self.labels.add('k_variant_aggregate')
        return {'rules': self.rules, 'inj': self.inj, 'ann': ann,
                'sig': {k: {'fields': [list(x) for x in v['fields']],
                            'value': v['value']} for k, v in self.sig.items()},
                'preds': list(self.concrete),
                'labels': sorted(self.labels), 'excluded': dict(self.excluded)}


def gen_program(rng, **opts):
    return Gen(rng, **opts).program()
