"""Workflow plans for C14: synthetic compile-shaped plans (fake execution objects),
the spec-level view of a list of executions, a counting/recording runner and the
invariant checker over the runner's log.

Everything the oracle knows comes from the *input* of
concertina_lib.ExecuteLogicaProgram (the execution objects: table_to_export_map,
dependency_edges, data_dependency_edges, iterations, main_predicate) and from the
calls the sql_runner receives; nothing is read from Concertina's internal state.
"""
import os
import shutil
import tempfile

from lv import core, drive

concertina_lib = drive.concertina_lib

NAME_POOL = [chr(c) for c in range(ord('A'), ord('Z') + 1)]
MAX_ACTIONS = 10


# ------------------------------------------------------------------ fake executions

class FakeExec(object):
    """Exactly the attributes ExecuteLogicaProgram reads from an execution."""

    def __init__(self, main, t2e, dep, ddep, iters, preamble='', prefix=''):
        self.main_predicate = main
        self.table_to_export_map = t2e          # dict name -> sql (insertion ordered)
        self.dependency_edges = dep             # list of (source, target)
        self.data_dependency_edges = ddep       # list of (source, target)
        self.iterations = iters                 # dict name -> {...}
        self.preamble = preamble
        self._prefix = prefix

    def PredicateSpecificPreamble(self, predicate):
        return self._prefix


class CallBudget(Exception):
    pass


# ------------------------------------------------------------------ plan generator

def gen_plan(rng):
    """A random compile-shaped plan (JSON-able dict).  `rng` is a Hypothesis-backed
    random.Random (st.randoms(use_true_random=False))."""
    ngroups = rng.choice((0, 1, 1, 1, 1, 2, 2, 2))
    # chained: a later group reads members of an earlier one (two hand-written
    # @Iteration loops, the second consuming the first's result)
    chained = ngroups == 2 and rng.random() < 0.6
    shapes = []
    used = 0
    for _ in range(ngroups):
        if rng.random() < 0.6:
            k = rng.choice((1, 1, 2, 2, 3))
            while used + 2 * k > MAX_ACTIONS - 1 and k > 1:
                k -= 1
            if used + 2 * k > MAX_ACTIONS - 1:
                continue
            shapes.append(('flat', 2 * k))
            used += 2 * k
        else:
            size = rng.randint(1, 4)
            while used + size > MAX_ACTIONS - 1 and size > 1:
                size -= 1
            if used + size > MAX_ACTIONS - 1:
                continue
            shapes.append(('diamond', size))
            used += size
    nplain = rng.randint(1, MAX_ACTIONS - used)
    if chained and rng.random() < 0.5:
        nplain = min(nplain, rng.randint(1, 3))
    ndata = rng.choice((0, 0, 1, 1, 2))
    names = list(NAME_POOL)
    rng.shuffle(names)
    names = names[:used + nplain + ndata]
    data = names[used + nplain:]
    pool = names[:used + nplain]
    if chained and rng.random() < 0.5:
        # names in the order of the skeleton: the engine's lexicographic tie-break
        # then follows the drawn topological order
        pool.sort()
    # topological skeleton: plain slots and group segments in a drawn order; the last
    # slot is always a plain node (a possible sink / main predicate)
    items = ['p'] * (nplain - 1) + list(range(len(shapes)))
    rng.shuffle(items)
    if chained and len(shapes) == 2 and rng.random() < 0.5:
        # the two groups next to each other
        items = [x for x in items if x != 1]
        at = items.index(0) + 1
        items[at:at] = [1]
    items.append('p')
    nodes = []
    groups = []
    seg_of = {}
    it = iter(pool)
    for x in items:
        if x == 'p':
            nodes.append(next(it))
        else:
            kind, size = shapes[x]
            members = [next(it) for _ in range(size)]
            for m in members:
                seg_of[m] = len(groups)
            nodes.extend(members)
            groups.append({'name': 'It%d' % len(groups), 'members': members,
                           'R': rng.randint(1, 4),
                           'mode': 'diamond' if kind == 'diamond' else None,
                           'stop': rng.random() < 0.5})
    data_kind = {d: rng.choice(('data', 'dep')) for d in data}
    edges = []
    p_edge = rng.choice((0.2, 0.35, 0.5))
    pos = {n: i for i, n in enumerate(nodes)}
    for b in nodes:
        if b in seg_of:
            continue
        for a in nodes[:pos[b]]:
            p = p_edge
            if a in seg_of:
                p = 0.45
            if rng.random() < p:
                edges.append([a, b])
        for d in data:
            if rng.random() < 0.2:
                edges.append([d, b])
    for g in groups:
        ms = g['members']
        first = pos[ms[0]]
        outside = [n for n in nodes[:first] if n not in seg_of] + data
        earlier = [n for n in nodes[:first] if n in seg_of]
        if chained and earlier:
            # results of an earlier loop: usually its last member
            src = [earlier[-1]] if rng.random() < 0.6 else \
                rng.sample(earlier, rng.randint(1, min(2, len(earlier))))
            outside = outside + src
            forced = src[0]
        else:
            forced = None
        if g['mode'] == 'diamond':
            for i, m in enumerate(ms):
                for a in outside:
                    if rng.random() < 0.35:
                        edges.append([a, m])
                for a in ms[:i]:
                    if rng.random() < 0.3:
                        edges.append([a, m])
            if forced is not None and not any(e[0] == forced and e[1] in ms
                                              for e in edges):
                edges.append([forced, ms[rng.randrange(len(ms))]])
        else:
            k = len(ms) // 2
            upper, lower = ms[:k], ms[k:]
            ext_u = []
            for u in upper:
                for a in outside:
                    if rng.random() < 0.4:
                        edges.append([a, u])
                        if a not in ext_u:
                            ext_u.append(a)
            if forced is not None and forced not in ext_u:
                edges.append([forced, upper[rng.randrange(len(upper))]])
                ext_u.append(forced)
            for i, l in enumerate(lower):
                for a in ext_u:
                    if rng.random() < 0.4:
                        edges.append([a, l])
                req = [u for j, u in enumerate(upper)
                       if rng.random() < (0.8 if j == i else 0.4)]
                if not req:
                    req = [upper[i]]
                for u in req:
                    edges.append([u, l])
    # optionally tie every sink to the last plain node, so that one request pulls
    # in the whole graph
    last = nodes[-1]
    if rng.random() < 0.7:
        have_out = {a for a, b in edges}
        for n in nodes[:-1]:
            if n not in have_out:
                edges.append([n, last])
    plain = [n for n in nodes if n not in seg_of]
    nfinal = rng.choice((1, 1, 2, 2, 3))
    finals = []
    if rng.random() < 0.85:
        finals.append(last)
    cands = [n for n in plain if n not in finals]
    rng.shuffle(cands)
    finals.extend(cands[:max(0, nfinal - len(finals))])
    if not finals:
        finals = [last]
    rng.shuffle(finals)
    plan = {'nodes': nodes, 'data': data, 'data_kind': data_kind, 'edges': edges,
            'groups': groups, 'finals': finals,
            'prefix': rng.random() < 0.3, 'preamble': rng.random() < 0.5,
            'stop': None}
    stoppable = [i for i, g in enumerate(groups) if g['stop']]
    if stoppable and rng.random() < 0.85:
        total = expected_full_calls(spec_from_execs(build_execs(plan, None)))
        r = rng.random()
        if r < 0.1 or total == 0:
            at = -1
        else:
            at = rng.randint(0, total - 1)
        targets = [i for i in stoppable if rng.random() < 0.8] or [stoppable[0]]
        plan['stop'] = {'at': at, 'groups': targets,
                        'content': '' if rng.random() < 0.15 else 'stop'}
    return plan


def validate(plan):
    """None if the plan is inside the generated (compile-shaped) domain, else why not."""
    nodes, data = plan['nodes'], plan['data']
    if len(set(nodes) | set(data)) != len(nodes) + len(data):
        return 'duplicate names'
    if not nodes or len(nodes) > MAX_ACTIONS:
        return 'size'
    pos = {n: i for i, n in enumerate(nodes)}
    member_of = {}
    for gi, g in enumerate(plan['groups']):
        if not g['members'] or not 1 <= g['R'] <= 4:
            return 'group size / repetitions'
        for m in g['members']:
            if m in member_of or m not in pos:
                return 'group membership'
            member_of[m] = gi
        ps = [pos[m] for m in g['members']]
        if ps != list(range(ps[0], ps[0] + len(ps))):
            return 'group not contiguous in declared order'
        if g['mode'] not in (None, 'diamond'):
            return 'mode'
        if g['mode'] is None and len(g['members']) % 2:
            return 'flat group of odd size'
    req = {n: [] for n in nodes}
    for a, b in plan['edges']:
        if b not in pos or (a not in pos and a not in data):
            return 'edge endpoint'
        if a in pos and pos[a] >= pos[b]:
            return 'edge not forward'
        req[b].append(a)
    for gi, g in enumerate(plan['groups']):
        ms = g['members']
        inside = set(ms)
        # a member may read members of ANOTHER group that lies wholly before this one
        # (edges are forward and groups contiguous, so this holds for every edge
        # accepted above): two hand-written @Iteration loops, the second consuming
        # the first's result
        if g['mode'] is None:
            k = len(ms) // 2
            upper, lower = ms[:k], ms[k:]
            ext_u = set()
            for u in upper:
                if set(req[u]) & inside:
                    return 'upper member requires a group member'
                ext_u |= set(req[u])
            for l in lower:
                r = set(req[l])
                if r & set(lower):
                    return 'lower member requires a lower member'
                if not r & set(upper):
                    return 'lower member requires no upper member'
                if not (r - inside) <= ext_u:
                    return 'lower external requirement not shared by the upper half'
    if not plan['finals'] or len(set(plan['finals'])) != len(plan['finals']):
        return 'finals'
    for f in plan['finals']:
        if f not in pos or f in member_of:
            return 'final is not a non-iterated action'
    s = plan.get('stop')
    if s is not None:
        if s['at'] < -1 or not s['groups']:
            return 'stop'
        for gi in s['groups']:
            if not (0 <= gi < len(plan['groups'])) or not plan['groups'][gi]['stop']:
                return 'stop target'
    return None


def closure(plan, g):
    """Actions of the execution of final g: its ancestors; a touched iteration group
    comes whole (as PerformIterationClosure does)."""
    pos = {n: i for i, n in enumerate(plan['nodes'])}
    req = {}
    for a, b in plan['edges']:
        req.setdefault(b, []).append(a)
    group_of = {}
    for gr in plan['groups']:
        for m in gr['members']:
            group_of[m] = gr
    seen = set()
    stack = [g]
    while stack:
        n = stack.pop()
        if n in seen or n not in pos:
            continue
        seen.add(n)
        stack.extend(req.get(n, []))
        if n in group_of:
            stack.extend(group_of[n]['members'])
    return [n for n in plan['nodes'] if n in seen]


def build_execs(plan, stop_paths):
    """One fake execution per final, shaped like universe.py's: the statement of the
    main predicate is a SELECT, every other one a CREATE; all iterations of the
    'program' are listed in every execution."""
    iters = {}
    for gi, g in enumerate(plan['groups']):
        sig = None
        if g['stop']:
            sig = stop_paths[gi] if stop_paths else '/nonexistent/lv_c14_stop_%d' % gi
        iters[g['name']] = {'predicates': list(g['members']), 'repetitions': g['R'],
                            'stop_signal': sig, 'mode': g['mode']}
    execs = []
    for f in plan['finals']:
        cl = closure(plan, f)
        inside = set(cl)
        t2e = {}
        for n in reversed(cl):          # universe.py records deepest-last
            t2e[n] = ('SELECT ' if n == f else 'CREATE ') + n
        dep, ddep = [], []
        for a, b in plan['edges']:
            if b not in inside:
                continue
            if a in inside:
                dep.append((a, b))
            elif a in plan['data']:
                (ddep if plan['data_kind'][a] == 'data' else dep).append((a, b))
        execs.append(FakeExec(
            f, t2e, dep, ddep, {k: dict(v) for k, v in iters.items()},
            preamble='PREAMBLE' if plan.get('preamble') else '',
            prefix=('/*%s*/' % f) if plan.get('prefix') else ''))
    return execs


# ------------------------------------------------------------------ spec of a run

class Spec(object):
    """What a list of executions asks the workflow engine to do.

    actions:  id -> set of admissible statement texts; id = (predicate, is_main):
              a requested predicate that is also an intermediate table of another
              requested predicate is two actions (the query and the table).
    requires: id -> set of ids that must be complete before it
    groups:   list of dicts(name, members=[ids], R, signal)
    finals:   predicate -> id, in request order
    """

    def __init__(self):
        self.actions = {}
        self.requires = {}
        self.groups = []
        self.finals = {}
        self.preambles = set()
        self.problems = []


def spec_from_execs(execs):
    sp = Spec()
    mains = [e.main_predicate for e in execs]
    if len(set(mains)) != len(mains):
        sp.problems.append('duplicate main predicate')
    for e in execs:
        if e.preamble:
            sp.preambles.add(e.preamble)
        prefix = e.PredicateSpecificPreamble(e.main_predicate)
        for k, sql in e.table_to_export_map.items():
            aid = (k, k == e.main_predicate)
            sp.actions.setdefault(aid, set()).add(prefix + sql)
            sp.requires.setdefault(aid, set())
        if e.main_predicate not in e.table_to_export_map:
            sp.problems.append('main predicate has no statement')
        sp.finals[e.main_predicate] = (e.main_predicate, True)
    for e in execs:
        for a, b in list(e.dependency_edges) + list(e.data_dependency_edges):
            if b in e.table_to_export_map and a in e.table_to_export_map:
                sp.requires[(b, b == e.main_predicate)].add((a, a == e.main_predicate))
    seen = {}
    for e in execs:
        for name, it in e.iterations.items():
            members = [(m, False) for m in it['predicates'] if (m, False) in sp.actions]
            key = (tuple(members), it['repetitions'], it.get('stop_signal'),
                   it.get('mode'))
            if name in seen:
                if seen[name] != key and members:
                    sp.problems.append('iteration %s differs between executions' % name)
                continue
            seen[name] = key
            if any(m in mains for m in it['predicates']):
                sp.problems.append('iteration member is requested')
            if members:
                sp.groups.append({'name': name, 'members': members,
                                  'R': it['repetitions'],
                                  'signal': it.get('stop_signal'),
                                  'mode': it.get('mode')})
    owner = {}
    for aid, sqls in sp.actions.items():
        for s in sqls:
            if s in owner and owner[s] != aid:
                sp.problems.append('two actions share one statement text')
            owner[s] = aid
        if sqls & sp.preambles:
            sp.problems.append('statement equals a preamble')
    sp.owner = owner
    return sp


def iterated(sp):
    m = {}
    for gi, g in enumerate(sp.groups):
        for x in g['members']:
            m[x] = gi
    return m


def expected_full_calls(sp):
    it = iterated(sp)
    return sum(sp.groups[it[a]]['R'] if a in it else 1 for a in sp.actions)


# ------------------------------------------------------------------ running

class Stop(object):
    """Raise the stop signal (write the file the engine polls) during the at-th
    statement call (0-based, preambles not counted); at == -1: before the run."""

    def __init__(self, at, paths, content):
        self.at, self.paths, self.content = at, list(paths), content

    def fire(self):
        for p in self.paths:
            with open(p, 'w') as f:
                f.write(self.content)


def run_execs(execs, sp, budget, stop=None, execute=None):
    """-> dict(calls=[(sql, is_final)], result=..., exc=None|exception, npre=int)
    `execute(sql, is_final)` produces the runner's return value (default: a fake
    one-row table for final statements, None otherwise, like SqlRunner)."""
    calls = []
    pre = []

    def runner(sql, engine, is_final):
        if sql in sp.preambles and not calls and sql not in sp.owner:
            pre.append(sql)
            if execute is not None:
                return execute(sql, is_final)
            return None
        idx = len(calls)
        calls.append((sql, bool(is_final)))
        if len(calls) > budget:
            raise CallBudget()
        if stop is not None and idx == stop.at:
            stop.fire()
        if execute is not None:
            return execute(sql, is_final)
        return (['c'], [[sql]]) if is_final else None
    out = {'calls': calls, 'result': None, 'exc': None, 'npre': pre}
    if stop is not None and stop.at == -1:
        stop.fire()
    try:
        with drive.quiet():
            out['result'] = concertina_lib.ExecuteLogicaProgram(
                execs, runner, 'sqlite', display_mode='silent')
    except CallBudget as e:
        out['exc'] = e
    except AssertionError as e:
        out['exc'] = e
    except Exception as e:
        out['exc'] = e
    return out


# ------------------------------------------------------------------ the oracle

def check_log(sp, calls, budget, exc=None, stop_at=None, signalled=()):
    """Invariants of the property over the runner's log.
    stop_at: index of the statement call during which the signal was raised (-1 =
    before the run), None if no (non-empty) signal was raised; signalled: the signal
    paths that were raised.  Returns list of (bucket, detail)."""
    out = []
    fmt = lambda a: a[0] + ('' if not a[1] else '(final)')
    if exc is not None:
        if isinstance(exc, CallBudget):
            out.append(('call_budget_exceeded',
                        'more than %d statement calls; last calls: %s' % (
                            budget, [c[0][:30] for c in calls[-8:]])))
        else:
            out.append(('exception:' + drive.exc_frame(exc),
                        '%s: %s' % (type(exc).__name__, str(exc)[:600])))
        return out
    ids = []
    for sql, is_final in calls:
        a = sp.owner.get(sql)
        if a is None:
            out.append(('unknown_statement', 'runner received a statement that no '
                        'execution declares: %r' % sql[:200]))
            return out
        ids.append(a)
    it = iterated(sp)
    positions = {}
    for i, a in enumerate(ids):
        positions.setdefault(a, []).append(i)
    seq = ' '.join(fmt(a) for a in ids)
    # each non-iterated statement exactly once
    for a in sp.actions:
        if a in it:
            continue
        n = len(positions.get(a, ()))
        if n == 0:
            out.append(('once:never_ran', '%s never ran; log: %s' % (fmt(a), seq)))
        elif n > 1:
            out.append(('once:repeated', '%s ran %d times; log: %s' % (fmt(a), n, seq)))
    # dependency order
    for a in sp.actions:
        if not positions.get(a):
            continue
        for q in sp.requires.get(a, ()):
            qp = positions.get(q)
            if a not in it:
                if not qp or qp[-1] > positions[a][0]:
                    out.append(('dep_order', '%s ran at %d but its input %s ran at %s; '
                                'log: %s' % (fmt(a), positions[a][0], fmt(q), qp, seq)))
            elif it.get(q) != it[a]:
                # an input outside the reader's own group must be complete: a plain
                # statement has run, ANOTHER iteration group has run its last
                # repetition (the reader consumes that group's result)
                if not qp or qp[0] > positions[a][0]:
                    out.append(('dep_order_iterated', 'iterated %s first ran at %d but '
                                'its outside input %s ran at %s; log: %s' % (
                                    fmt(a), positions[a][0], fmt(q), qp, seq)))
                elif qp[-1] > positions[a][0]:
                    out.append(('dep_order_iterated_input_group_incomplete',
                                'iterated %s first ran at %d while its input %s, member '
                                'of another iteration group, still had repetitions to '
                                'run (ran at %s); log: %s' % (
                                    fmt(a), positions[a][0], fmt(q), qp, seq)))
    # iteration groups
    for g in sp.groups:
        ms = g['members']
        sub = [(i, a) for i, a in enumerate(ids) if a in ms]
        subseq = [a for i, a in sub]
        full = ms * g['R']
        pretty = '%s x%d got %s' % ([fmt(m) for m in ms], g['R'],
                                    ' '.join(fmt(a) for a in subseq))
        stopped = stop_at is not None and g['signal'] in signalled
        if not stopped:
            if subseq != full:
                out.append(('iter_sequence', 'no stop signal: expected the declared '
                            'order repeated exactly R times; ' + pretty))
            continue
        if subseq != full[:len(subseq)]:
            out.append(('iter_sequence_stop', 'not a prefix of the round-robin; '
                        + pretty + '; signal at %d' % stop_at))
            continue
        if len(subseq) < len(ms):
            out.append(('iter_member_skipped', pretty))
        for m in ms:
            mp = [i for i, a in sub if a == m]
            after = [i for i in mp if i > stop_at]
            if len(after) > 1:
                out.append(('iter_after_stop', '%s ran %d times after the signal '
                            '(raised during call %d); %s' % (
                                fmt(m), len(after), stop_at, pretty)))
            if mp and len(mp) < g['R'] and mp[-1] < stop_at:
                out.append(('iter_stopped_early', '%s ran %d < %d times although the '
                            'signal was raised only during call %d; %s' % (
                                fmt(m), len(mp), g['R'], stop_at, pretty)))
    if len(calls) > expected_full_calls(sp):
        if not out:
            out.append(('too_many_calls', '%d calls > %d; log: %s' % (
                len(calls), expected_full_calls(sp), seq)))
    return out


def adjacent_dependent(sp, calls):
    """Label only: in the log, the first statement of a group that reads another group
    follows a statement of that other group immediately (no statement between them)."""
    it = iterated(sp)
    ids = [sp.owner.get(sql) for sql, _ in calls]
    first = {}
    for i, a in enumerate(ids):
        if a in it:
            first.setdefault(it[a], i)
    for a, rs in sp.requires.items():
        if a not in it:
            continue
        for q in rs:
            if q in it and it[q] != it[a]:
                i = first.get(it[a])
                if i and ids[i - 1] in it and it[ids[i - 1]] == it[q]:
                    return True
    return False


def check_result_keys(sp, result):
    out = []
    if result is None:
        return [('result_missing', 'no result')]
    if set(result) != set(sp.finals):
        out.append(('result_keys', 'requested %s, got results for %s' % (
            sorted(sp.finals), sorted(result))))
    return out


# ------------------------------------------------------------------ domain A case

def run_plan_case(plan):
    """Run one synthetic plan (multi-predicate run plus single runs);
    -> (failures, info)."""
    why = validate(plan)
    if why:
        return None, {'invalid': why}
    tmp = tempfile.mkdtemp(prefix='lv_c14_')
    try:
        paths = {gi: os.path.join(tmp, 'stop_%d' % gi)
                 for gi, g in enumerate(plan['groups']) if g['stop']}
        execs = build_execs(plan, paths)
        sp = spec_from_execs(execs)
        if sp.problems:
            return None, {'invalid': '; '.join(sp.problems)}
        full = expected_full_calls(sp)
        budget = 2 * full + 10
        stop = None
        s = plan.get('stop')
        if s is not None:
            stop = Stop(s['at'], [paths[gi] for gi in s['groups']], s['content'])
        r = run_execs(execs, sp, budget, stop)
        raised = (stop is not None and stop.content != '' and
                  (stop.at == -1 or stop.at < len(r['calls'])))
        fails = check_log(sp, [c for c in r['calls']], budget, r['exc'],
                          stop_at=(stop.at if raised else None),
                          signalled=(stop.paths if raised else ()))
        info = {'calls': len(r['calls']), 'full': full, 'raised': raised,
                'actions': len(sp.actions), 'groups': sp.groups,
                'spec': sp, 'short': len(r['calls']) < full,
                'adjacent_dependent': adjacent_dependent(sp, r['calls'])}
        if r['exc'] is None:
            fails += check_result_keys(sp, r['result'])
            # each requested predicate alone gives the same table
            if not fails:
                for e in execs:
                    for p in paths.values():
                        if os.path.exists(p):
                            os.remove(p)
                    e1 = build_execs(dict(plan, finals=[e.main_predicate]), paths)
                    sp1 = spec_from_execs(e1)
                    r1 = run_execs(e1, sp1, 2 * expected_full_calls(sp1) + 10, None)
                    f1 = check_log(sp1, r1['calls'], budget, r1['exc'])
                    if f1:
                        fails += [('single:' + b, d) for b, d in f1]
                        break
                    a = strip_prefix(r['result'].get(e.main_predicate))
                    b = strip_prefix(r1['result'].get(e.main_predicate)
                                     if r1['result'] else None)
                    if a != b or a is None:
                        fails.append(('result_differs', 'predicate %s: together %r, '
                                      'alone %r' % (e.main_predicate, a, b)))
        return fails, info
    finally:
        shutil.rmtree(tmp, ignore_errors=True)


def strip_prefix(table):
    """Fake tables carry the statement text; drop the per-execution prefix."""
    if table is None:
        return None
    hdr, rows = table
    return [hdr, [[str(v).split('*/')[-1] for v in r] for r in rows]]


def plan_labels(plan, info):
    sp = info['spec']
    ls = ['A']
    ls.append('A:groups=%d' % len(sp.groups))
    for g in sp.groups:
        ls.append('A:group_mode=' + (g['mode'] or 'flat'))
        ls.append('A:group_size=%d' % len(g['members']))
        ls.append('A:R=%d' % g['R'])
        if g['signal']:
            ls.append('A:group_has_signal')
    it = iterated(sp)
    cross = sorted({(it[q], it[a]) for a, rs in sp.requires.items() if a in it
                    for q in rs if q in it and it[q] != it[a]})
    if cross:
        ls.append('A:group_reads_other_group')
        if any(sp.groups[x]['R'] >= 2 for x, y in cross):
            ls.append('A:group_reads_other_group_R>=2')
        if info.get('adjacent_dependent'):
            ls.append('A:group_reads_other_group_adjacent_in_log')
    ls.append('A:finals=%d' % len(plan['finals']))
    if any(a[1] is False and a[0] in plan['finals'] for a in sp.actions):
        ls.append('A:final_and_intermediate')
    if plan['data']:
        ls.append('A:data_nodes')
    if plan.get('stop'):
        s = plan['stop']
        ls.append('A:stop=' + ('pre' if s['at'] == -1 else 'empty_file'
                               if s['content'] == '' else 'raised' if info['raised']
                               else 'after_end'))
        if info['raised'] and info['short']:
            ls.append('A:stop_cut_iteration')
    ls.append('A:actions=%s' % ('1-3' if info['actions'] <= 3 else '4-6'
                                if info['actions'] <= 6 else '7-10'))
    return ls


def plan_nontrivial(info):
    """>= 1 iteration group with R >= 2 and a dependency into or out of the group."""
    sp = info['spec']
    for g in sp.groups:
        if g['R'] < 2:
            continue
        ms = set(g['members'])
        for a, rs in sp.requires.items():
            if a in ms and rs - ms:
                return True
            if a not in ms and rs & ms:
                return True
    return False
