"""Reference evaluator: an independent nested-loop interpreter over lv.model ASTs.

Shares no code with the compiler and never sees SQL.  Semantics written from
docs/learn/logica.md (multiset semantics, aggregation, negation as aggregation,
functional notation = extra conjunct, injectible predicates = substitution).
"""
import collections
import itertools
import json
import re

from lv.model import (expr_vars, body_vars, own_vars, head_exprs, lit_vars)


class Unready(Exception):
    pass


class Stuck(Exception):
    pass


class TooBig(Exception):
    pass


class Ambiguous(Exception):
    """Result depends on an order / tie the semantics leaves open."""


class Bag(list):
    """A list whose element order is unspecified (List / Set aggregation)."""


class Alt(object):
    """One of several equally valid values (ArgMin/ArgMax ties)."""

    def __init__(self, options):
        self.options = list(options)

    def __repr__(self):
        return 'Alt(%r)' % (self.options,)


DEFER = object()


class Budget(object):
    def __init__(self, n):
        self.left = n

    def spend(self, k=1):
        self.left -= k
        if self.left < 0:
            raise TooBig()


# ----------------------------------------------------------------- 3-valued logic

def truth(v):
    if v is None:
        return None
    if isinstance(v, (Bag, Alt)):
        raise Ambiguous()
    return bool(v)


def t3_and(a, b):
    a, b = truth(a), truth(b)
    if a is False or b is False:
        return 0
    if a is None or b is None:
        return None
    return 1


def t3_or(a, b):
    a, b = truth(a), truth(b)
    if a is True or b is True:
        return 1
    if a is None or b is None:
        return None
    return 0


def atom(v):
    if isinstance(v, Alt):
        raise Ambiguous()
    return v


def join_eq(a, b):
    """Equality of a call argument with a stored value (a join).  Two nulls: SQL finds no
    match, but a single-fact predicate is injected as constants and the compiler drops
    the then textually identical `null == null` as trivially true (DESIGN section 6) - the
    documentation tells users not to compare nulls with equality, so no value is
    asserted."""
    if a is None and b is None:
        raise Ambiguous()
    return cmpv('==', a, b) == 1


def cmpv(op, a, b):
    a, b = atom(a), atom(b)
    if a is None or b is None:
        return None
    if isinstance(a, (list, dict)) or isinstance(b, (list, dict)):
        raise Ambiguous()          # composite comparison: representation dependent
    if isinstance(a, bool):
        a = int(a)
    if isinstance(b, bool):
        b = int(b)
    if isinstance(a, str) != isinstance(b, str):
        raise Ambiguous()
    return int({'<': a < b, '<=': a <= b, '>': a > b, '>=': a >= b,
                '==': a == b, '!=': a != b}[op])


# ----------------------------------------------------------------- aggregation

def _key(v):
    return (0, v) if not isinstance(v, str) else (1, v)


# Deviations of the SQLite engine from the documented semantics that are recorded as
# open known findings; the evaluator can reproduce each so that a mismatch can be
# attributed to exactly that root cause (never used to decide "pass").
QUIRKS = ('list_keeps_null', 'empty_list', 'empty_count')
KVARIANT = re.compile(r'^(ArgMin|ArgMax)([1-9])$')


def aggregate(op, vals, quirks=()):
    """vals: list of values (ArgMin family: list of (arg, value) pairs)."""
    if op == 'Count' and not vals and 'empty_count' in quirks:
        return 0
    if op in ('List', 'Set'):
        if not vals and 'empty_list' in quirks:
            return Bag([])
        if 'list_keeps_null' in quirks and vals:
            if op == 'List':
                return Bag(vals)
            seen = []
            for v in vals:
                if v not in seen:
                    seen.append(v)
            return Bag(seen)
    if op in ('Sum', '+'):
        nn = [atom(v) for v in vals if v is not None]
        return sum(nn) if nn else None
    if op == 'Min':
        nn = [atom(v) for v in vals if v is not None]
        return min(nn) if nn else None
    if op == 'Max':
        nn = [atom(v) for v in vals if v is not None]
        return max(nn) if nn else None
    if op == 'Avg':
        nn = [atom(v) for v in vals if v is not None]
        return (sum(nn) / float(len(nn))) if nn else None
    if op == 'Count':
        nn = set(json.dumps(atom(v), sort_keys=True) for v in vals if v is not None)
        return len(nn) if vals else None
    if op == 'List':
        nn = [v for v in vals if v is not None]
        return Bag(nn) if vals else None
    if op == 'Set':
        seen = []
        for v in vals:
            if v is not None and v not in seen:
                seen.append(v)
        return Bag(seen) if vals else None
    mk = KVARIANT.match(op)
    if mk:
        # user wrapper `ArgMax2(x) = ArgMaxK(x, 2)`: arguments of the K extreme values,
        # ordered by value (ArgMaxK descending, ArgMinK ascending); length min(K, n)
        k = int(mk.group(2))
        pairs = [(a, atom(v)) for a, v in vals if v is not None]
        if not vals:
            return None
        if not pairs:
            return []               # like List: solutions exist, all ignored
        pairs.sort(key=lambda av: av[1], reverse=(mk.group(1) == 'ArgMax'))
        out = []
        i = 0
        while i < len(pairs) and len(out) < k:
            j = i
            while j < len(pairs) and pairs[j][1] == pairs[i][1]:
                j += 1
            group = [a for a, v in pairs[i:j]]
            if any(canon_key(a) != canon_key(group[0]) for a in group):
                raise Ambiguous()   # different arguments tie on the value: order unspecified
            out.extend(group[:k - len(out)])
            i = j
        return out
    if op in ('ArgMin', 'ArgMax'):
        pairs = [(a, atom(v)) for a, v in vals if v is not None]
        if not pairs:
            return None
        best = (min if op == 'ArgMin' else max)(v for a, v in pairs)
        opts = []
        for a, v in pairs:
            if v == best and a not in opts:
                opts.append(a)
        return opts[0] if len(opts) == 1 else Alt(opts)
    raise ValueError(op)


# ----------------------------------------------------------------- hoisting

class Fresh(object):
    def __init__(self, prefix='hv'):
        self.n = 0
        self.prefix = prefix

    def __call__(self):
        self.n += 1
        return '%s%d' % (self.prefix, self.n)


def subst_expr(e, m):
    k = e[0]
    if k == 'lit':
        return e
    if k == 'var':
        return m.get(e[1], e)
    if k in ('bin', 'cmp'):
        return (k, e[1], subst_expr(e[2], m), subst_expr(e[3], m))
    if k == 'not':
        return ('not', subst_expr(e[1], m))
    if k == 'if':
        return ('if', subst_expr(e[1], m), subst_expr(e[2], m), subst_expr(e[3], m))
    if k == 'list':
        return ('list', tuple(subst_expr(x, m) for x in e[1]))
    if k == 'rec':
        return ('rec', tuple((f, subst_expr(x, m)) for f, x in e[1]))
    if k == 'field':
        return ('field', subst_expr(e[1], m), e[2])
    if k == 'size':
        return ('size', subst_expr(e[1], m))
    if k in ('elem', 'inx', 'arrow'):
        return (k, subst_expr(e[1], m), subst_expr(e[2], m))
    if k == 'fcall':
        return ('fcall', e[1], tuple((f, subst_expr(x, m)) for f, x in e[2]))
    if k == 'aggx':
        return ('aggx', e[1], subst_expr(e[2], m), subst_body(e[3], m))
    raise ValueError(e)


def subst_lit(l, m):
    k = l[0]
    if k == 'call':
        return ('call', l[1], tuple((f, subst_expr(x, m)) for f, x in l[2]))
    if k == 'cmp':
        return ('cmp', l[1], subst_expr(l[2], m), subst_expr(l[3], m))
    if k == 'assign':
        # the assigned variable may itself be renamed to a variable
        tgt = m.get(l[1], ('var', l[1]))
        if tgt[0] == 'var':
            return ('assign', tgt[1], subst_expr(l[2], m))
        return ('unify', tgt, subst_expr(l[2], m))
    if k == 'unify':
        return ('unify', subst_expr(l[1], m), subst_expr(l[2], m))
    if k == 'in':
        return ('in', subst_expr(l[1], m), subst_expr(l[2], m))
    if k == 'prop':
        return ('prop', subst_expr(l[1], m))
    if k == 'neg':
        return ('neg', subst_body(l[1], m))
    if k == 'impl':
        return ('impl', subst_body(l[1], m), subst_body(l[2], m))
    if k == 'agg':
        tgt = m.get(l[1], ('var', l[1]))
        if tgt[0] != 'var':
            raise ValueError('agg target substituted by non-variable')
        return ('agg', tgt[1], l[2], subst_expr(l[3], m), subst_body(l[4], m), l[5])
    if k == 'or':
        return ('or', tuple(subst_body(b, m) for b in l[1]))
    raise ValueError(l)


def subst_body(body, m):
    return tuple(subst_lit(l, m) for l in body)


class Hoister(object):
    """Rewrites functional calls into conjuncts of the nearest enclosing
    combine / negation / rule, expands injectible predicates by substitution."""

    def __init__(self, inj):
        self.inj = inj
        self.fresh = Fresh('hv')
        self.ifresh = Fresh('iv')

    def expr(self, e, extra):
        k = e[0]
        if k in ('lit', 'var'):
            return e
        if k in ('bin', 'cmp'):
            return (k, e[1], self.expr(e[2], extra), self.expr(e[3], extra))
        if k == 'not':
            return ('not', self.expr(e[1], extra))
        if k == 'if':
            return ('if', self.expr(e[1], extra), self.expr(e[2], extra),
                    self.expr(e[3], extra))
        if k == 'list':
            return ('list', tuple(self.expr(x, extra) for x in e[1]))
        if k == 'rec':
            return ('rec', tuple((f, self.expr(x, extra)) for f, x in e[1]))
        if k == 'field':
            return ('field', self.expr(e[1], extra), e[2])
        if k == 'size':
            return ('size', self.expr(e[1], extra))
        if k in ('elem', 'inx'):
            return (k, self.expr(e[1], extra), self.expr(e[2], extra))
        if k == 'aggx':
            # value of a combine depends only on the outer binding: an equivalent
            # aggregating literal with a fresh result variable in the same scope
            ex2 = []
            e2 = self.expr(e[2], ex2)
            v = self.fresh()
            extra.append(('agg', v, e[1], e2, self.body(e[3]) + tuple(ex2), 0))
            return ('var', v)
        if k == 'arrow':
            return ('arrow', self.expr(e[1], extra), self.expr(e[2], extra))
        if k == 'fcall':
            args = tuple((f, self.expr(a, extra)) for f, a in e[2])
            d = self.inj.get(e[1])
            if d is not None and d[0] == 'fun':
                params, body = d[1], d[2]
                m = self.fun_locals(params, body)
                for f, a in args:
                    m[params[f]] = a
                return self.expr(subst_expr(body, m), extra)
            v = self.fresh()
            extra.append(('call', e[1], args + (('logica_value', ('var', v)),)))
            return ('var', v)
        raise ValueError(e)

    def fun_locals(self, params, body):
        """Capture-avoiding: the variables of an injectible function's value expression
        that are not parameters (locals of its aggregating expressions) are renamed apart
        at every call.  {} for a body without aggregating expressions."""
        m = {}
        for v in sorted(expr_vars(body) - set(params)):
            m[v] = ('var', self.ifresh())
        return m

    def lit(self, l, extra, out):
        k = l[0]
        if k == 'call':
            args = tuple((f, self.expr(a, extra)) for f, a in l[2])
            d = self.inj.get(l[1])
            if d is not None and d[0] == 'rel':
                params, ibody = d[1], d[2]
                # capture-avoiding: rename every callee variable apart
                m = {}
                for v in sorted(body_vars(ibody) | set(params)):
                    m[v] = ('var', self.ifresh())
                for f, a in args:
                    out.append(('unify', m[params[f]], a))
                for x in self.body(subst_body(ibody, m), extra_sink=extra):
                    out.append(x)
                return
            if d is not None and d[0] == 'fun':
                # F(args, logica_value: v) against a functional injectible
                params, fbody = d[1], d[2]
                m = self.fun_locals(params, fbody)
                val = None
                for f, a in args:
                    if f == 'logica_value':
                        val = a
                    else:
                        m[params[f]] = a
                ex = self.expr(subst_expr(fbody, m), extra)
                if val is not None:
                    out.append(('unify', val, ex))
                return
            out.append(('call', l[1], args))
        elif k == 'cmp':
            out.append(('cmp', l[1], self.expr(l[2], extra), self.expr(l[3], extra)))
        elif k == 'assign':
            out.append(('assign', l[1], self.expr(l[2], extra)))
        elif k == 'unify':
            out.append(('unify', self.expr(l[1], extra), self.expr(l[2], extra)))
        elif k == 'in':
            out.append(('in', self.expr(l[1], extra), self.expr(l[2], extra)))
        elif k == 'prop':
            out.append(('prop', self.expr(l[1], extra)))
        elif k == 'neg':
            out.append(('neg', self.body(l[1])))
        elif k == 'impl':
            # A => B  ==  ~(A, ~B)
            out.append(('neg', self.body(tuple(l[1]) + (('neg', tuple(l[2])),))))
        elif k == 'agg':
            ex2 = []
            e2 = self.expr(l[3], ex2)
            out.append(('agg', l[1], l[2], e2, self.body(l[4]) + tuple(ex2), l[5]))
        elif k == 'or':
            out.append(('or', tuple(self.body(b) for b in l[1])))
        else:
            raise ValueError(l)

    def body(self, body, extra_sink=None):
        out = []
        extra = [] if extra_sink is None else extra_sink
        for l in body:
            self.lit(l, extra, out)
        if extra_sink is None:
            return tuple(out) + tuple(extra)
        return tuple(out)

    def rule(self, r):
        extra = []
        r2 = dict(r)
        head = []
        for f, hx in r['head']:
            if hx[0] == 'AGG':
                head.append((f, ('AGG', hx[1], self.agg_arg(hx[1], hx[2], extra))))
            else:
                head.append((f, self.expr(hx, extra)))
        r2['head'] = tuple(head)
        v = r.get('value')
        if v is not None:
            if v[0] == 'AGG':
                r2['value'] = ('AGG', v[1], self.agg_arg(v[1], v[2], extra))
            else:
                r2['value'] = self.expr(v, extra)
        r2['body'] = self.body(r['body']) + tuple(extra)
        return r2

    def agg_arg(self, op, e, extra):
        return self.expr(e, extra)


# ----------------------------------------------------------------- evaluator

class Evaluator(object):
    def __init__(self, prog, overrides=None, budget=400000, rules_of=None, quirks=()):
        self.quirks = tuple(quirks)
        self.prog = prog
        self.inj = prog.get('inj', {})
        self.overrides = overrides or {}
        self.budget = Budget(budget)
        self.cache = {}
        if rules_of is None:
            hoister = Hoister(self.inj)
            rules_of = collections.OrderedDict()
            for r in prog['rules']:
                rules_of.setdefault(r['pred'], []).append(hoister.rule(r))
        self.rules_of = rules_of
        self.order_by = prog.get('order_by', {})
        self.limit = prog.get('limit', {})

    # -- public
    def rows(self, name):
        if name in self.overrides:
            return self.overrides[name]
        if name in self.cache:
            return self.cache[name]
        if name not in self.rules_of:
            raise KeyError('undefined predicate ' + name)
        rows = self.eval_pred(name)
        self.cache[name] = rows
        return rows

    def fields(self, name):
        r = self.rules_of[name][0]
        fs = [f for f, _ in r['head']]
        if r.get('value') is not None:
            fs.append('logica_value')
        return fs

    # -- predicate
    def eval_pred(self, name):
        rs = self.rules_of[name]
        distinct = any(r.get('distinct') for r in rs) or any(
            (r.get('value') is not None and r['value'][0] == 'AGG') for r in rs)
        sols = []
        for r in rs:
            top = own_vars(r['body'])
            for e in head_exprs(r):
                top |= expr_vars(e, deep=False)
            for en in self.solve(r['body'], {}, top):
                sols.append((r, en))
        rows = []
        if not distinct:
            for r, en in sols:
                row = collections.OrderedDict()
                for f, hx in r['head']:
                    row[f] = self.ev1(hx, en)
                if r.get('value') is not None:
                    row['logica_value'] = self.ev1(r['value'], en)
                rows.append(row)
        else:
            groups = collections.OrderedDict()
            for r, en in sols:
                key = []
                aggs = {}
                items = list(r['head'])
                if r.get('value') is not None:
                    items.append(('logica_value', r['value']))
                for f, hx in items:
                    if hx[0] == 'AGG':
                        aggs[f] = (hx[1], self.agg_input(hx[1], hx[2], en))
                    else:
                        key.append((f, self.ev1(hx, en)))
                # by field NAME: the bodies may list their named head arguments in any order
                gk = json.dumps(sorted([(str(f), canon_key(v)) for f, v in key],
                                       key=lambda kv: kv[0]),
                                sort_keys=True, default=str)
                g = groups.setdefault(gk, (key, {}))
                for f, (op, v) in aggs.items():
                    g[1].setdefault(f, (op, []))[1].append(v)
            order = self.fields(name)
            for key, aggs in groups.values():
                row = dict(key)
                for f, (op, vals) in aggs.items():
                    row[f] = aggregate(op, vals, self.quirks)
                rows.append(collections.OrderedDict((f, row[f]) for f in order))
        if name in self.order_by or name in self.limit:
            rows = self.order_limit(name, rows)
        return rows

    def order_limit(self, name, rows):
        keys = self.order_by.get(name)
        if keys:
            for col, desc in reversed(keys):
                def kf(r, col=col):
                    v = r[col]
                    if v is None:
                        raise Ambiguous()
                    return v
                rows = sorted(rows, key=kf, reverse=desc)
        lim = self.limit.get(name)
        if lim is not None:
            rows = rows[:lim]
        return rows

    def agg_input(self, op, e, en):
        if op in ('ArgMin', 'ArgMax') or KVARIANT.match(op):
            # e is ('arrow', arg, value)
            return (self.ev1(e[1], en), self.ev1(e[2], en))
        return self.ev1(e, en)

    # -- expressions
    def ev1(self, e, env):
        return self.ev(e, env)

    def ev(self, e, env):
        k = e[0]
        if k == 'lit':
            return e[1]
        if k == 'var':
            if e[1] not in env:
                raise Unready(e[1])
            return env[e[1]]
        if k == 'bin':
            op = e[1]
            a = self.ev(e[2], env)
            b = self.ev(e[3], env)
            if op == '&&':
                return t3_and(a, b)
            if op == '||':
                return t3_or(a, b)
            a, b = atom(a), atom(b)
            if a is None or b is None:
                return None
            if op == '+':
                return a + b
            if op in ('-', 'neg'):     # ('bin', 'neg', 0, e) is the unary minus spelling
                return a - b
            if op == '*':
                return a * b
            if op == '++':
                if isinstance(a, (list, dict)) or isinstance(b, (list, dict)):
                    raise Ambiguous()
                return str(a) + str(b)
            raise ValueError(op)
        if k == 'not':
            a = truth(self.ev(e[1], env))
            return None if a is None else int(not a)
        if k == 'cmp':
            return cmpv(e[1], self.ev(e[2], env), self.ev(e[3], env))
        if k == 'if':
            c = truth(self.ev(e[1], env))
            return self.ev(e[2] if c else e[3], env)
        if k == 'list':
            return [self.ev(x, env) for x in e[1]]
        if k == 'rec':
            return collections.OrderedDict((f, self.ev(x, env)) for f, x in e[1])
        if k == 'field':
            r = atom(self.ev(e[1], env))
            if r is None:
                return None
            return r.get(e[2])
        if k == 'size':
            v = atom(self.ev(e[1], env))
            return None if v is None else len(v)
        if k == 'elem':
            v = atom(self.ev(e[1], env))
            i = atom(self.ev(e[2], env))
            if v is None or i is None:
                return None
            if isinstance(v, Bag) and len(set(map(repr, v))) > 1:
                raise Ambiguous()
            return v[i] if 0 <= i < len(v) else None
        if k == 'inx':
            x = atom(self.ev(e[1], env))
            l = atom(self.ev(e[2], env))
            if l is None:
                return None
            # membership of / among nulls is not specified by the documentation
            # (SQLite: a Python UDF says null in [null] is true): not asserted
            if x is None or any(it is None for it in l):
                raise Ambiguous()
            for it in l:
                if cmpv('==', x, it) == 1:
                    return 1
            return 0
        if k == 'arrow':
            raise ValueError('arrow outside ArgMin/ArgMax')
        raise ValueError(e)

    # -- bodies
    def solve(self, body, env, scope_vars):
        envs = [env]
        pending = list(body)
        while pending:
            progressed = False
            for l in pending:
                try:
                    new = []
                    for en in envs:
                        new.extend(self.step(l, en, scope_vars))
                        self.budget.spend(1)
                except Unready:
                    continue
                self.budget.spend(len(new))
                envs = new
                pending.remove(l)
                progressed = True
                break
            if not progressed:
                raise Stuck('stuck on %r' % (pending,))
            if not envs:
                # remaining literals cannot add solutions; still must be evaluable
                break
        return envs

    def combine(self, op, expr, body, env, scope_vars):
        inner = body_vars(body) | expr_vars(expr)
        shared = inner & scope_vars
        if not shared <= set(env):
            raise Unready()
        sub = self.solve(body, dict(env),
                         scope_vars | own_vars(body) | expr_vars(expr, deep=False))
        vals = [self.agg_input(op, expr, s) for s in sub]
        return aggregate(op, vals, self.quirks)

    def step(self, l, env, scope_vars):
        k = l[0]
        if k == 'call':
            rows = self.rows(l[1])
            out = []
            binders = []     # (field, varname) for variables unbound on entry
            others = []      # (field, expr, value-or-DEFER)
            for f, t in l[2]:
                if t[0] == 'var' and t[1] not in env:
                    binders.append((f, t[1]))
                else:
                    try:
                        others.append((f, t, self.ev(t, env)))
                    except Unready:
                        others.append((f, t, DEFER))
            self.budget.spend(len(rows))
            for row in rows:
                for f, _ in l[2]:
                    if f not in row:
                        raise KeyError('no field %r in %s' % (f, l[1]))
                en = env
                ok = True
                if binders:
                    en = dict(env)
                    for f, vn in binders:
                        rv = row[f]
                        if vn in en:
                            if not join_eq(en[vn], rv):
                                ok = False
                                break
                        else:
                            en[vn] = rv
                if not ok:
                    continue
                for f, t, val in others:
                    if val is DEFER:
                        val = self.ev(t, en)
                    if not join_eq(val, row[f]):
                        ok = False
                        break
                if ok:
                    out.append(en)
            return out
        if k == 'cmp':
            c = cmpv(l[1], self.ev(l[2], env), self.ev(l[3], env))
            return [env] if c == 1 else []
        if k == 'prop':
            return [env] if truth(self.ev(l[1], env)) else []
        if k == 'assign':
            v = self.ev(l[2], env)
            if l[1] in env:
                return [env] if cmpv('==', env[l[1]], v) == 1 else []
            en = dict(env)
            en[l[1]] = v
            return [en]
        if k == 'unify':
            a, b = l[1], l[2]
            if a[0] == 'var' and a[1] not in env:
                if b[0] == 'var' and b[1] not in env:
                    raise Unready()
                en = dict(env)
                en[a[1]] = self.ev(b, env)
                return [en]
            if b[0] == 'var' and b[1] not in env:
                en = dict(env)
                en[b[1]] = self.ev(a, env)
                return [en]
            return [env] if cmpv('==', self.ev(a, env), self.ev(b, env)) == 1 else []
        if k == 'in':
            lst = atom(self.ev(l[2], env))
            if lst is None:
                return []
            t = l[1]
            out = []
            if t[0] == 'var' and t[1] not in env:
                for item in lst:
                    en = dict(env)
                    en[t[1]] = item
                    out.append(en)
                return out
            v = self.ev(t, env)
            for item in lst:
                if cmpv('==', v, item) == 1:
                    out.append(env)
            return out
        if k == 'neg':
            inner = body_vars(l[1])
            shared = inner & scope_vars
            if not shared <= set(env):
                raise Unready()
            sub = self.solve(l[1], dict(env), scope_vars | own_vars(l[1]))
            return [env] if not sub else []
        if k == 'agg':
            v = l[1]
            inner = (body_vars(l[4]) | expr_vars(l[3]))
            shared = (inner & scope_vars) - {v}
            if not shared <= set(env):
                raise Unready()
            val = self.combine(l[2], l[3], l[4], env, scope_vars)
            if v in env:
                return [env] if cmpv('==', env[v], val) == 1 else []
            en = dict(env)
            en[v] = val
            return [en]
        if k == 'or':
            out = []
            for b in l[1]:
                try:
                    out.extend(self.solve(b, dict(env), scope_vars))
                except Stuck:
                    raise Unready()
            return out
        raise ValueError(l)


def canon_key(v):
    if isinstance(v, (Bag, Alt)):
        raise Ambiguous()
    return v
