"""Reference type checker for lv.model programs (oracle of C05).

Independent of type_inference/research: plain first-order unification over
  Num | Str | Bool | [T] | {f: T, ...} closed | {f: T, ..} open | type variable
written from the language rules (arithmetic is numeric, `++` concatenates strings,
comparisons relate two values of one type and give Bool, a list literal has one
element type, a record literal is a closed record, `e.f` needs a record with field f,
a call unifies its arguments with a fresh instance of the callee's signature, every
rule of a predicate contributes to one signature, aggregation operators as documented).

A *clash* is a failed unification of two type constructors; it is *ground* when both
sides are fully determined types (no type variable inside).  Clashes carry a class:
  plain        two different ground types met
  rec_field    the two types are records with the same fields that differ in the type of
               a field
  rec_arg_lit  a record literal written directly as a call argument has other fields
               than the record type that position has
  rec_head_lit the same for a record literal written directly as a head field value
Optional constraints (`strict`): `!=` relates two values of one type, an `if` condition,
a proposition and the operands of `in` used as a boolean expression are typed.  The lax
run (strict=False) leaves them out: whatever clashes in the lax run clashes under every
reading; whatever is clash-free in the strict run is well-typed under every reading.
"""
from lv import model


class Unsupported(Exception):
    pass


class T(object):
    __slots__ = ('kind', 'link', 'elem', 'fields', 'closed', 'lit', 'seq', 'sing')

    def __init__(self, kind, elem=None, fields=None, closed=False, lit=False):
        self.kind = kind          # var Num Str Bool list rec
        self.link = None
        self.elem = elem
        self.fields = fields
        self.closed = closed
        self.lit = lit            # (rec) a record literal is in this class
        self.seq = False          # (var) restricted to Str or a list (operand of ++)
        self.sing = False         # (var) not a list (element of a list)


def find(t):
    while t.link is not None:
        t = t.link
    return t


def NUM():
    return T('Num')


def STR():
    return T('Str')


def BOOL():
    return T('Bool')


def VAR(seq=False, sing=False):
    t = T('var')
    t.seq = seq
    t.sing = sing
    return t


def LIST(e):
    e = find(e)
    if e.kind == 'var':
        e.sing = True
    return T('list', elem=e)


def REC(fields, closed=True, lit=False):
    return T('rec', fields=dict(fields), closed=closed, lit=lit)


def ground(t, seen=None):
    t = find(t)
    if t.kind == 'var':
        return False
    if t.kind == 'list':
        return ground(t.elem)
    if t.kind == 'rec':
        return t.closed and all(ground(x) for x in t.fields.values()) or \
            (not t.closed and False)
    return True


def ground_or_open(t):
    """Fully determined up to openness of records (signature of `F(r) = r.a + 1`)."""
    t = find(t)
    if t.kind == 'var':
        return False
    if t.kind == 'list':
        return ground_or_open(t.elem)
    if t.kind == 'rec':
        return all(ground_or_open(x) for x in t.fields.values())
    return True


def occurs(v, t):
    t = find(t)
    if t is v:
        return True
    if t.kind == 'list':
        return occurs(v, t.elem)
    if t.kind == 'rec':
        return any(occurs(v, x) for x in t.fields.values())
    return False


def _key(kv):
    k = kv[0]
    return k if isinstance(k, str) else '%03d' % k


def render(t):
    """Same text as reference_algebra.RenderType(VeryConcreteType(.)) for determined
    types; type variables print as Any."""
    t = find(t)
    if t.kind == 'var':
        return 'Any'
    if t.kind == 'list':
        return '[%s]' % render(t.elem)
    if t.kind == 'rec':
        return '{%s}' % ', '.join('%s: %s' % (k, render(v))
                                  for k, v in sorted(t.fields.items(), key=_key))
    return t.kind


def from_code(c):
    """gen.py type codes -> T."""
    if c == 'N':
        return NUM()
    if c == 'S':
        return STR()
    if c == 'B':
        return BOOL()
    if c in ('LN', 'LS'):
        return LIST(from_code(c[1]))
    if c == 'R':
        return REC({'a': NUM(), 'b': STR()})
    raise ValueError(c)


def copy_type(t, memo):
    t = find(t)
    if id(t) in memo:
        return memo[id(t)]
    if t.kind == 'var':
        n = VAR(t.seq, t.sing)
    elif t.kind == 'list':
        n = T('list')
        memo[id(t)] = n
        n.elem = copy_type(t.elem, memo)
    elif t.kind == 'rec':
        n = T('rec', closed=t.closed, lit=t.lit)
        memo[id(t)] = n
        n.fields = {k: copy_type(v, memo) for k, v in t.fields.items()}
    else:
        n = T(t.kind)
    memo[id(t)] = n
    return n


class Checker(object):
    def __init__(self, prog, strict=False):
        self.prog = prog
        self.strict = strict
        self.clashes = []          # dicts: a, b, ground, cls, where
        self.sig = {}              # pred -> {field: T}
        self.rule_env = []         # (rule index | 'inj:<name>', {var: T}) top-level envs
        self.scope_locals = []     # (where, scope path, {var: T}) for nested scopes
        self.where = None
        self.strict_neq = False    # lax run that still types `!=` (class neq)
        self._cls = None
        self.etype = {}            # id(expr tuple) -> T
        self.env_of = {}           # id(body tuple) -> environment of that scope

    # ------------------------------------------------------------ unification
    def clash(self, a, b, cls='plain'):
        if cls == 'plain' and self._cls:
            cls = self._cls
        # sides are kept as type nodes and resolved when the run is over: whether a
        # side is determined must not depend on the order of traversal
        self.clashes.append({'ta': a, 'tb': b, 'a': render(a), 'b': render(b),
                             'ground': ground(a) and ground(b), 'cls': cls,
                             'where': self.where})
        return self.clashes[-1]

    def finalize(self):
        for c in self.clashes:
            if 'ta' in c:
                a, b = c.pop('ta'), c.pop('tb')
                c['a'], c['b'] = render(a), render(b)
                c['ground'] = ground(a) and ground(b) and c['a'] != c['b']
            if 'closed_side' in c:
                # a field addressed on a record that lacks it: a ground clash exactly
                # when the record is provably closed, i.e. its type is the type of a
                # record literal (the other side, `{f: ?, ...}`, needs no determined
                # field type: no closed record with these fields has f)
                n = find(c.pop('closed_side'))
                c['ground'] = n.kind == 'rec' and n.closed and n.lit

    def unify(self, a, b, ctx=None):
        """ctx: None or ('arglit', n_literal_fields) when b is the type of a record
        literal written directly in an argument position typed by a (a signature)."""
        a, b = find(a), find(b)
        if a is b:
            return True
        if b.kind == 'var' and a.kind != 'var':
            a, b = b, a
        if a.kind == 'var':
            if b.kind != 'var' and occurs(a, b):
                self.clash(a, VAR())         # infinite type: not a ground clash
                return False
            if b.kind == 'var':
                b.seq = b.seq or a.seq
                b.sing = b.sing or a.sing
            elif (a.seq and b.kind not in ('Str', 'list')) or \
                    (a.sing and b.kind == 'list'):
                # not a ground clash: `Sequential` / `Singular` are not types
                self.clash(a, b)
                return False
            a.link = b
            return True
        if a.kind != b.kind:
            self.clash(a, b)
            return False
        if a.kind == 'list':
            # element mismatch is reported once, for the lists
            n = len(self.clashes)
            ok = self.unify(a.elem, b.elem)
            if not ok:
                del self.clashes[n:]
                self.clash(a, b)
            else:
                b.link = a
            return ok
        if a.kind == 'rec':
            return self.unify_rec(a, b, ctx)
        return True

    def unify_rec(self, a, b, ctx):
        fa, fb = set(a.fields), set(b.fields)
        bad = False
        if a.closed and b.closed:
            bad = fa != fb
        elif a.closed:
            bad = not (fb <= fa)
        elif b.closed:
            bad = not (fa <= fb)
        if bad:
            cls = 'plain'
            if ctx in ('arglit', 'headlit') and a.closed and b.closed:
                # either direction: which rule comes first decides which side is the
                # signature, and the class must not depend on the order
                cls = 'rec_arg_lit' if ctx == 'arglit' else 'rec_head_lit'
            rec = self.clash(a, b, cls)
            if a.closed != b.closed and cls == 'plain' and rec['cls'] == 'plain':
                rec['cls'] = 'missing_field'
                rec['closed_side'] = a if a.closed else b
            return False
        n = len(self.clashes)
        ok = True
        for f in sorted(fa & fb, key=str):
            if not self.unify(a.fields[f], b.fields[f]):
                ok = False
        if not ok:
            del self.clashes[n:]
            self.clash(a, b, 'rec_field')
            return False
        merged = dict(b.fields)
        merged.update(a.fields)
        a.fields = merged
        a.closed = a.closed or b.closed
        a.lit = a.lit or b.lit
        b.link = a
        return True

    def mklist(self, e):
        e = find(e)
        if e.kind == 'list':
            self.clash(VAR(sing=True), e)       # list of lists: not a ground clash
            return LIST(VAR())
        return LIST(e)

    # ------------------------------------------------------------ signatures
    def instance(self, pred):
        s = self.sig.get(pred)
        if s is None:
            raise Unsupported('call to untyped predicate %s' % pred)
        memo = {}
        return {f: copy_type(t, memo) for f, t in s.items()}

    def sig_field(self, inst, f, pred):
        if f in inst:
            return inst[f]
        if isinstance(f, str) and f.startswith('col') and f[3:].isdigit() and \
                int(f[3:]) in inst:
            return inst[int(f[3:])]
        raise Unsupported('predicate %s has no field %r' % (pred, f))

    # ------------------------------------------------------------ expressions
    def expr(self, e, env):
        t = self.expr_(e, env)
        self.etype[id(e)] = t
        return t

    def expr_(self, e, env):
        k = e[0]
        if k == 'lit':
            return self.lit(e[1])
        if k == 'var':
            if e[1] not in env:
                raise Unsupported('unscoped variable %s' % e[1])
            return env[e[1]]
        if k == 'bin':
            op = e[1]
            a = self.expr(e[2], env)
            b = self.expr(e[3], env)
            if op in ('+', '-', '*', '/', '%', '^'):
                self.unify(NUM(), a)
                self.unify(NUM(), b)
                return NUM()
            if op == '++':
                # concatenation of two strings or of two lists of one type
                r = VAR(seq=True)
                if find(a).kind == 'var':
                    a, b = b, a          # determined operand first: Str meets Num
                self.unify(r, a)
                self.unify(r, b)
                return r
            if op in ('&&', '||'):
                self.unify(BOOL(), a)
                self.unify(BOOL(), b)
                return BOOL()
            raise Unsupported('operator ' + op)
        if k == 'cmp':
            a = self.expr(e[2], env)
            b = self.expr(e[3], env)
            self.compare(e[1], a, b)
            return BOOL()
        if k == 'not':
            a = self.expr(e[1], env)
            self.unify(BOOL(), a)
            return BOOL()
        if k == 'if':
            c = self.expr(e[1], env)
            if self.strict:
                self.unify(BOOL(), c)
            a = self.expr(e[2], env)
            b = self.expr(e[3], env)
            self.unify(a, b)
            return a
        if k == 'list':
            el = VAR()
            for x in e[1]:
                self.unify(el, self.expr(x, env))
            return self.mklist(el)
        if k == 'rec':
            return REC([(f, self.expr(x, env)) for f, x in e[1]], closed=True, lit=True)
        if k == 'field':
            r = self.expr(e[1], env)
            ft = VAR()
            self.unify(r, REC({e[2]: ft}, closed=False))
            return ft
        if k == 'size':
            a = self.expr(e[1], env)
            self.unify(self.mklist(VAR()), a)
            return NUM()
        if k == 'elem':
            a = self.expr(e[1], env)
            i = self.expr(e[2], env)
            el = VAR()
            self.unify(self.mklist(el), a)
            self.unify(NUM(), i)
            return el
        if k == 'inx':
            a = self.expr(e[1], env)
            l = self.expr(e[2], env)
            if self.strict:
                self.unify(l, self.mklist(a))
            elif self.strict_neq:
                # /repo types the expression form since c2ec532 (left: e, right: [e]);
                # a mismatch belongs to the (fixed) class neq
                self._cls = 'neq'
                self.unify(l, self.mklist(a))
                self._cls = None
            # `x in l` used as a value: Bool, but /repo has no signature for it (known
            # class neq); the lax run leaves its type open unless that class is on
            return BOOL() if (self.strict or self.strict_neq) else VAR()
        if k == 'arrow':
            return REC({'arg': self.expr(e[1], env), 'value': self.expr(e[2], env)})
        if k == 'fcall':
            inst = self.instance(e[1])
            self.args(e[1], inst, e[2], env)
            if 'logica_value' not in inst:
                raise Unsupported('%s is not a function' % e[1])
            return inst['logica_value']
        if k == 'aggx':
            inner = self.scope(e[3], env, extra=model.expr_vars(e[2], deep=False))
            self.body(e[3], inner)
            return self.agg_result(e[1], e[2], inner)
        raise Unsupported('expression %r' % (k,))

    def compare(self, op, a, b):
        if op != '!=':
            self.unify(a, b)
        elif self.strict or self.strict_neq:
            self._cls = None if self.strict else 'neq'
            self.unify(a, b)
            self._cls = None

    def lit(self, v):
        if v is None:
            return VAR()
        if isinstance(v, bool):
            return BOOL()
        if isinstance(v, (int, float)):
            return NUM()
        if isinstance(v, str):
            return STR()
        if isinstance(v, (list, tuple)):
            el = VAR()
            for x in v:
                self.unify(el, self.lit(x))
            return self.mklist(el)
        if isinstance(v, dict):
            return REC([(f, self.lit(x)) for f, x in v.items()], closed=True, lit=True)
        raise Unsupported('literal %r' % (v,))

    def args(self, pred, inst, args, env):
        for a in args:
            f, x = a[0], a[1]
            st = self.sig_field(inst, f, pred)
            t = self.expr(x, env)
            is_rec_lit = x[0] == 'rec' or (x[0] == 'lit' and isinstance(x[1], dict))
            self.unify(st, t, 'arglit' if is_rec_lit else None)

    def agg_result(self, op, e, env):
        if op in ('ArgMin', 'ArgMax'):
            t = self.expr(e, env)
            self._last_agg_arg = t
            a, v = VAR(), VAR()
            self.unify(REC({'arg': a, 'value': v}), t)
            return a
        t = self.expr(e, env)
        self._last_agg_arg = t
        if op in ('Sum', '+', 'Avg'):
            self.unify(NUM(), t)
            return NUM()
        if op == 'Count':
            return NUM()
        if op in ('Min', 'Max'):
            return t
        if op in ('List', 'Set'):
            return self.mklist(t)
        raise Unsupported('aggregation ' + op)

    # ------------------------------------------------------------ bodies
    def scope(self, body, env, extra=()):
        """Environment of a nested scope: its own-level variables that no enclosing
        scope owns are local to it."""
        inner = dict(env)
        own = set(model.own_vars(body)) | set(extra)
        new = {}
        for v in sorted(own):
            if v not in inner:
                inner[v] = new[v] = VAR()
        self.scope_locals.append((self.where, new))
        self.env_of[id(body)] = inner
        return inner

    def body(self, body, env):
        for l in body:
            self.literal(l, env)

    def literal(self, l, env):
        k = l[0]
        if k == 'call':
            inst = self.instance(l[1])
            self.args(l[1], inst, l[2], env)
        elif k == 'cmp':
            a = self.expr(l[2], env)
            b = self.expr(l[3], env)
            self.compare(l[1], a, b)
        elif k == 'assign':
            self.unify(env[l[1]], self.expr(l[2], env))
        elif k == 'in':
            a = self.expr(l[1], env)
            lt = self.expr(l[2], env)
            self.unify(lt, self.mklist(a))
        elif k == 'prop':
            t = self.expr(l[1], env)
            if self.strict:
                self.unify(BOOL(), t)
        elif k == 'neg':
            inner = self.scope(l[1], env)
            self.body(l[1], inner)
        elif k == 'impl':
            inner = self.scope(tuple(l[1]) + tuple(l[2]), env)
            self.env_of[id(l[1])] = self.env_of[id(l[2])] = inner
            self.body(l[1], inner)
            self.body(l[2], inner)
        elif k == 'agg':
            inner = self.scope(l[4], env, extra=model.expr_vars(l[3], deep=False))
            self.body(l[4], inner)
            self.unify(env[l[1]], self.agg_result(l[2], l[3], inner))
        elif k == 'or':
            for b in l[1]:
                self.body(b, env)
        else:
            raise Unsupported('literal %r' % (k,))

    # ------------------------------------------------------------ rules
    def rule(self, idx, r):
        if not self.strict:
            # a disjunction makes one rule per branch (the language rewrites it that
            # way), and each of those rules types its variables on its own; the strict
            # run keeps one environment for the whole rule (implies the other)
            bodies = dnf(r['body'])
            if len(bodies) > 1:
                for b in bodies[:24]:
                    r2 = dict(r)
                    r2['body'] = b
                    self.rule_(idx, r2)
                return
        self.rule_(idx, r)

    def rule_(self, idx, r):
        self.where = idx
        env = {v: VAR() for v in sorted(model.rule_own_vars(r))}
        self.rule_env.append((idx, env))
        self.env_of[id(r['body'])] = env
        self.body(r['body'], env)
        s = self.sig.setdefault(r['pred'], {})
        items = [(f, h) for f, h in r['head']]
        if r.get('value') is not None:
            items.append(('logica_value', r['value']))
        fields = [f for f, h in items]
        if r['pred'] in self._seen_heads and set(fields) != set(s):
            raise Unsupported('rules of %s disagree on fields' % r['pred'])
        self._seen_heads.add(r['pred'])
        for f, h in items:
            if h[0] == 'AGG':
                t = self.agg_result(h[1], h[2], env)
                is_rec_lit = False
                if self.strict:
                    # several bodies of one aggregating predicate are compiled as a
                    # union of the aggregated *arguments*: they share one column
                    key = (r['pred'], f)
                    if key in self._agg_args:
                        self.unify(self._agg_args[key], self._last_agg_arg)
                    else:
                        self._agg_args[key] = self._last_agg_arg
            else:
                t = self.expr(h, env)
                is_rec_lit = h[0] == 'rec' or (h[0] == 'lit' and isinstance(h[1], dict))
            if f in s:
                self.unify(s[f], t, 'headlit' if is_rec_lit else None)
            else:
                s[f] = t

    def inj(self, name, d):
        self.where = 'inj:' + name
        params = d[1]
        if d[0] == 'fun':
            own = set(params) | model.expr_vars(d[2], deep=False)
            env = {v: VAR() for v in sorted(own)}
            self.rule_env.append((self.where, env))
            vt = self.expr(d[2], env)
            s = {i: env[p] for i, p in enumerate(params)}
            s['logica_value'] = vt
        else:
            own = set(params) | model.own_vars(d[2])
            env = {v: VAR() for v in sorted(own)}
            self.rule_env.append((self.where, env))
            self.body(d[2], env)
            s = {i: env[p] for i, p in enumerate(params)}
        self.sig[name] = s

    # ------------------------------------------------------------ program
    def run(self):
        from lv.props import common
        prog = self.prog
        self._seen_heads = set()
        self._agg_args = {}
        inj = prog.get('inj', {})
        deps = {}
        rules_of = {}
        for i, r in enumerate(prog['rules']):
            rules_of.setdefault(r['pred'], []).append(i)
            deps.setdefault(r['pred'], set()).update(common.deps_of_rule(r))
        for name, d in inj.items():
            dd = set()
            if d[0] == 'fun':
                exprs = list(common.walk_exprs_of_expr(d[2]))
            else:
                exprs = []
                for l in common.walk_lits(d[2]):
                    if l[0] == 'call':
                        dd.add(l[1])
                    for x in common.lit_exprs(l):
                        exprs.extend(common.walk_exprs_of_expr(x))
            for x in exprs:
                if x[0] == 'fcall':
                    dd.add(x[1])
            deps[name] = dd
        order, state = [], {}

        def visit(p):
            if state.get(p) == 2:
                return
            if state.get(p) == 1:
                raise Unsupported('recursive predicate ' + p)
            state[p] = 1
            for q in sorted(deps.get(p, ())):
                if q in deps:
                    visit(q)
                else:
                    raise Unsupported('undefined predicate ' + q)
            state[p] = 2
            order.append(p)
        for p in list(inj) + [r['pred'] for r in prog['rules']]:
            visit(p)
        for p in order:
            if p in inj:
                self.inj(p, inj[p])
            for i in rules_of.get(p, ()):
                self.rule(i, prog['rules'][i])
        self.finalize()
        return self

    # ------------------------------------------------------------ results
    def signatures(self):
        """pred -> {field: (rendered type, determined?)}"""
        out = {}
        for p, s in self.sig.items():
            out[p] = {f: (render(t), ground_or_open(t)) for f, t in s.items()}
        return out

    def all_ground(self):
        """Every variable of every rule and every signature field has a determined
        type (records of injectible parameters may be open)."""
        for where, env in self.rule_env:
            for v, t in env.items():
                if not ground_or_open(t):
                    return False
        for where, env in self.scope_locals:
            for v, t in env.items():
                if not ground_or_open(t):
                    return False
        for p, s in self.sig.items():
            for f, t in s.items():
                if not ground_or_open(t):
                    return False
        return True

    def sibling_local_conflicts(self):
        """Names that are local to two different nested scopes of one rule with
        different types (distinct variables that share a spelling)."""
        by = {}
        out = []
        for where, loc in self.scope_locals:
            for v, t in loc.items():
                by.setdefault((where, v), []).append(render(t))
        for (where, v), ts in sorted(by.items(), key=str):
            if len(set(ts)) > 1:
                out.append((where, v, sorted(set(ts))))
        return out


def check(prog, strict=False):
    return Checker(prog, strict=strict).run()


def dnf(body):
    """Top-level disjunctions multiplied out: list of conjunctions."""
    out = [()]
    for l in body:
        if l[0] == 'or':
            alts = []
            for b in l[1]:
                alts.extend(dnf(b))
            out = [o + a for o in out for a in alts]
        else:
            out = [o + (l,) for o in out]
        if len(out) > 64:
            raise Unsupported('disjunctive normal form too large')
    return out


class _Isolated(Checker):
    """Types one conjunct / expression on its own: every variable and every called
    predicate is unconstrained."""

    def instance(self, pred):
        return None

    def sig_field(self, inst, f, pred):
        return VAR()

    def expr_(self, e, env):
        if e[0] == 'var' and e[1] not in env:
            env[e[1]] = VAR()
        if e[0] == 'fcall':
            for a in e[2]:
                self.expr(a[1], env)
            return VAR()
        return Checker.expr_(self, e, env)

    def scope(self, body, env, extra=()):
        return env

    def literal(self, l, env):
        for v in model.lit_vars(l):
            env.setdefault(v, VAR())
        Checker.literal(self, l, env)


def isolated_ground_clash(piece, is_literal):
    """Does this conjunct (is_literal) or expression clash by itself, whatever the rest
    of the program says?"""
    ck = _Isolated({'rules': [], 'inj': {}}, strict=False)
    env = {}
    try:
        if is_literal:
            ck.literal(piece, env)
        elif piece[0] == 'AGG':
            ck.agg_result(piece[1], piece[2], env)
        else:
            ck.expr(piece, env)
    except Unsupported:
        return False
    ck.finalize()
    return any(c['ground'] for c in ck.clashes)
