"""Import sub-domain of C06: a generated file tree, the main file parsed by both parsers.

    import ::= 'import' dot_separated_path '.' logica_predicate ['as' logica_predicate]

A tree is a main text plus 1..4 module files `<dir>/<path with / for .>.l`.  Module i
imports only from modules with a larger index (a DAG; nested and shared imports occur),
every imported predicate is defined by the imported file and used by the importer
(otherwise both parsers reject: those are the negative variants).  Module bodies and the
main body are ordinary lv.syntaxgen programs; the main text gets layout noise and the
catalogue corruptions of lv.noise like any other C06 text.

The files live in a run-private `tempfile.mkdtemp` directory (one sub-directory per
evaluated case) that is removed by cleanup().

What the property asks of a tree: main-file rules in the same order, rules of imported
files as the same multiset.  The number k of main-file rules is the number of rules the
Python parser yields for the main text with the import statements left out (rewrites
are per file), computed when the case is made and stored with it.
"""
import os
import shutil
import tempfile

from lv import noise, parsers, syntaxgen
from lv.syntaxgen import Tok

# FINDING import_layout (C06; for C15's statement too, C++ parser only): additional
# blanks / newlines after `import`, around `as` are accepted by the Python parser
# (SplitImport strips the pieces) and rejected by the C++ parser (its SplitImport
# works on the raw std::string: "Imported file not found:  lib/util.l", "Predicate
# imported but not used").  While the exclusion is on, only bare comments are inserted
# inside an import statement.
EXCLUDE_IMPORT_LAYOUT = syntaxgen.excluded('IMPORT_LAYOUT')
RISK_IMPORT = 'import_layout'

BASES = ['util', 'core', 'lib_x', 'm1', 'tools', 'shapes', 'data_set', 'alpha', 'beta',
         'dataSet', 'XY']     # the file prefix is <Base capitalised, rest lowered>_
DIRS = [(), (), ('lib',), ('pkg', 'sub'), ('x', 'a'), ('my_lib',), ('lib', 'v2')]
ALIASES = ['Alpha', 'Beta', 'Gamma', 'Imp1', 'Imp2', 'Other_p', 'Zeta9']

_tmp = {}


PREFIX = 'lv_parser_imports_'


def _sweep_stale():
    """directories left behind by workers that were killed (wall limit): their pid,
    part of the directory name, is gone."""
    base = tempfile.gettempdir()
    try:
        names = os.listdir(base)
    except OSError:
        return
    for name in names:
        if not name.startswith(PREFIX):
            continue
        try:
            pid = int(name[len(PREFIX):].split('_')[0])
            os.kill(pid, 0)
        except ValueError:
            continue
        except ProcessLookupError:
            shutil.rmtree(os.path.join(base, name), ignore_errors=True)
        except OSError:
            continue


def tmp_root():
    if 'root' not in _tmp:
        _sweep_stale()
        _tmp['root'] = tempfile.mkdtemp(prefix='%s%d_' % (PREFIX, os.getpid()))
        _tmp['n'] = 0
    return _tmp['root']


def cleanup():
    root = _tmp.pop('root', None)
    _tmp.pop('n', None)
    if root:
        shutil.rmtree(root, ignore_errors=True)


def write_tree(files):
    """-> a fresh directory holding the files."""
    root = tmp_root()
    _tmp['n'] += 1
    d = os.path.join(root, 'c%d' % _tmp['n'])
    for rel, text in sorted(files.items()):
        p = os.path.join(d, rel)
        os.makedirs(os.path.dirname(p), exist_ok=True)
        with open(p, 'w', encoding='utf-8') as f:
            f.write(text)
    os.makedirs(d, exist_ok=True)
    return d


def remove_tree(d):
    shutil.rmtree(d, ignore_errors=True)


# ------------------------------------------------------------------ generation

def import_stmt(path, pred, alias):
    """token list of one import statement."""
    glue = EXCLUDE_IMPORT_LAYOUT
    risk = '' if EXCLUDE_IMPORT_LAYOUT else RISK_IMPORT
    out = [Tok('import ', 'kw'),
           Tok(path + '.' + pred, 'path', glue=True if glue else False, risk=risk)]
    if alias:
        out += [Tok(' as ', 'kw', glue=glue, risk=risk),
                Tok(alias, 'name', glue=glue, risk=risk)]
    return out


def use_rule(g, local, k):
    """a rule that uses the local name of an imported predicate."""
    v = g.var()
    return [Tok('Use%d' % k, 'name'), Tok('(', 'open', glue=True), Tok(v, 'var'),
            Tok(')', 'close'), Tok(':-', 'sep', pre=' '),
            Tok(local, 'name', pre=' '), Tok('(', 'open', glue=True),
            Tok(v, 'var'), Tok(')', 'close')]


def gen_paths(rng, n):
    bases = list(BASES)
    out = []
    for _ in range(n):
        b = bases.pop(rng.randrange(len(bases)))      # distinct base names
        d = DIRS[rng.randrange(len(DIRS))]
        out.append('.'.join(d + (b,)))
    return out


def gen_tree(rng):
    """-> dict(paths, mods: [{'stmts', 'imports', 'exports', 'strings', 'feats'}], ...)
    module 0 is main."""
    n = [1, 1, 2, 2, 3, 4][rng.randrange(6)]
    paths = ['main'] + gen_paths(rng, n)
    mods = [None] * (n + 1)
    feats = set()
    for i in range(n, -1, -1):
        # whom to import from: later modules; main imports from at least one
        targets = [j for j in range(i + 1, n + 1)
                   if rng.random() < (0.7 if i == 0 else 0.35)]
        if i == 0 and not targets:
            targets = [1 + rng.randrange(n)]
        imports = []
        taken = set()
        for j in targets:
            exp = mods[j]['exports']
            if not exp:
                continue
            for _ in range(1 if rng.random() < 0.7 else 2):
                pred = exp[rng.randrange(len(exp))]
                alias = None
                if rng.random() < 0.45:
                    alias = ALIASES[rng.randrange(len(ALIASES))]
                local = alias or pred
                if local in taken or (paths[j], pred) in [(x[0], x[1]) for x in imports]:
                    continue
                taken.add(local)
                imports.append((paths[j], pred, alias))
        g = syntaxgen.Gen(rng, extra_preds=sorted(taken))
        body = g.program(1, 2 if i else 3)
        exports = [h for h in g.heads if not h.startswith('@')]
        stmts = []
        imp_stmts = [import_stmt(*x) for x in imports]
        use_stmts = [use_rule(g, x[2] or x[1], k) for k, x in enumerate(imports)]
        order = rng.randrange(3)
        if order == 0 or not imp_stmts:
            stmts = imp_stmts + body + use_stmts
            feats.add('imports_first')
        elif order == 1:
            stmts = body + use_stmts + imp_stmts
            feats.add('imports_last')
        else:
            stmts = list(body)
            for a, b in zip(imp_stmts, use_stmts):
                stmts.insert(rng.randrange(len(stmts) + 1), a)
                stmts.insert(rng.randrange(len(stmts) + 1), b)
            feats.add('imports_interleaved')
        is_import = [any(s is x for x in imp_stmts) for s in stmts]
        mods[i] = {'stmts': stmts, 'imports': imports, 'exports': exports,
                   'is_import': is_import, 'feats': g.feats, 'strings': list(g.strings)}
        feats |= set('mod:' + f for f in g.feats if f in (
            'toplevel_disjunction', 'multi_body_aggregation', 'function_rule',
            'functor_application', 'annotation', 'order_by', 'limit',
            'call_of_imported_predicate'))
        if any(x[2] for x in imports):
            feats.add('import_as')
        if imports:
            feats.add('import')
    if any(m['imports'] for m in mods[1:]):
        feats.add('nested_import')
    imported_files = [x[0] for m in mods for x in m['imports']]
    if len(imported_files) != len(set(imported_files)) or \
            any(imported_files.count(p) > 1 for p in imported_files):
        feats.add('file_imported_twice')
    feats.add('modules:%d' % n)
    # modules reachable from main (only those are parsed)
    reach, todo = set(), [0]
    while todo:
        i = todo.pop()
        if i in reach:
            continue
        reach.add(i)
        todo += [paths.index(x[0]) for x in mods[i]['imports']]
    return {'paths': paths, 'mods': mods, 'feats': feats, 'reachable': sorted(reach)}


def rel_of(path):
    return '/'.join(path.split('.')) + '.l'


def render_modules(tree, rng):
    """-> (files {relpath: text}, set of the comment-free statement texts of all files)"""
    files = {}
    allowed = set()
    for path, m in list(zip(tree['paths'], tree['mods']))[1:]:
        r = noise.render(m['stmts'], rng, p_noise=[0.0, 0.1, 0.3][rng.randrange(3)],
                         p_paren=[0.0, 0.1][rng.randrange(2)], trailing=rng.random() < 0.8)
        if r.risks():
            r = r.without(r.risks())       # a finding's layout only in the main text
        files[rel_of(path)] = r.text
        allowed |= r.allowed_heritage()
    return files, allowed


def render_files(tree, rng):
    return render_modules(tree, rng)[0]


def pieces_of(cell_texts, cells, tail):
    out, cur = [], []
    for txt, c in zip(cell_texts, cells):
        cur.append(txt)
        if c[3] is None:
            out.append(''.join(cur))
            cur = []
    cur.append(tail)
    if ''.join(cur):
        out.append(''.join(cur))
    return out


def rendered_pieces(r):
    return pieces_of([c[0] + c[2].text for c in r.cells], r.cells, r.tail[0])


def count_main_rules(main_stmts, is_import):
    """k: rules of the main text without its import statements, Python parser."""
    own = [s for s, imp in zip(main_stmts, is_import) if not imp]
    if not own:
        return 0
    st, payload = parsers.parse_one(noise.render(own, trailing=True).text, 'PY')
    return len(payload) if st == 'ok' else None


TREE_CORRUPTIONS = ['missing_file', 'undefined_predicate', 'unused_import', 'cycle',
                    'duplicated_as', 'lowercase_predicate', 'shared_base_name',
                    'file_is_broken']


def corrupt_tree(tree, files, main_stmts, rng, salt):
    """one import-level breakage -> (name, files', main statements') or None."""
    kind = TREE_CORRUPTIONS[(rng.randrange(len(TREE_CORRUPTIONS)) + salt) %
                            len(TREE_CORRUPTIONS)]
    main = tree['mods'][0]
    files = dict(files)
    stmts = list(main_stmts)
    idx = [i for i, imp in enumerate(main['is_import']) if imp]
    if not idx:
        return None
    i = idx[rng.randrange(len(idx))]
    path_tok = stmts[i][1]
    full = path_tok.text
    fpath, pred = full.rsplit('.', 1)
    if kind == 'missing_file':
        stmts[i] = [stmts[i][0], path_tok.copy(text=fpath + '_nofile.' + pred)] + stmts[i][2:]
    elif kind == 'undefined_predicate':
        stmts[i] = [stmts[i][0], path_tok.copy(text=fpath + '.Nowhere9')] + stmts[i][2:]
        if len(stmts[i]) == 2:      # keep it used under its new name
            stmts.append([Tok('UseN', 'name'), Tok('(', 'open', glue=True),
                          Tok(')', 'close'), Tok(':-', 'sep', pre=' '),
                          Tok('Nowhere9', 'name', pre=' '), Tok('(', 'open', glue=True),
                          Tok(')', 'close')])
    elif kind == 'unused_import':
        stmts.append(import_stmt(fpath, pred, 'Unused7'))
    elif kind == 'cycle':
        rel = rel_of(fpath)
        files[rel] = 'import %s.%s;\n' % (fpath, pred) + files[rel]
    elif kind == 'duplicated_as':
        stmts[i] = stmts[i][:2] + [Tok(' as ', 'kw'), Tok('Dup1', 'name'),
                                   Tok(' as ', 'kw'), Tok('Dup2', 'name')]
    elif kind == 'lowercase_predicate':
        stmts[i] = [stmts[i][0], path_tok.copy(text=fpath + '.' + pred[0].lower() + pred[1:])] + \
            stmts[i][2:]
    elif kind == 'shared_base_name':
        base = fpath.split('.')[-1]
        other = 'zz_other.' + base
        files[rel_of(other)] = 'Shared(1);\n'
        stmts.append(import_stmt(other, 'Shared', None))
        stmts.append([Tok('UseS', 'name'), Tok('(', 'open', glue=True),
                      Tok(')', 'close'), Tok(':-', 'sep', pre=' '),
                      Tok('Shared', 'name', pre=' '), Tok('(', 'open', glue=True),
                      Tok(')', 'close')])
    elif kind == 'file_is_broken':
        rel = rel_of(fpath)
        files[rel] = files[rel] + '\nBroken(x :- ;\n'
    return kind, files, stmts


def make_cases(rng, salt=0):
    """-> (cases, feats, excluded) like c06.make_texts."""
    tree = gen_tree(rng)
    files = render_files(tree, rng)
    main = tree['mods'][0]
    excluded = {}
    if EXCLUDE_IMPORT_LAYOUT:
        excluded['finding:' + RISK_IMPORT] = sum(1 for x in main['is_import'] if x)
    k = count_main_rules(main['stmts'], main['is_import'])
    base = noise.render(main['stmts'], trailing=rng.random() < 0.7)
    noisy = noise.render(main['stmts'], rng, p_noise=[0.08, 0.25, 0.5][rng.randrange(3)],
                         p_paren=[0.0, 0.1, 0.3][rng.randrange(3)],
                         trailing=rng.random() < 0.5)
    if noisy.stats.get('excluded_den_paren'):
        excluded['finding:' + noise.RISK_DEN] = noisy.stats['excluded_den_paren']
    cases = [{'kind': 'tree', 'files': files, 'pieces': rendered_pieces(base),
              'corruption': None, 'main_rules': k},
             {'kind': 'noisy', 'files': files, 'pieces': rendered_pieces(noisy),
              'corruption': None, 'main_rules': k, 'of': 'tree',
              'noise': dict(noisy.stats)}]
    risks = noisy.risks()
    if risks:
        alt = {r: rendered_pieces(noisy.without([r])) for r in risks}
        if len(risks) > 1:
            alt['+'.join(risks)] = rendered_pieces(noisy.without(risks))
        cases[1]['alt'] = alt
    # one import-level breakage
    c = corrupt_tree(tree, files, main['stmts'], rng, salt)
    if c is not None:
        name, files2, stmts2 = c
        r2 = noise.render(stmts2, trailing=True)
        cases.append({'kind': 'corrupt', 'of': 'tree', 'files': files2,
                      'pieces': rendered_pieces(r2), 'corruption': ['tree_' + name, None, None],
                      'main_rules': None})
    # one catalogue corruption of the main text
    c = noise.pick_corruption(base.cells, rng, salt)
    if c is not None:
        ex = noise.excluded_class(base.cells, c)
        texts = noise.apply_corruption_cells(base, c)
        pieces = pieces_of(texts, base.cells, base.tail[0])
        if ex is None:
            ex = noise.excluded_text(''.join(pieces))
        if ex:
            excluded[ex] = excluded.get(ex, 0) + 1
        else:
            cases.append({'kind': 'corrupt', 'of': 'tree', 'files': files, 'pieces': pieces,
                          'corruption': [c[0], c[2], base.cells[c[1]][2].text],
                          'main_rules': None})
    for case in cases:
        case['key'] = ''.join(case['pieces']) + '\0' + '\0'.join(
            '%s\0%s' % kv for kv in sorted(case['files'].items()))
    return cases, sorted(tree['feats']), excluded


# ------------------------------------------------------------------ evaluation

def main_prefix(rules, pieces):
    """fallback k for a case without a stored one: the leading rules whose full_text
    occurs in the main text."""
    text = ''.join(pieces)
    k = 0
    for r in rules:
        if isinstance(r, dict) and str(r.get('full_text', '\0')) in text:
            k += 1
        else:
            break
    return k


def evaluate(case, verdict, attribute_layout):
    """-> (fails, info); verdict, attribute_layout: c06's."""
    d = write_tree(case['files'])
    try:
        text = ''.join(case['pieces'])
        k = case.get('main_rules')
        if k is None:
            st, payload = parsers.parse_one(text, 'PY', d)
            k = main_prefix(payload, case['pieces']) if st == 'ok' else 0
        fails, info = verdict(text, import_root=d, main_rules=k)
        fails = attribute_layout(
            case, fails, lambda t: verdict(t, import_root=d, main_rules=k)[0])
        # diagnostics quote the temporary directory: keep buckets stable
        fails = [(b.replace(d, '<tmp>'), x.replace(d, '<tmp>')) for b, x in fails]
        return fails, info
    finally:
        shutil.rmtree(d, ignore_errors=True)
