"""Per-dialect SQL lexers + a block scoper (oracle of C09, static half of C10).

The lexers are written from each engine's documented lexical rules, NOT from the
compiler under test:

  engine      '...' literal                  "..."              `...`   other
  ----------  -----------------------------  -----------------  ------  ----------------
  sqlite      '' doubles, no backslash       identifier (falls  ident   [..] ident (not
                                              back to a string)          used), x'..' blob
  psql        '' doubles, no backslash       identifier         -       E'..' C escapes,
              (standard_conforming_strings)                              $tag$..$tag$,
                                                                         nested /* */
  duckdb      '' doubles, no backslash       identifier         -       E'..' C escapes,
                                                                         $tag$..$tag$
  trino       '' doubles, no backslash       identifier         -
  presto      '' doubles, no backslash       identifier         -
  clickhouse  backslash escapes AND ''       identifier         ident   `# ` / `#!` comment
  bigquery    backslash escapes, no ''       string (same)      ident   # comment, r/b
              no raw newline                                             prefixes, ''' \"\"\"
  databricks  backslash escapes, no ''       string (same)      ident   r prefix, nested
                                                                         /* */

All of them: `--` to end of line and `/* */` comments, numbers, identifiers.

Tokens are tuples (kind, text, start, end, extra):
  kind  'str'   text = DECODED value, extra = quote style ("'", '"', "E'", '$', ...)
        'qid'   quoted identifier (text = name)
        'dq'    SQLite double-quoted token (identifier or string), text = decoded
        'id' / 'kw' / 'num' / 'op' / 'comment'
"""
import re

ENGINES = ['sqlite', 'duckdb', 'psql', 'bigquery', 'trino', 'presto', 'clickhouse',
           'databricks']

KEYWORDS = {
    'select', 'from', 'where', 'group', 'by', 'order', 'limit', 'union', 'all', 'as',
    'with', 'and', 'or', 'not', 'is', 'null', 'in', 'case', 'when', 'then', 'else',
    'end', 'cast', 'distinct', 'true', 'false', 'exists', 'create', 'table', 'drop',
    'if', 'replace', 'attach', 'database', 'detach', 'on', 'desc', 'asc', 'having',
    'recursive', 'join', 'left', 'right', 'inner', 'outer', 'cross', 'lateral',
    'over', 'partition', 'rows', 'between', 'preceding', 'current', 'row',
    'unbounded', 'offset', 'except', 'intersect', 'using', 'natural', 'full',
}


class LexError(Exception):
    """The text is not a sequence of well-formed tokens of the dialect."""


SPEC = {
    #              backslash in '..'  '' doubles  "..." is      `..`     E''    $$     #-comment       nested /* */
    'sqlite':     dict(bs=False, dbl=True,  dq='dq',  bq='qid', e=False, dollar=False, hash=None, nest=False),
    'psql':       dict(bs=False, dbl=True,  dq='qid', bq=None,  e=True,  dollar=True,  hash=None, nest=True),
    'duckdb':     dict(bs=False, dbl=True,  dq='qid', bq=None,  e=True,  dollar=True,  hash=None, nest=False),
    'trino':      dict(bs=False, dbl=True,  dq='qid', bq=None,  e=False, dollar=False, hash=None, nest=False),
    'presto':     dict(bs=False, dbl=True,  dq='qid', bq=None,  e=False, dollar=False, hash=None, nest=False),
    'clickhouse': dict(bs=True,  dbl=True,  dq='qid', bq='qid', e=False, dollar=False, hash='sp', nest=True),
    'bigquery':   dict(bs=True,  dbl=False, dq='str', bq='qid', e=False, dollar=False, hash='any', nest=False),
    'databricks': dict(bs=True,  dbl=False, dq='str', bq='qid', e=False, dollar=False, hash=None, nest=True),
}

_SIMPLE_ESC = {
    # C-style escapes of PostgreSQL / DuckDB E'' strings
    'pg': {'b': '\b', 'f': '\f', 'n': '\n', 'r': '\r', 't': '\t'},
    # ClickHouse: \b \f \r \n \t \0 \a \v  (\xHH), anything else -> the character
    'clickhouse': {'b': '\b', 'f': '\f', 'n': '\n', 'r': '\r', 't': '\t', '0': '\0',
                   'a': '\a', 'v': '\v'},
    # BigQuery: \a \b \f \n \r \t \v \\ \? \" \' \`  ; others are errors
    'bigquery': {'a': '\a', 'b': '\b', 'f': '\f', 'n': '\n', 'r': '\r', 't': '\t',
                 'v': '\v', '\\': '\\', '?': '?', '"': '"', "'": "'", '`': '`'},
    # Databricks / Spark: \0 \b \n \r \t \Z ; \% and \_ keep the backslash;
    # anything else -> the character
    'databricks': {'0': '\0', 'b': '\b', 'n': '\n', 'r': '\r', 't': '\t',
                   'Z': '\x1a'},
}

_HEX = '0123456789abcdefABCDEF'


def _hexrun(sql, j, k, what):
    h = sql[j:j + k]
    if len(h) != k or any(c not in _HEX for c in h):
        raise LexError('bad %s escape at %d' % (what, j))
    return h


def _escape(sql, j, family):
    """sql[j] is the character after a backslash; -> (decoded text, next index)."""
    n = len(sql)
    if j >= n:
        raise LexError('unterminated string literal (backslash at end of text)')
    c = sql[j]
    table = _SIMPLE_ESC[family]
    if family == 'pg':
        if c in table:
            return table[c], j + 1
        if c in '01234567':
            k = j
            while k < n and k < j + 3 and sql[k] in '01234567':
                k += 1
            return chr(int(sql[j:k], 8) & 0xff), k
        if c == 'x' and j + 1 < n and sql[j + 1] in _HEX:
            k = j + 1
            while k < n and k < j + 3 and sql[k] in _HEX:
                k += 1
            return chr(int(sql[j + 1:k], 16)), k
        if c == 'u':
            return chr(int(_hexrun(sql, j + 1, 4, 'unicode'), 16)), j + 5
        if c == 'U':
            return chr(int(_hexrun(sql, j + 1, 8, 'unicode'), 16)), j + 9
        return c, j + 1
    if family == 'clickhouse':
        if c in table:
            return table[c], j + 1
        if c == 'x' and sql[j + 1:j + 3] and all(h in _HEX for h in sql[j + 1:j + 3]) \
                and len(sql[j + 1:j + 3]) == 2:
            return chr(int(sql[j + 1:j + 3], 16)), j + 3
        if c == 'N':
            return '\\N', j + 1
        return c, j + 1
    if family == 'bigquery':
        if c in table:
            return table[c], j + 1
        if c in '0123':
            h = sql[j:j + 3]
            if len(h) != 3 or any(x not in '01234567' for x in h):
                raise LexError('bad octal escape at %d' % j)
            return chr(int(h, 8)), j + 3
        if c in 'xX':
            return chr(int(_hexrun(sql, j + 1, 2, 'hex'), 16)), j + 3
        if c == 'u':
            return chr(int(_hexrun(sql, j + 1, 4, 'unicode'), 16)), j + 5
        if c == 'U':
            return chr(int(_hexrun(sql, j + 1, 8, 'unicode'), 16)), j + 9
        raise LexError('illegal escape sequence \\%s at %d' % (c, j))
    if family == 'databricks':
        if c in table:
            return table[c], j + 1
        if c in '%_':
            return '\\' + c, j + 1
        if c == 'u' and len(sql[j + 1:j + 5]) == 4 and \
                all(h in _HEX for h in sql[j + 1:j + 5]):
            return chr(int(sql[j + 1:j + 5], 16)), j + 5
        if c == 'U' and len(sql[j + 1:j + 9]) == 8 and \
                all(h in _HEX for h in sql[j + 1:j + 9]):
            return chr(int(sql[j + 1:j + 9], 16)), j + 9
        if c in '01' and len(sql[j:j + 3]) == 3 and \
                all(x in '01234567' for x in sql[j:j + 3]):
            return chr(int(sql[j:j + 3], 8)), j + 3
        return c, j + 1
    raise AssertionError(family)


def _utf16_join(s):
    """\\uD83D\\uDE00 style surrogate pairs (JSON habit) -> one code point."""
    if not any('\ud800' <= c <= '\udfff' for c in s):
        return s
    try:
        return s.encode('utf-16', 'surrogatepass').decode('utf-16')
    except UnicodeDecodeError:
        return s


def _quoted(sql, i, q, family, dbl, multiline, what):
    """Scan a quoted run starting at the opening quote sql[i] == q.
    family: backslash-escape family or None.  -> (decoded, index after closing)."""
    n = len(sql)
    j = i + 1
    out = []
    while True:
        if j >= n:
            raise LexError('unterminated %s starting at %d: %r' % (
                what, i, sql[i:i + 40]))
        ch = sql[j]
        if family and ch == '\\':
            txt, j = _escape(sql, j + 1, family)
            out.append(txt)
            continue
        if ch == q:
            if dbl and sql[j + 1:j + 2] == q:
                out.append(q)
                j += 2
                continue
            return _utf16_join(''.join(out)), j + 1
        if ch == '\n' and not multiline:
            raise LexError('line break inside %s starting at %d' % (what, i))
        out.append(ch)
        j += 1


_NUM = re.compile(r'(\d+(\.\d*)?|\.\d+)([eE][-+]?\d+)?')
_ID = re.compile(r'[^\W\d]\w*', re.UNICODE)
_OPS = ('::', '||', '<=', '>=', '!=', '<>', '->>', '->', '==', '<<', '>>')
_DOLLAR = re.compile(r'\$([A-Za-z_][A-Za-z_0-9]*)?\$')


def lex(sql, engine, keep_comments=False):
    """-> list of tokens; raises LexError on an unterminated literal/comment."""
    sp = SPEC[engine]
    toks = []
    i, n = 0, len(sql)
    bsfam = {'clickhouse': 'clickhouse', 'bigquery': 'bigquery',
             'databricks': 'databricks'}.get(engine)
    while i < n:
        c = sql[i]
        if c.isspace():
            i += 1
            continue
        two = sql[i:i + 2]
        if two == '--' or (c == '#' and (
                sp['hash'] == 'any' or
                (sp['hash'] == 'sp' and sql[i + 1:i + 2] in (' ', '!')))):
            j = sql.find('\n', i)
            j = n if j < 0 else j
            if keep_comments:
                toks.append(('comment', sql[i:j], i, j, None))
            i = j
            continue
        if two == '/*':
            depth, j = 1, i + 2
            while depth:
                a = sql.find('*/', j)
                if a < 0:
                    raise LexError('unterminated comment starting at %d' % i)
                b = sql.find('/*', j) if sp['nest'] else -1
                if 0 <= b < a:
                    depth += 1
                    j = b + 2
                else:
                    depth -= 1
                    j = a + 2
            if keep_comments:
                toks.append(('comment', sql[i:j], i, j, None))
            i = j
            continue
        if c == '$' and sp['dollar']:
            m = _DOLLAR.match(sql, i)
            if m:
                tag = m.group(0)
                j = sql.find(tag, m.end())
                if j < 0:
                    raise LexError('unterminated dollar quote at %d' % i)
                toks.append(('str', sql[m.end():j], i, j + len(tag), '$'))
                i = j + len(tag)
                continue
        # prefixed strings
        if c in 'eE' and sp['e'] and sql[i + 1:i + 2] == "'":
            val, j = _quoted(sql, i + 1, "'", 'pg', True, True, "E'' string")
            toks.append(('str', val, i, j, "E'"))
            i = j
            continue
        if engine in ('bigquery', 'databricks') and c in 'rRbB' and \
                re.match(r'(?i)(r|b|rb|br)[\'"]', sql[i:i + 3]):
            m = re.match(r'(?i)(r|b|rb|br)', sql[i:i + 2])
            pre = m.group(1).lower()
            k = i + len(pre)
            fam = None if 'r' in pre else bsfam
            if engine == 'bigquery' and sql[k:k + 3] in ("'''", '"""'):
                val, j = _triple(sql, k, fam)
            else:
                val, j = _quoted(sql, k, sql[k], fam, False, engine != 'bigquery',
                                 'prefixed string')
            toks.append(('str', val, i, j, pre + sql[k]))
            i = j
            continue
        if c == "'":
            if engine == 'bigquery' and sql[i:i + 3] == "'''":
                val, j = _triple(sql, i, bsfam)
            else:
                val, j = _quoted(sql, i, "'", bsfam if sp['bs'] else None, sp['dbl'],
                                 engine != 'bigquery', 'string literal')
            toks.append(('str', val, i, j, "'"))
            i = j
            continue
        if c == '"':
            kind = sp['dq']
            if kind == 'str':
                if engine == 'bigquery' and sql[i:i + 3] == '"""':
                    val, j = _triple(sql, i, bsfam)
                else:
                    val, j = _quoted(sql, i, '"', bsfam, False, engine != 'bigquery',
                                     'string literal')
                toks.append(('str', val, i, j, '"'))
            else:
                fam = 'clickhouse' if engine == 'clickhouse' else None
                val, j = _quoted(sql, i, '"', fam, True, True, 'quoted identifier')
                toks.append((kind, val, i, j, '"'))
            i = j
            continue
        if c == '`':
            if sp['bq'] is None:
                raise LexError('backquote is not a token of %s (at %d)' % (engine, i))
            fam = 'clickhouse' if engine == 'clickhouse' else None
            val, j = _quoted(sql, i, '`', fam, engine != 'bigquery', True,
                             'backquoted identifier')
            toks.append(('qid', val, i, j, '`'))
            i = j
            continue
        if c.isdigit() or (c == '.' and sql[i + 1:i + 2].isdigit() and
                           not (toks and toks[-1][0] in ('id', 'qid', 'dq') and
                                toks[-1][3] == i) and
                           not (toks and toks[-1][0] == 'op' and toks[-1][1] == ')' and
                                toks[-1][3] == i)):
            m = _NUM.match(sql, i)
            toks.append(('num', m.group(), i, m.end(), None))
            i = m.end()
            continue
        m = _ID.match(sql, i)
        if m:
            w = m.group()
            toks.append(('kw' if w.lower() in KEYWORDS else 'id', w, i, m.end(), None))
            i = m.end()
            continue
        for op in _OPS:
            if sql.startswith(op, i):
                toks.append(('op', op, i, i + len(op), None))
                i += len(op)
                break
        else:
            toks.append(('op', c, i, i + 1, None))
            i += 1
    return toks


def _triple(sql, i, fam):
    q = sql[i:i + 3]
    j = i + 3
    out = []
    n = len(sql)
    while True:
        if j >= n:
            raise LexError('unterminated triple-quoted string at %d' % i)
        if fam and sql[j] == '\\':
            txt, j = _escape(sql, j + 1, fam)
            out.append(txt)
            continue
        if sql.startswith(q, j):
            return ''.join(out), j + 3
        out.append(sql[j])
        j += 1


def shape(toks):
    """Token shape: literal values blanked, layout and comments ignored."""
    return [(t[0], '?' if t[0] in ('str', 'dq') else t[1]) for t in toks
            if t[0] != 'comment']


def strings(toks):
    return [t[1] for t in toks if t[0] in ('str', 'dq')]


# ------------------------------------------------------------------------ scoper

class Problem(object):
    __slots__ = ('kind', 'text')

    def __init__(self, kind, text):
        self.kind, self.text = kind, text

    def __repr__(self):
        return '%s: %s' % (self.kind, self.text)


OPEN = {'(': ')', '[': ']', '{': '}'}
CLOSE = {')': '(', ']': '[', '}': '{'}


def _isop(t, v):
    return t[0] == 'op' and t[1] == v


def _iskw(t, v):
    return t[0] == 'kw' and t[1].lower() == v


def _isname(t):
    return t[0] in ('id', 'qid', 'dq')


class Scoper(object):
    """Checks one SQL text (possibly several `;`-separated statements)."""

    def __init__(self, sql, engine, externals=()):
        self.engine = engine
        self.sql = sql
        self.problems = []
        self.externals = set(externals)
        self.stats = {'selects': 0, 'from_aliases': 0, 'subqueries': 0,
                      'with_tables': 0, 'alias_refs': 0, 'aux_refs': 0,
                      'table_refs': 0}
        self.created = set()
        self.toks = []
        self.alias_ref_toks = []      # token indices: heads of alias.column
        self.table_ref_toks = []      # token indices: unqualified FROM tables

    def p(self, kind, text):
        self.problems.append(Problem(kind, text))

    # ---- lexical level
    def run(self):
        try:
            alltoks = lex(self.sql, self.engine, keep_comments=True)
        except LexError as e:
            self.p('lex', str(e))
            return self
        self.placeholders(alltoks)
        self.toks = toks = [t for t in alltoks if t[0] != 'comment']
        # brackets
        st = []
        self.mate = {}
        for k, t in enumerate(toks):
            if t[0] != 'op':
                continue
            if t[1] in OPEN:
                st.append(k)
            elif t[1] in CLOSE:
                if not st or toks[st[-1]][1] != CLOSE[t[1]]:
                    self.p('unbalanced', 'closing %s at offset %d matches nothing: %r' % (
                        t[1], t[2], self.sql[max(0, t[2] - 30):t[2] + 10]))
                    return self
                self.mate[st.pop()] = k
        if st:
            t = toks[st[-1]]
            self.p('unbalanced', 'unclosed %s at offset %d: %r' % (
                t[1], t[2], self.sql[t[2]:t[2] + 40]))
            return self
        # statements
        s = 0
        k = 0
        n = len(toks)
        while k <= n:
            if k == n or _isop(toks[k], ';'):
                if k > s:
                    self.statement(s, k)
                s = k + 1
                k += 1
            elif toks[k][0] == 'op' and toks[k][1] in OPEN:
                k = self.mate[k] + 1
            else:
                k += 1
        return self

    def placeholders(self, toks):
        for k, t in enumerate(toks):
            kind, text = t[0], t[1]
            if kind == 'comment':
                low = text.lower()
                if 'nil' in re.findall(r'[a-z_]+', low) and text.startswith('/*'):
                    self.p('placeholder', 'rule marked for deletion leaked: %s' % text)
                if 'disambiguated' in low:
                    self.p('placeholder', 'variable disambiguation marker: %s' % text[:60])
                continue
            if kind == 'id':
                if text == 'UNUSED' or text == 'DUMMY':
                    self.p('placeholder', 'template placeholder %s at %d' % (text, t[2]))
                if text.startswith('UNDEFINED_'):
                    self.p('placeholder', 'undefined variable marker %s' % text)
                if text == 'disambiguated':
                    self.p('placeholder', 'variable disambiguation marker at %d' % t[2])
            if kind == 'op' and text == '#':
                self.p('placeholder', 'stray # at %d: %r' % (t[2], self.sql[t[2]:t[2] + 40]))
            if kind == 'op' and text == '%' and k + 1 < len(toks):
                nx = toks[k + 1]
                if nx[2] == t[3] and nx[0] in ('id', 'kw') and nx[1] in ('s', 'd', 'r'):
                    self.p('placeholder', 'unfilled %%%s at %d' % (nx[1], t[2]))
            if kind == 'op' and text == '{' and k + 2 < len(toks):
                a, b = toks[k + 1], toks[k + 2]
                if _isop(a, '}'):
                    if self.engine != 'duckdb':
                        self.p('placeholder', 'unfilled {} at %d' % t[2])
                elif a[0] in ('num', 'id') and _isop(b, '}'):
                    self.p('placeholder', 'unfilled {%s} at %d' % (a[1], t[2]))

    # ---- statements
    def statement(self, lo, hi):
        toks = self.toks
        # CREATE [OR REPLACE] [TEMP] TABLE name AS <query>; DROP ...; ATTACH ...; SET ...
        k = lo
        if _iskw(toks[lo], 'create'):
            # remember created table names (may be referenced by later statements)
            q = lo
            while q < hi and not _iskw(toks[q], 'as') and not _isop(toks[q], '('):
                q += 1
            name = []
            r = q - 1
            while r > lo and (_isname(toks[r]) or _isop(toks[r], '.')):
                name.append(toks[r][1])
                r -= 1
            if name:
                self.created.add(''.join(reversed(name)))
        while k < hi:
            t = toks[k]
            if _iskw(t, 'select') or _iskw(t, 'with'):
                self.query(k, hi, {}, set())
                return
            if t[0] == 'op' and t[1] == '(' and k + 1 < hi and (
                    _iskw(toks[k + 1], 'select') or _iskw(toks[k + 1], 'with')):
                self.query(k, hi, {}, set())
                return
            if t[0] == 'op' and t[1] in OPEN:
                k = self.mate[k] + 1
            else:
                k += 1

    def split0(self, lo, hi, pred):
        """Indices k in [lo, hi) at bracket depth 0 with pred(token)."""
        out = []
        k = lo
        toks = self.toks
        while k < hi:
            t = toks[k]
            if t[0] == 'op' and t[1] in OPEN:
                k = self.mate[k] + 1
                continue
            if pred(t):
                out.append(k)
            k += 1
        return out

    # ---- query expression: [WITH ...] select { UNION [ALL] select }
    def query(self, lo, hi, outer, withs):
        toks = self.toks
        withs = set(withs)
        i = lo
        if i < hi and _iskw(toks[i], 'with'):
            i += 1
            recursive = False
            if i < hi and _iskw(toks[i], 'recursive'):
                recursive = True
                i += 1
            while True:
                if i >= hi or not _isname(toks[i]):
                    self.p('shape', 'WITH item without a name near %r' % self.near(i))
                    return
                name = toks[i][1]
                i += 1
                if i < hi and _isop(toks[i], '('):      # column list
                    i = self.mate[i] + 1
                if not (i < hi and _iskw(toks[i], 'as')):
                    self.p('shape', 'WITH %s: AS expected near %r' % (name, self.near(i)))
                    return
                i += 1
                if not (i < hi and _isop(toks[i], '(')):
                    self.p('shape', 'WITH %s: ( expected near %r' % (name, self.near(i)))
                    return
                j = self.mate[i]
                if name in withs:
                    self.p('with_redefined', 'WITH table %s defined twice' % name)
                self.stats['with_tables'] += 1
                self.query(i + 1, j, outer, withs | ({name} if recursive else set()))
                withs.add(name)
                i = j + 1
                if i < hi and _isop(toks[i], ','):
                    i += 1
                    continue
                break
        # set operations at depth 0
        cuts = self.split0(i, hi, lambda t: t[0] == 'kw' and t[1].lower() in (
            'union', 'except', 'intersect'))
        s = i
        segs = []
        for c in cuts:
            segs.append((s, c))
            s = c + 1
            if s < hi and (_iskw(toks[s], 'all') or _iskw(toks[s], 'distinct')):
                s += 1
        segs.append((s, hi))
        for a, b in segs:
            self.select(a, b, outer, withs)

    def near(self, k):
        toks = self.toks
        if k >= len(toks):
            return '<end>'
        return self.sql[toks[k][2]:toks[k][2] + 40]

    def select(self, lo, hi, outer, withs):
        toks = self.toks
        if lo >= hi:
            self.p('shape', 'empty query segment')
            return
        if _isop(toks[lo], '(') and self.mate[lo] == hi - 1:
            return self.query(lo + 1, hi - 1, outer, withs)
        if _isop(toks[lo], '('):
            # ( query ) ORDER BY .. LIMIT ..   -- tail sees nothing new
            j = self.mate[lo]
            self.query(lo + 1, j, outer, withs)
            return
        if not _iskw(toks[lo], 'select'):
            self.p('shape', 'query segment does not start with SELECT: %r' % self.near(lo))
            return
        self.stats['selects'] += 1
        marks = {}
        for k in self.split0(lo + 1, hi, lambda t: t[0] == 'kw' and t[1].lower() in (
                'from', 'where', 'group', 'having', 'order', 'limit', 'offset')):
            w = toks[k][1].lower()
            if w not in marks:
                marks[w] = k
        f0 = marks.get('from')
        aliases = {}            # alias -> number of FROM items introducing it
        table_positions = set()  # token indices that are table names in FROM
        if f0 is not None:
            f1 = min([v for v in marks.values() if v > f0] + [hi])
            commas = self.split0(f0 + 1, f1, lambda t: _isop(t, ',') or (
                t[0] == 'kw' and t[1].lower() == 'join'))
            s = f0 + 1
            items = []
            for c in commas:
                items.append((s, c))
                s = c + 1
            items.append((s, f1))
            introduced = []
            for a, b in items:
                before = dict(aliases)
                self.from_item(a, b, aliases, table_positions, withs)
                introduced.append((a, b, [n for n in aliases
                                          if aliases[n] != before.get(n, 0)]))
            # a FROM item may use the aliases of items to its LEFT (lateral reference)
            # and of enclosing queries, never its own alias or one introduced further
            # right: "refers to an alias introduced by an enclosing FROM" is read
            # left-to-right, as every engine but SQLite does
            seen_left = set()
            for a, b, new in introduced:
                forbidden = set(aliases) - seen_left - set(outer)
                ases = self.split0(a, b, lambda t: _iskw(t, 'as'))
                body_end = ases[-1] if ases else b
                for k in range(a, body_end):
                    t = toks[k]
                    if not _isname(t) or t[1] not in forbidden:
                        continue
                    if k > a and _isop(toks[k - 1], '.'):
                        continue                      # a column named like an alias
                    dotted = k + 1 < body_end and _isop(toks[k + 1], '.')
                    bare_var = re.match(r'^x_[0-9]+$', t[1]) is not None
                    if dotted or bare_var:
                        self.p('alias_scope',
                               'FROM item refers to alias %s which is introduced by the '
                               'same or a later FROM item (forward reference) near %r'
                               % (t[1], self.near(k)))
                        break
                seen_left |= set(new)
        scope = dict(outer)
        scope.update(aliases)
        self.stats['from_aliases'] += len(aliases)
        self.walk(lo + 1, hi, scope, withs, table_positions)

    def from_item(self, a, b, aliases, table_positions, withs):
        toks = self.toks
        # strip join decorations / ON condition (not produced by the compiler, but legal)
        while a < b and toks[a][0] == 'kw' and toks[a][1].lower() in (
                'left', 'right', 'inner', 'outer', 'cross', 'full', 'natural', 'lateral'):
            a += 1
        on = self.split0(a, b, lambda t: _iskw(t, 'on') or _iskw(t, 'using'))
        if on:
            b = on[0]
        while b > a and toks[b - 1][0] == 'kw' and toks[b - 1][1].lower() in (
                'left', 'right', 'inner', 'outer', 'cross', 'full', 'natural'):
            b -= 1
        if a >= b:
            self.p('shape', 'empty FROM item near %r' % self.near(a))
            return
        ases = self.split0(a, b, lambda t: _iskw(t, 'as'))
        body_end = b
        names = []
        if ases:
            k = ases[-1]
            body_end = k
            if k + 1 >= b or not _isname(toks[k + 1]):
                self.p('shape', 'FROM item: alias expected after AS near %r' % self.near(k))
                return
            names.append(toks[k + 1][1])
            if k + 2 < b and _isop(toks[k + 2], '('):
                # alias(column, ...): the column names are usable on their own
                j = self.mate[k + 2]
                for q in range(k + 3, j):
                    if _isname(toks[q]):
                        names.append(toks[q][1])
        else:
            # `table alias` or bare `table` / `schema.table`
            if b - a >= 2 and _isname(toks[b - 1]) and not _isop(toks[b - 2], '.'):
                names.append(toks[b - 1][1])
                body_end = b - 1
            elif _isname(toks[b - 1]):
                names.append(toks[b - 1][1])
        for nm in names:
            # the same alias twice in one FROM: harmless while nobody refers to it
            # (`UNNEST(a) as pushkin(x_1), UNNEST(b) as pushkin(x_2)`); a reference
            # alias.column to it does not designate one FROM item (checked in walk)
            aliases[nm] = aliases.get(nm, 0) + 1
        # table reference?
        if _isname(toks[a]):
            k = a
            parts = [toks[k][1]]
            table_positions.add(k)
            while k + 2 < body_end + 1 and k + 1 < body_end and _isop(toks[k + 1], '.') \
                    and k + 2 < body_end and _isname(toks[k + 2]):
                k += 2
                parts.append(toks[k][1])
                table_positions.add(k)
            if k + 1 == body_end:
                self.stats['table_refs'] += 1
                if len(parts) == 1:
                    nm = parts[0]
                    self.table_ref_toks.append(a)
                    if nm == 'nil':
                        self.p('placeholder', 'nil used as a table')
                    elif nm not in withs and nm not in self.externals and \
                            nm not in self.created:
                        self.p('unknown_table',
                               'table %s is not a WITH table defined earlier (known: %s)'
                               % (nm, sorted(withs)))
            else:
                # function-like FROM item: UNNEST(..), JSON_EACH(..), explode(..)
                table_positions.discard(a)

    def walk(self, lo, hi, scope, withs, table_positions):
        """Every token of this SELECT: recurse into sub-queries, check references."""
        toks = self.toks
        k = lo
        while k < hi:
            t = toks[k]
            if _isop(t, '(') and k + 1 < hi and (_iskw(toks[k + 1], 'select') or
                                                   _iskw(toks[k + 1], 'with')):
                j = self.mate[k]
                self.stats['subqueries'] += 1
                self.query(k + 1, j, scope, withs)
                k = j + 1
                continue
            if t[0] in ('id', 'qid') and k not in table_positions:
                prev = toks[k - 1] if k > 0 else None
                head = not (prev is not None and _isop(prev, '.') and prev[3] == t[2])
                nxt = toks[k + 1] if k + 1 < hi else None
                dotted = nxt is not None and _isop(nxt, '.') and k + 2 < hi and (
                    _isname(toks[k + 2]) or _isop(toks[k + 2], '*') or
                    toks[k + 2][0] == 'kw')
                if head and dotted:
                    self.stats['alias_refs'] += 1
                    self.alias_ref_toks.append(k)
                    if t[1] not in scope:
                        self.p('alias_scope', 'alias %s (in %s.%s) is not introduced by an '
                               'enclosing FROM; in scope: %s' % (
                                   t[1], t[1], toks[k + 2][1], sorted(scope)))
                    elif scope[t[1]] > 1:
                        self.p('alias_ambiguous', 'alias %s (in %s.%s) is introduced by '
                               '%d items of the same FROM' % (
                                   t[1], t[1], toks[k + 2][1], scope[t[1]]))
                elif head and t[0] == 'id' and re.fullmatch(r'x_\d+', t[1]):
                    # auxiliary unnest variable used bare
                    if not (prev is not None and _iskw(prev, 'as')) and \
                            not self.in_alias_decl(k):
                        self.stats['aux_refs'] += 1
                        if t[1] not in scope:
                            self.p('aux_scope', 'auxiliary variable %s is not introduced '
                                   'by an enclosing FROM; in scope: %s' % (
                                       t[1], sorted(scope)))
            k += 1

    def in_alias_decl(self, k):
        """x_3 inside `as pushkin(x_3)`."""
        toks = self.toks
        return k >= 3 and _isop(toks[k - 1], '(') and _isname(toks[k - 2]) and \
            _iskw(toks[k - 3], 'as')


def check(sql, engine, externals=()):
    """-> Scoper (problems list, stats)."""
    return Scoper(sql, engine, externals).run()


def problems(sql, engine, externals=()):
    return [repr(p) for p in check(sql, engine, externals).problems]


# ------------------------------------------------------------------------ self-test

_EXAMPLES = [
    # (engine, sql, expected decoded literals) -- from the engines' documentation
    ('bigquery', r'''SELECT "a\"b", 'it\'s', "é\n", r"a\b"''', ['a"b', "it's", 'é\n', 'a\\b']),
    ('psql', r"""SELECT 'a''b', 'a\', E'a\\b\'c\n', $$ x ' y $$, $t$ $$ $t$""",
     ["a'b", 'a\\', "a\\b'c\n", " x ' y ", ' $$ ']),
    ('clickhouse', r"""SELECT 'a\\b', 'a''b', 'a\'b', 'x\ty'""", ['a\\b', "a'b", "a'b", 'x\ty']),
    ('databricks', r'''SELECT "a\"b", 'é', 'a\\b' ''', ['a"b', 'é', 'a\\b']),
    ('sqlite', "SELECT 'a\\', \"$.a\", 'x''y' -- c 'q\n , 'z' /* ' */", ['a\\', '$.a', "x'y", 'z']),
    ('duckdb', r"""SELECT E'a\\b''c\t\n', 'p\q'""", ["a\\b'c\t\n", 'p\\q']),
    ('trino', r"""SELECT 'a\', 'b''c'""", ['a\\', "b'c"]),
    ('psql', "SELECT /* a /* nested */ 'x' */ 'y'", ['y']),
    ('trino', "SELECT /* a /* not nested */ 'y'", ['y']),
]
_BAD = [('clickhouse', r"SELECT 'a\'"), ('bigquery', 'SELECT "a\nb"'),
        ('bigquery', r'SELECT "a\qb"'), ('psql', "SELECT 'a"), ('trino', 'SELECT `a`')]


def selftest():
    for eng, sql, exp in _EXAMPLES:
        got = strings(lex(sql, eng))
        assert got == exp, (eng, sql, got, exp)
    for eng, sql in _BAD:
        try:
            lex(sql, eng)
        except LexError:
            continue
        raise AssertionError((eng, sql))
    ok = "WITH a AS (SELECT 1 AS c), b AS (SELECT a.c AS c FROM a) SELECT b.c FROM b"
    assert not check(ok, 'sqlite').problems
    assert [p.kind for p in check(ok.replace('b.c FROM b', 'z.c FROM b'), 'sqlite').problems] \
        == ['alias_scope']
    assert [p.kind for p in check(
        "WITH b AS (SELECT a.c AS c FROM a), a AS (SELECT 1 AS c) SELECT b.c FROM b",
        'sqlite').problems] == ['unknown_table']
    assert [p.kind for p in check("SELECT (1", 'psql').problems] == ['unbalanced']
    assert [p.kind for p in check("SELECT LEN({0})", 'duckdb').problems] == ['placeholder']
    return True


if __name__ == '__main__':
    selftest()
    print('sqlscope selftest ok')
