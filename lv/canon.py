"""Comparison of reference rows with rows returned by SQLite.

Numbers by value; composite values up to SQLite's JSON text encoding (a string
that parses as a JSON array/object is decoded, recursively: a list nested in a
record that crosses a table boundary comes back double-encoded); Bag (List/Set
aggregation) order-insensitively; Alt (ties) by membership."""
import json

from lv.ref import Bag, Alt


def decode(v):
    if isinstance(v, str) and v[:1] in '[{':
        try:
            return decode(json.loads(v))
        except ValueError:
            return v
    if isinstance(v, list):
        return [decode(x) for x in v]
    if isinstance(v, dict):
        return {k: decode(x) for k, x in v.items()}
    if isinstance(v, float) and v == int(v) and abs(v) < 1e15:
        return int(v)
    if isinstance(v, bool):
        return int(v)
    return v


def loose(v):
    """Order-insensitive hashable key (for pairing rows)."""
    if isinstance(v, (list, tuple)):
        return ('L',) + tuple(sorted((loose(x) for x in v), key=repr))
    if isinstance(v, dict):
        return ('D',) + tuple(sorted(((str(k), loose(x)) for k, x in v.items()),
                                     key=repr))
    if isinstance(v, bool):
        return int(v)
    if isinstance(v, float) and v == int(v):
        return int(v)
    return v


def has_alt(v):
    if isinstance(v, Alt):
        return True
    if isinstance(v, (list, tuple)):
        return any(has_alt(x) for x in v)
    if isinstance(v, dict):
        return any(has_alt(x) for x in v.values())
    return False


def match(exp, act, tol=0.0):
    """exp: reference value; act: decoded actual value."""
    if isinstance(exp, Alt):
        return any(match(o, act, tol) for o in exp.options)
    if exp is None:
        return act is None
    if isinstance(exp, bool):
        exp = int(exp)
    if isinstance(exp, (int, float)):
        if isinstance(act, bool) or not isinstance(act, (int, float)):
            return False
        if tol:
            return abs(exp - act) <= tol * max(1.0, abs(exp))
        return exp == act
    if isinstance(exp, str):
        return isinstance(act, str) and act == exp
    if isinstance(exp, Bag):
        if not isinstance(act, list) or len(act) != len(exp):
            return False
        rest = list(act)
        for x in exp:
            for i, y in enumerate(rest):
                if match(x, y, tol):
                    del rest[i]
                    break
            else:
                return False
        return True
    if isinstance(exp, (list, tuple)):
        return isinstance(act, list) and len(act) == len(exp) and all(
            match(x, y, tol) for x, y in zip(exp, act))
    if isinstance(exp, dict):
        return isinstance(act, dict) and set(map(str, exp)) == set(act) and all(
            match(x, act[str(k)], tol) for k, x in exp.items())
    raise TypeError(type(exp))


def rows_match(exp_rows, act_rows, ordered=False, tol=0.0):
    """exp_rows: list of tuples of reference values; act_rows: list of tuples of raw
    SQLite values.  Returns None if equal as multisets (lists if ordered) else a
    short description."""
    act = [tuple(decode(v) for v in r) for r in act_rows]
    exp = [tuple(r) for r in exp_rows]
    if len(exp) != len(act):
        return 'row count %d expected, %d actual' % (len(exp), len(act))
    if ordered:
        for i, (e, a) in enumerate(zip(exp, act)):
            if not (len(e) == len(a) and all(match(x, y, tol) for x, y in zip(e, a))):
                return 'row %d: expected %r actual %r' % (i, e, a)
        return None
    # fast path: rows without Bag/Alt pair up by their exact (order-sensitive) form
    import collections
    special_e = [i for i, e in enumerate(exp) if has_special(e)]
    if not tol:
        ce = collections.Counter(strict(e) for i, e in enumerate(exp)
                                 if i not in set(special_e))
        ca = collections.Counter(strict(a) for a in act)
        if not special_e:
            if ce != ca:
                return 'multisets differ: expected-only %r actual-only %r' % (
                    list((ce - ca).items())[:4], list((ca - ce).items())[:4])
            return None
        # remove the plain rows from the actual side, match the special ones
        left = ca - ce
        if ce - ca:
            return 'multisets differ: expected-only %r' % (list((ce - ca).items())[:4],)
        rest = []
        for a in act:
            k = strict(a)
            if left.get(k, 0) > 0:
                left[k] -= 1
                rest.append(a)
        exp = [exp[i] for i in special_e]
        act = rest
    if len(exp) > 400:
        return None if _greedy(exp, act, tol) else 'greedy matching failed on large result'
    adj = {i: [j for j in range(len(act)) if len(exp[i]) == len(act[j]) and
               all(match(x, y, tol) for x, y in zip(exp[i], act[j]))]
           for i in range(len(exp))}
    mt = {}

    def try_(i, seen):
        for j in adj[i]:
            if j in seen:
                continue
            seen.add(j)
            if j not in mt or try_(mt[j], seen):
                mt[j] = i
                return True
        return False
    for i in range(len(exp)):
        if not try_(i, set()):
            return 'no actual row matches expected row %r (candidates %r)' % (
                exp[i], act[:6])
    return None


def _greedy(exp, act, tol):
    rest = list(act)
    for e in exp:
        for j, a in enumerate(rest):
            if len(e) == len(a) and all(match(x, y, tol) for x, y in zip(e, a)):
                del rest[j]
                break
        else:
            return False
    return True


def has_special(v):
    if isinstance(v, (Alt, Bag)):
        return True
    if isinstance(v, (list, tuple)):
        return any(has_special(x) for x in v)
    if isinstance(v, dict):
        return any(has_special(x) for x in v.values())
    return False


def strict(v):
    """Order-sensitive hashable normal form (numbers by value)."""
    if isinstance(v, (list, tuple)):
        return ('L',) + tuple(strict(x) for x in v)
    if isinstance(v, dict):
        return ('D',) + tuple(sorted(((str(k), strict(x)) for k, x in v.items()),
                                     key=repr))
    if isinstance(v, bool):
        return int(v)
    if isinstance(v, float) and v == int(v) and abs(v) < 1e15:
        return int(v)
    return v
