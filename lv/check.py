"""CLI: python -m lv.check <ID> [--tier quick|thorough] [--replay path]

exit 0: property held on everything explored (KNOWN-FINDING lines possible)
exit 1: VIOLATION property=<ID> replay=<path>
exit 2: harness error (never prints VIOLATION)
"""
import argparse
import glob
import importlib
import json
import os
import sys
import time
import traceback

from lv import core


def known_match(mod, entry, bucket):
    if hasattr(mod, 'known_match'):
        return mod.known_match(entry, bucket)
    if bucket == entry['key']:
        return True
    # 'xxx:quirk:a+b' is attributed to the recorded deviations a and b together
    if ':quirk:' in bucket:
        names = bucket.split(':quirk:')[1].split('+')
        opened = OPEN_KEYS.get(entry['property'], set())
        return entry['key'] in names and all(n in opened for n in names)
    return False


OPEN_KEYS = {}


def main():
    ap = argparse.ArgumentParser()
    ap.add_argument('pid')
    ap.add_argument('--tier', default=os.environ.get('VERIF_TIER', 'quick'))
    ap.add_argument('--replay')
    ap.add_argument('--budget', type=int, default=None)
    a = ap.parse_args()
    pid = a.pid.upper()
    tier = a.tier if a.tier in ('quick', 'thorough') else 'quick'
    try:
        seed = int(os.environ.get('VERIF_SEED', '1'))
    except ValueError:
        seed = 1
    os.environ.setdefault('PYTHONHASHSEED', '0')
    t0 = time.time()
    try:
        core.setup_repo_imports()
        mod = importlib.import_module('lv.props.' + pid.lower())
        if a.replay:
            with open(a.replay) as f:
                rec = json.load(f)
            res = core.deep_call(mod.check_case, rec['case'])
            if res:
                for b, d in res:
                    print('replay fails: bucket=%s\n%s' % (b, d))
                print('VIOLATION property=%s replay=%s' % (pid, a.replay))
                sys.exit(1)
            print('replay passes')
            sys.exit(0)
        rc = run(pid, mod, tier, seed, a.budget, t0)
    except SystemExit:
        raise
    except BaseException:
        traceback.print_exc()
        print('HARNESS-ERROR property=%s' % pid)
        sys.exit(2)
    sys.exit(rc)


def run(pid, mod, tier, seed, budget, t0):
    known = core.load_known(pid)
    open_known = [e for e in known if e.get('status') == 'open']
    OPEN_KEYS[pid] = set(e['key'] for e in open_known)
    violations = []      # failures not covered by an open known finding
    known_hits = {}
    extra = {}

    # 1. replay tier: expected-pass seeds (regressions, fixed findings' repros)
    seed_files = sorted(glob.glob(os.path.join(core.VERIF, 'seeds', pid, '*.json')))
    n_seed_pass = 0
    for sf in seed_files:
        with open(sf) as f:
            rec = json.load(f)
        res = core.deep_call(mod.check_case, rec['case'])
        if res:
            for b, d in res:
                violations.append({'bucket': b, 'case': rec['case'], 'detail': d,
                                   'origin': 'seed:' + os.path.basename(sf)})
        else:
            n_seed_pass += 1
    for e in known:
        if e.get('status') == 'fixed' and e.get('repro') is not None:
            res = core.deep_call(mod.check_case, e['repro'])
            if res:
                for b, d in res:
                    violations.append({'bucket': b, 'case': e['repro'], 'detail': d,
                                       'origin': 'fixed-finding:' + e['key']})
            else:
                n_seed_pass += 1
    extra['replayed_expected_pass'] = n_seed_pass

    # 2. open known findings: their repro must still fail to be reported as KNOWN
    for e in open_known:
        res = core.deep_call(mod.check_case, e['repro']) if e.get('repro') is not None else []
        hit = [b for b, d in res if known_match(mod, e, b)]
        other = [(b, d) for b, d in res if not known_match(mod, e, b)]
        if hit:
            known_hits[e['key']] = known_hits.get(e['key'], 0) + 1
        else:
            print('NOTE: known finding %s no longer reproduces' % e['key'])
        for b, d in other:
            if not any(known_match(mod, e2, b) for e2 in open_known):
                violations.append({'bucket': b, 'case': e['repro'], 'detail': d,
                                   'origin': 'known-repro:' + e['key']})

    # 3. generated search
    total = budget if budget is not None else int(
        os.environ.get('VERIF_BUDGET', 0) or mod.BUDGET[tier])
    wall_limit = getattr(mod, 'WALL', {}).get(tier)
    col, herr = core.run_shards(pid, tier, seed, total, wall_limit=wall_limit,
                                nshards=getattr(mod, 'NSHARDS', None))
    if herr:
        for x in herr:
            print(x)
        print('HARNESS-ERROR property=%s (worker failure)' % pid)
        return 2
    seenb = set()
    for f in col.failures:
        e = next((e for e in open_known if known_match(mod, e, f['bucket'])), None)
        if e is not None:
            known_hits[e['key']] = known_hits.get(e['key'], 0) + 1
            continue
        if f['bucket'] in seenb:
            continue
        seenb.add(f['bucket'])
        violations.append(f)

    # 4. report
    for e in open_known:
        if known_hits.get(e['key']):
            print('KNOWN-FINDING: property=%s %s' % (pid, e['what']))
    paths = []
    for v in violations:
        p = core.write_replay(pid, v)
        paths.append(p)
        print('--- failing case (%s) bucket=%s\n%s' % (
            v.get('origin', 'generated'), v['bucket'], v.get('detail', '')[:2500]))
        print('VIOLATION property=%s replay=%s' % (pid, os.path.relpath(p, core.VERIF)))
    extra['known_finding_hits'] = known_hits
    extra['failure_buckets'] = dict(col._fail_count)
    if hasattr(mod, 'evidence_extra'):
        extra.update(mod.evidence_extra(col))
    wall = time.time() - t0
    ev = core.write_evidence(pid, tier, seed, col, mod.RULE, wall, len(violations),
                             extra=extra,
                             assumptions=getattr(mod, 'ASSUMPTIONS', []),
                             exhaustive=getattr(mod, 'EXHAUSTIVE', None))
    c = ev['coverage']
    print('%s tier=%s seed=%d evaluations=%d distinct_nontrivial=%d inconclusive=%s '
          'violations=%d wall=%.1fs' % (pid, tier, seed, c['evaluations'],
                                         c['distinct_nontrivial'],
                                         dict(col.inconclusive), len(violations), wall))
    if c['evaluations'] < 1 or c['distinct_nontrivial'] < 2:
        print('HARNESS-ERROR property=%s: vacuous run' % pid)
        return 2
    return 1 if violations else 0


if __name__ == '__main__':
    main()
