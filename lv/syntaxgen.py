"""Grammar-based *syntactic* program generator for C06 / C15 (derived from docs/syntax.md).

Not type-correct, not range-restricted: the only goal is to cover every statement form,
literal form, operator and denotation of the documented grammar (plus the forms the
repository's own integration programs use: `'..'`/triple-quoted strings, `-->`, `=>`,
`is [not]`, `..rest`, subscripts, `l[i]`, backticked / dotted tables, `2u`, `∞`,
`couldbe/cantbe/shouldbe`, `@Make`) with programs that both parsers are expected to
ACCEPT, so that tree comparison (C06) and layout invariance (C15) are not vacuous.

A program is produced as a token stream, not as text.  Tokens are those of the language
as both parsers implement it (DESIGN.md 1.6):

  Tok(text, kind, pre, glue, reg)
    pre   default layout printed before the token in the base text ('' | ' ' | '\n')
    glue  True: no *whitespace* may be inserted before this token (call / aggregation /
          subscript name glued to its bracket, field after '.'); a bare /* */ comment is
          still legal there because comments are deleted before parsing
    kind  'name' 'path' 'var' 'field' 'num' 'str' 'lit' 'open' 'close' 'sep' 'op'
          'aggop' 'kw' 'den' 'rest'
    reg   region tag ('den' inside order_by(...)/limit(...) arguments) used by the
          corruption catalogue to stay clear of known divergences

  ('E', items)   a whole expression: may be wrapped in redundant parentheses
  ('P', items)   a whole proposition (conjunct / disjunct / body): likewise

Keyword operators carry their blanks (' in ', ' is ', ' is not ', 'if ', 'combine ',
'else if'); multi-character operators are one token.  Printing rules that keep programs
acceptable (all observed on the unchanged tree, both parsers agree on every one):
unary operands and negative literals inside binary operators are parenthesised
(`a * -1` is rejected); contexts that are split on '=' (head value, aggregated field,
`combine Op=`, `v Op= e`) parenthesise operators containing '='; an operator is printed
without blanks only between two atoms (`x-(1)` is a call of `x-`).

All randomness comes from the `rng` passed in (a Hypothesis `st.randoms` object).
"""

import collections
import os


FINDING_KEYS = {'PIPE_EQ': 'pipe_eq_operator', 'DEN_NAMED': 'denotation_named_argument',
                'QUOTE_PY': 'quote_literal_not_python',
                'EMPTY_ARRAYSUB': 'cpp_empty_array_subscript',
                'EMPTY_BODY': 'combine_empty_body',
                'BODYLESS_AGG_LAYOUT': 'bodyless_aggregation_layout',
                'DEN_PAREN': 'denotation_parenthesised_argument',
                'ARRAYSUB_SPAN': 'cpp_array_subscript_heritage',
                'IMPORT_LAYOUT': 'import_layout'}
_fixed_keys = []


def _fixed():
    """keys of C06 / C15 findings that known_findings.json records as fixed (and not
    also as open under the other property)."""
    if not _fixed_keys:
        st = {}
        try:
            import json
            with open(os.path.join(os.path.dirname(os.path.dirname(
                    os.path.abspath(__file__))), 'known_findings.json')) as f:
                for e in json.load(f).get('findings', []):
                    if e.get('property') in ('C06', 'C15'):
                        st.setdefault(e.get('key'), set()).add(e.get('status'))
        except (OSError, ValueError):
            pass
        _fixed_keys.append(set(k for k, v in st.items() if v == {'fixed'}))
    return _fixed_keys[0]


def excluded(name):
    """Exclusion switch of a finding.  On while the finding is open (no entry, or an
    `open` entry, for its key in known_findings.json), off once every entry for the key
    says `fixed`; VERIF_SYNTAX_EXCLUDE_<NAME>=0 / =1 overrides.  Off means: the generator
    produces the input class again and the checks report it under the finding's key."""
    v = os.environ.get('VERIF_SYNTAX_EXCLUDE_' + name)
    if v is not None:
        return v != '0'
    return FINDING_KEYS[name] not in _fixed()


# FINDING bodyless_aggregation_layout (C15 both parsers, C06 for some shapes).
# `Max{y}` is accepted but `Max{ y }`, `Max{y\n}` and `Max{(y)}` are rejected by both
# parsers: the value of an `Op{..}` without `:- body` is parsed unstripped.  With a
# number the outcomes even differ: `Max{5 }` Python accepts (float() strips; the number
# keeps its blanks), C++ rejects; `Max{-2\n}` Python keeps the number "-2\n", C++ reads
# a unary minus.  While the exclusion is on, nothing but bare comments is put inside the
# braces and the expression is not parenthesised; the tokens concerned are tagged
# (Tok.risk) so that with the exclusion off the checks can name the class.
EXCLUDE_BODYLESS_AGG_LAYOUT = excluded('BODYLESS_AGG_LAYOUT')
RISK_AGG = 'bodyless_aggregation_layout'

# DOMAIN RESTRICTION (not a finding).  order_by(..) / limit(..) are documented nowhere
# (docs/syntax.md knows `distinct` only); the repository's programs put string literals
# into order_by and a number into limit.  The generator widens that to variables,
# operators, calls and aggregations as long as both parsers agree, with one exception:
# an aggregating expression inside the denotation of a rule WITHOUT a body
# (`P(1) order_by(Max{x})`) is left out, because it is neither documented nor used nor
# meaningful (there is nothing to aggregate over), and the Python parser fails on it
# with KeyError('operator') (the argument dicts are shared between the rule and the
# generated @OrderBy annotation and get rewritten twice) while the C++ parser accepts.
# VERIF_SYNTAX_WIDEN_DEN_AGG=1 generates the shape again (C06 then reports the bucket
# cpp_accepts_py_internal:KeyError:parse.py:Convert).
EXCLUDE_COMPACT_NEQ = os.environ.get('VERIF_SYNTAX_EXCLUDE_COMPACT_NEQ', '1') != '0'
DENOTATION_AGG_NEEDS_BODY = os.environ.get('VERIF_SYNTAX_WIDEN_DEN_AGG', '1') != '1'   # widened by default since fix 35d3486

# DOMAIN RESTRICTION (not a finding).  '..' literals are Python literals for the Python
# parser (ast.literal_eval) and "a conservative subset of Python's string escapes" for
# the C++ parser (its own comment); the literal form is not in docs/syntax.md.  The
# generator spells contents with the escapes the repository's programs use
# (\\ \' \" \n \r \t \xhh<0x80 \uhhhh \Uhhhhhhhh) - see sq_escape.

KEYWORDS = {'in', 'is', 'not', 'if', 'then', 'else', 'combine', 'import', 'as', 'distinct',
            'order_by', 'limit', 'couldbe', 'cantbe', 'shouldbe', 'true', 'false', 'null',
            'nil', 'inf', 'nan', 'infinity'}

VARS = ['x', 'y', 'z', 'a', 'b', 'c', 'n', 'm', 'k', 'v', 'w', 'r', 's', 't', 'l', 'xs',
        'x1', 'y2', 'a_b', '_u', 'foo', 'bar', 'col0', 'val', 'acc', 'p_1',
        # keywords inside identifiers: the alphanumeric separators (then, else, limit,
        # distinct, ..) must not split a word
        'elsewhere', 'then1', 'athen', 'limit2', 'distinct1', 'inx', 'isnot']
PREDS = ['P', 'Q', 'R', 'T', 'S', 'A', 'B', 'Foo', 'Bar2', 'My_Pred', 'Edge', 'Num', 'E0',
         'Parent', 'U_v']
FUNCS = ['F', 'G', 'ToString', 'Range', 'Size', 'Greatest', 'Substr', 'ToInt64', 'Abs']
AGGS = ['Sum', 'Max', 'Min', 'List', 'Count', 'Set', 'ArgMax', 'ArgMin', 'Array', 'Agg']
PATHS = ['a.b.T', 'data.tbl', 'ds.T2', '`a.b`', '`proj-1.ds.tbl`', '`t`', 'logica.Pq']
FIELDS = ['a', 'b', 'c', 'f', 'g', 'col0', 'col1', 'name', 'value_1', 'n2']
BT_FIELDS = ['`A`', '`My Col`', '`a,b`', '`x:y`', '`(`']
ANNOTS = ['@Ground', '@With', '@NoInject', '@OrderBy', '@Limit', '@Engine', '@Recursive',
          '@AttachDatabase', '@DefineFlag', '@Dataset', '@Iteration', '@CompileAsTvf']

BIN_OPS = ['||', '&&', '->', '==', '<=', '>=', '<', '>', '!=', '=', '++', '+', '-', '*',
           '/', '%', '^']
CMP_OPS = ['<', '>', '<=', '>=', '!=', '==', '=']
ARITH_OPS = ['+', '-', '*', '/', '%', '^', '++', '->', '&&', '||']
AGG_ASSIGN = ['+=', 'Max=', 'Min=', 'List=', '++=', '*=', 'Sum=', 'Set=', 'ArgMax=', 'Agg+=']

# pieces from which string contents are assembled: separators, brackets, comment
# markers, operators, keywords, quotes of the other kinds, non-ASCII of 2/3/4 UTF-8 bytes
NASTY = [',', ';', ':', '|', '~', '=', ':-', '?', '..', '=>', '->', '==', ':=', '-->', '.',
         '(', ')', '[', ']', '{', '}', '((', '}}', '#', '/*', '*/', '# c', '/* c */',
         ' in ', ' is ', ' is not ', 'if ', ' then ', ' else ', 'combine ', 'distinct',
         'limit', 'order_by', 'import ', ' as ', 'couldbe', '`', '%s', '$', '\\', '\\n',
         '||', '&&', '!', '+', '<', ' ', '  ', 'abc', 'Q(x)', 'x', '1', 'é', '∞', 'ж',
         '日本', '😀', 'ß']
COMMENT_WORDS = NASTY + ['"', "'", '"""', 'P(x) :- Q(x);', 'todo', '\t']


class Tok(object):
    __slots__ = ('text', 'kind', 'pre', 'glue', 'reg', 'risk')

    def __init__(self, text, kind, pre='', glue=False, reg='', risk=''):
        self.text = text
        self.kind = kind
        self.pre = pre
        self.glue = glue
        self.reg = reg
        self.risk = risk     # name of the finding whose input class layout HERE makes

    def copy(self, **kw):
        t = Tok(self.text, self.kind, self.pre, self.glue, self.reg, self.risk)
        for k, v in kw.items():
            setattr(t, k, v)
        return t

    def __repr__(self):
        return 'Tok(%r,%s%s%s)' % (self.text, self.kind, ',pre=%r' % self.pre if self.pre
                                   else '', ',glue' if self.glue else '')


def sq_escape(content, rng=None):
    """Spelling of `content` inside a '...' literal, using only the escapes both
    parsers document (\\\\ \\' \\" \\n \\r \\t \\xhh<0x80 \\uhhhh \\Uhhhhhhhh)."""
    out = []
    for ch in content:
        o = ord(ch)
        if ch == '\\':
            out.append('\\\\')
        elif ch == "'":
            out.append("\\'")
        elif ch == '\n':
            out.append('\\n')
        elif ch == '\t':
            out.append('\\t')
        elif ch == '\r':
            out.append('\\r')
        elif o < 32 or o == 127:
            out.append('\\x%02x' % o)
        elif o > 127 and rng is not None and rng.random() < 0.4:
            out.append('\\u%04x' % o if o <= 0xffff else '\\U%08x' % o)
        elif ch == '"' and rng is not None and rng.random() < 0.3:
            out.append('\\"')
        elif o < 127 and ch.isalpha() and rng is not None and rng.random() < 0.05:
            out.append('\\x%02x' % o)
        else:
            out.append(ch)
    return "'" + ''.join(out) + "'"


class Gen(object):
    def __init__(self, rng, max_depth=2, arraysub=True, extra_preds=()):
        self.opt_arraysub = arraysub
        self.extra_preds = list(extra_preds)    # local names of imported predicates
        self.r = rng
        self.max_depth = max_depth
        self.strings = []          # contents of generated string literals, in order
        self.feats = set()
        self.excluded = collections.Counter()
        self.heads = {}
        self.distinct_heads = []
        self.reg = ''

    # ------------------------------------------------------------ small helpers
    def p(self, prob):
        return self.r.random() < prob

    def pick(self, seq):
        return seq[self.r.randrange(len(seq))]

    def T(self, text, kind, pre='', glue=False):
        return Tok(text, kind, pre, glue, self.reg)

    def feat(self, f):
        self.feats.add(f)

    def var(self):
        return self.pick(VARS)

    def commas(self, parts):
        out = []
        for i, p in enumerate(parts):
            if i:
                out.append(self.T(',', 'sep'))
                if p:
                    p = list(p)
                    p[0] = self._with_pre(p[0], ' ' if self.p(0.85) else '')
            out.extend(p)
        return out

    def _with_pre(self, item, pre):
        if isinstance(item, Tok):
            return item.copy(pre=pre)
        kind, items = item
        items = list(items)
        items[0] = self._with_pre(items[0], pre)
        return (kind, items)

    def _with_glue(self, item):
        if isinstance(item, Tok):
            return item.copy(glue=True)
        kind, items = item
        return (kind, [self._with_glue(items[0])] + list(items[1:]))

    def _with_risk(self, item, risk):
        if isinstance(item, Tok):
            return item.copy(risk=risk)
        kind, items = item
        return (kind, [self._with_risk(items[0], risk)] + list(items[1:]))

    def after_colon(self, items):
        # `a:-1` would read as `a :- 1`
        compact = self.p(0.12) and not self._first(items).text.startswith('-')
        return self.sp(items, '' if compact else ' ')

    def sp(self, items, pre=' '):
        """items with the default layout `pre` before their first token."""
        items = list(items)
        items[0] = self._with_pre(items[0], pre)
        return items

    # ------------------------------------------------------------ literals
    def string_content(self):
        n = self.pick([0, 1, 1, 2, 2, 3, 4])
        return ''.join(self.pick(NASTY) for _ in range(n))

    def string_lit(self):
        content = self.string_content()
        form = self.pick(['dq', 'dq', 'sq', 'tq'])
        if form == 'dq':
            content = content.replace('"', '').replace('\n', ' ')
            text = '"' + content + '"'
        elif form == 'sq':
            if self.p(0.3):
                content += self.pick(['"', "'", '\n', '\t', "it's", '\\'])
            text = sq_escape(content, self.r)
        else:
            if self.p(0.4):
                content += self.pick(['\n', '"', ' "q" ', '\n# not a comment\n', "'", '\t'])
                content += self.pick(NASTY)
            content = content.replace('"""', '""')
            while content.endswith('"'):
                content = content[:-1]
            text = '"""' + content + '"""'
        self.feat('str_' + form)
        if any(ord(c) > 127 for c in content):
            self.feat('str_nonascii')
        if any(c in content for c in ',;:|~()[]{}#') or '/*' in content:
            self.feat('str_syntax_chars')
        self.strings.append(content)
        return [self.T(text, 'str')]

    def number(self, allow_neg=True):
        k = self.r.randrange(12)
        if k < 5:
            t = str(self.r.randrange(0, 12))
        elif k < 7:
            t = self.pick(['0.5', '1.5', '3.14', '10.0', '100', '12345678901'])
        elif k < 9 and allow_neg:
            t = self.pick(['-1', '-2', '-0.5', '-10'])
            self.feat('num_negative')
        elif k == 9:
            t = self.pick(['2u', '0u', '18446744073709551615u'])
            self.feat('num_unsigned')
        elif k == 10:
            t = '∞'
            self.feat('num_infinity')
        else:
            t = str(self.r.randrange(0, 1000))
        return [self.T(t, 'num')]

    def atom(self, d):
        k = self.r.randrange(20)
        if k < 7:
            return [self.T(self.var(), 'var')]
        if k < 10:
            return self.number()
        if k < 14:
            return self.string_lit()
        if k == 14:
            self.feat('bool_null')
            return [self.T(self.pick(['true', 'false', 'null']), 'lit')]
        if k == 15:
            self.feat('predicate_literal')
            return [self.T(self.pick(PREDS + ['nil']), 'name')]
        if k == 16:
            return self.subscript(d)
        if k == 17:
            if not self.opt_arraysub:
                self.excluded['option:no_array_subscript'] += 1
                return [self.T(self.var(), 'var')]
            return self.arraysub(d)
        if k == 18 and d < self.max_depth:
            return self.list_lit(d)
        if d < self.max_depth:
            return self.record_lit(d)
        return [self.T(self.var(), 'var')]

    def list_lit(self, d):
        self.feat('list')
        n = self.pick([0, 1, 2, 2, 3])
        parts = [[('E', self.expr(d + 2))] for _ in range(n)]
        return [self.T('[', 'open')] + self.commas(parts) + [self.T(']', 'close')]

    def field(self):
        if self.p(0.08):
            self.feat('backtick_field')
            return self.pick(BT_FIELDS)
        return self.pick(FIELDS)

    def record_lit(self, d):
        self.feat('record')
        n = self.pick([0, 1, 2, 2, 3])
        parts = []
        used = set()
        for _ in range(n):
            f = self.field()
            if f in used:
                continue
            used.add(f)
            if self.p(0.15) and f[0] != '`':
                self.feat('field_shorthand')
                parts.append([self.T(f, 'field'), self.T(':', 'sep')])
            else:
                parts.append([self.T(f, 'field'), self.T(':', 'sep')] +
                             self.after_colon([('E', self.expr(d + 1))]))
        return [self.T('{', 'open')] + self.commas(parts) + [self.T('}', 'close')]

    def subscript(self, d):
        self.feat('subscript')
        k = self.r.randrange(6)
        if k < 3 or d >= self.max_depth:
            base = [self.T(self.var(), 'var')]
        elif k == 3:
            base = self.call(d + 1, FUNCS)
        elif k == 4:
            base = self.record_lit(d + 1)
        else:
            base = [('E', self.expr(d + 1, operand=True, force=True))]
        out = base
        for _ in range(self.pick([1, 1, 2])):
            out = out + [self.T('.', 'sep', glue=True),      # 'r .f = e' reads as the aggregation 'r .f= e'
                         self.T(self.pick(FIELDS), 'field', glue=True)]
        return out

    def arraysub(self, d):
        self.feat('array_subscript')
        name = self.var()          # `r.f[0]` is rejected: '.' is split before '['
        n = self.pick([1, 1, 1, 2])
        parts = [[('E', self.expr(d + 1))] for _ in range(n)]
        return ([self.T(name, 'var' if '.' not in name else 'path'),
                 self.T('[', 'open', glue=True)] + self.commas(parts) +
                [self.T(']', 'close')])

    # ------------------------------------------------------------ calls
    def args(self, d, head=False, literal_only=False):
        """record_internal / aggregating_record_internal."""
        npos = self.pick([0, 1, 1, 1, 2, 2, 3])
        nnamed = self.pick([0, 0, 0, 0, 0, 1, 1, 2])
        parts = []
        for _ in range(npos):
            e = self.atom(d + 1) if literal_only else self.expr(d + 1)
            parts.append([('E', e)])
        used = set()
        agg = False
        for _ in range(nnamed):
            f = self.field()
            if f in used:
                continue
            used.add(f)
            if head and self.p(0.35) and f[0] != '`':
                agg = True
                self.feat('aggregated_field')
                op = self.pick(AGG_ASSIGN)
                parts.append([self.T(f, 'field'), self.T('?', 'sep'),
                              self.T(op, 'aggop', pre=' ')] +
                             self.sp([('E', self.expr(d + 1, noeq=True))]))
            elif self.p(0.15) and f[0] != '`':
                self.feat('field_shorthand')
                parts.append([self.T(f, 'field'), self.T(':', 'sep')])
            else:
                self.feat('named_arg')
                parts.append([self.T(f, 'field'), self.T(':', 'sep')] +
                             self.after_colon([('E', self.expr(d + 1))]))
        if self.p(0.06) and not literal_only:
            self.feat('rest_of')
            parts.append([self.T('..' + self.var(), 'rest')])
        return self.commas(parts), agg

    def call(self, d, names=None):
        name = self.pick(names or PREDS)
        if names is None and self.p(0.1):
            name = self.pick(PATHS)
            self.feat('table_path' if name[0] != '`' else 'table_backtick')
            kind = 'path'
        elif names is None and self.extra_preds and self.p(0.3):
            name = self.pick(self.extra_preds)
            self.feat('call_of_imported_predicate')
            kind = 'name'
        else:
            kind = 'name'
        a, _ = self.args(d)
        return [self.T(name, kind), self.T('(', 'open', glue=True)] + a + \
            [self.T(')', 'close')]

    # ------------------------------------------------------------ expressions
    def binop(self, op, compact_ok=True):
        return op

    def expr(self, d, noeq=False, operand=False, force=False):
        """A whole expression as an item list (callers wrap it in ('E', ..)).

        noeq: the context splits on '=' (and, for `v Op= e`, is tried as `&&`, `||`,
        `==`, ` in ` first): such operators need parentheses.
        operand: we are an operand of an operator; compound forms get parentheses
        (always for unary / negative literals, sometimes for binary).
        force: always parenthesise compound forms."""
        if d >= self.max_depth:
            k = self.r.randrange(10)
        elif d == 0:
            k = self.r.randrange(24)
        else:
            k = self.r.randrange(24) if self.p(0.6) else 0
        if k < 10:
            a = self.atom(d)
            if (operand and len(a) == 1 and a[0].kind == 'num' and
                    a[0].text.startswith('-')):
                return self.parens(a)
            return a
        if k < 12:
            return self.call(d, FUNCS + PREDS[:4])
        if k < 17:
            return self.binary(d, noeq, operand, force)
        if k == 17:
            return self.unary(d, operand)
        if k == 18:
            return self.implication(d)
        if k == 19:
            # `(combine .. :- ..)` is only usable as an operand: Split() strips the
            # parentheses of a call argument / list element and exposes its ':-', ','
            return self.combine_expr(d) if operand else self.ultra_combine(d)
        if k == 20:
            return self.ultra_combine(d)
        if k == 21:
            return self.is_in_expr(d, operand or noeq)
        if k == 22:
            return self.call(d)
        return self.chain(noeq, operand, force)

    def chain(self, noeq=False, operand=False, force=False):
        """`a op b op c [op d]` over atoms without any parentheses: the tree is decided
        by the parsers' operator order and associativity alone."""
        self.feat('operator_chain')
        # operators from a window of three neighbours in the priority list, so that
        # pairs whose relative order matters meet often
        ops = [o for o in BIN_OPS if not (noeq and ('=' in o or o in ('&&', '||')))]
        i = self.r.randrange(len(ops) - 2)
        ops = ops[i:i + 3]
        n = self.pick([2, 2, 3])
        out = [self.E(self.expr(self.max_depth, operand=True))]
        for _ in range(n):
            op = self.pick(ops)
            self.feat('op:' + op)
            out += [self.T(op, 'op', pre=' ')] + \
                self.sp([self.E(self.expr(self.max_depth, operand=True))])
        # force: the caller puts us where a bare operator expression would regroup with
        # its neighbour (`a = b is null` is `a = (b is null)`), so the parentheses are
        # part of the program, not redundant layout
        if (operand and self.r.randrange(3) == 0) or force:
            return self.parens(out)
        return [('N', out)]

    def E(self, items):
        """operand position: parenthesisable unless it is a bare operator expression
        (`a == b < c` is not `(a == b) < c`)."""
        if len(items) == 1 and not isinstance(items[0], Tok) and items[0][0] == 'N':
            return items[0]
        return ('E', items)

    def parens(self, items):
        return [self.T('(', 'open')] + list(items) + [self.T(')', 'close')]

    def binary(self, d, noeq=False, operand=False, force=False):
        op = self.pick(BIN_OPS)
        self.feat('op:' + op)
        left = self.expr(d + 1, noeq=noeq, operand=True)
        right = self.expr(d + 1, noeq=noeq, operand=True)
        compact = (self.p(0.15) and self._atomic_end(left) and self._atomic_start(right)
                   and not self._neg(right))
        if compact and op == '!=' and EXCLUDE_COMPACT_NEQ:
            # open known finding C15 compact_neq_after_literal (see lv/props/c15.py)
            self.excluded['finding:compact_neq_after_literal'] += 1
            compact = False
        if compact:
            self.feat('compact_operator')
        pre = '' if compact else ' '
        # `y+(x)` would be a call of `y+`: no parentheses right after a compact operator
        rgt = list(right) if compact else [self.E(right)]
        out = [self.E(left), self.T(op, 'op', pre=pre)] + self.sp(rgt, pre)
        need = force or (noeq and ('=' in op or op in ('&&', '||'))) or \
            (operand and self.r.randrange(10) in (1, 3, 5, 7))
        if need:
            return self.parens(out)
        if operand:
            self.feat('unparenthesised_nesting')
        # a bare operator expression is a whole expression only where nothing else
        # competes for its operands: as an operand itself it must not be wrapped
        return [('N', out)]

    def _first(self, items):
        x = items[0]
        while not isinstance(x, Tok):
            x = x[1][0]
        return x

    def _last(self, items):
        x = items[-1]
        while not isinstance(x, Tok):
            x = x[1][-1]
        return x

    def _neg(self, items):
        return self._first(items).text.startswith('-')

    def _atomic_start(self, items):
        t = self._first(items)
        return len(items) == 1 and t.kind in ('var', 'num', 'str', 'lit') and \
            t.text[0] not in '-∞'

    def _atomic_end(self, items):
        t = self._last(items)
        return len(items) == 1 and t.kind in ('var', 'num', 'str', 'lit') and \
            t.text[-1] not in 'u∞'

    def unary(self, d, operand):
        op = self.pick(['-', '!'])
        self.feat('unary:' + op)
        # operand of a unary operator: not a number (`-1` is a literal, `- 1` a call),
        # not `{..}` / `[..]` (`!{` reads as an aggregation named `!`), not a
        # parenthesised combine (`-(combine .. :- ..)` is a call of `-` whose record
        # internals contain ':-')
        inner = self.unary_operand(d, minus=(op == '-'))
        out = [self.T(op, 'op')] + self.sp([('E', inner)], '' if self.p(0.7) else ' ')
        return self.parens(out) if operand else out

    def unary_operand(self, d, minus=False):
        k = self.r.randrange(5)
        if k < 2 or d >= self.max_depth:
            return [self.T(self.var(), 'var')]
        if k == 2:
            if minus:
                # `-Abs(x)` is a call of the predicate `-Abs`, `- Abs(x)` a negation
                # (call names are glued to their bracket and '-' is a name character)
                return self.parens(self.call(d + 1, FUNCS))
            return self.call(d + 1, FUNCS)
        if k == 3:
            return self.binary(d + 1, force=True)
        return self.string_lit()

    def implication(self, d):
        self.feat('if_then_else')
        out = [self.T('if ', 'kw')] + [('E', self.cond(d + 1))] + \
              [self.T('then', 'kw', pre=' ')] + self.sp([('E', self.expr(d + 1))])
        for _ in range(self.pick([0, 0, 1, 2])):
            self.feat('else_if')
            out += [self.T('else if', 'kw', pre=' ')] + self.sp([('E', self.cond(d + 1))]) + \
                   [self.T('then', 'kw', pre=' ')] + self.sp([('E', self.expr(d + 1))])
        out += [self.T('else', 'kw', pre=' ')] + self.sp([('E', self.expr(d + 1))])
        return self.parens(out)

    def cond(self, d):
        k = self.r.randrange(4)
        if k == 0:
            return self.expr(d)
        op = self.pick(CMP_OPS[:-1] + ['&&', '||'])
        self.feat('op:' + op)
        return [self.E(self.expr(d + 1, operand=True)), self.T(op, 'op', pre=' ')] + \
            self.sp([self.E(self.expr(d + 1, operand=True))])

    def combine_expr(self, d):
        self.feat('combine_keyword')
        op = self.pick(AGG_ASSIGN)
        out = [self.T('combine ', 'kw'), self.T(op, 'aggop')] + \
            self.sp([('E', self.expr(d + 1, noeq=True))])
        if self.p(0.75):
            out += [self.T(':-', 'sep', pre=' ')] + self.sp([('P', self.body(d + 1))])
        return self.parens(out)

    def ultra_combine(self, d):
        self.feat('combine_braces')
        op = self.pick(AGGS)
        out = [self.T(op, 'name'), self.T('{', 'open', glue=True)]
        if self.p(0.8):
            out += [('E', self.expr(d + 1)), self.T(':-', 'sep', pre=' ')] + \
                self.sp([('P', self.body(d + 1))])
            return out + [self.T('}', 'close')]
        self.feat('combine_braces_no_body')
        e = self.expr(d + 1)
        if EXCLUDE_BODYLESS_AGG_LAYOUT:
            # only bare comments inside the braces, no redundant parentheses
            self.excluded['finding:' + RISK_AGG] += 1
            e = [self._with_glue(e[0])] + e[1:]
            return out + [('E0agg', e), self.T('}', 'close', glue=True)]
        # layout before the first token / before '}' and parentheses around the whole
        # value are the finding's input class: tagged, so that the renderer can also
        # produce the text without them
        e = [self._with_risk(e[0], RISK_AGG)] + e[1:]
        return out + [('E0agg', e), self.T('}', 'close').copy(risk=RISK_AGG)]

    def is_in_expr(self, d, operand):
        k = self.r.randrange(3)
        left = [('E', self.expr(d + 1, operand=True, force=True))]
        if k == 0:
            self.feat('op:in')
            out = left + [self.T(' in ', 'kw')] + [('E', self.expr(d + 1, operand=True,
                                                              force=True))]
        elif k == 1:
            self.feat('op:is')
            out = left + [self.T(' is ', 'kw'), self.T('null', 'lit')]
        else:
            self.feat('op:is not')
            out = left + [self.T(' is not ', 'kw'), self.T('null', 'lit')]
        return self.parens(out) if operand or self.p(0.5) else out

    # ------------------------------------------------------------ propositions
    def body(self, d, top=False):
        """A proposition: conjunction of conjuncts (possibly a top-level disjunction)."""
        if top and self.p(0.12):
            self.feat('toplevel_disjunction')
            parts = [self.conj(d, self.pick([1, 2])) for _ in range(self.pick([2, 2, 3]))]
            out = list(parts[0])
            for pp in parts[1:]:
                compact = self.p(0.2)
                out += [self.T('|', 'sep', pre='' if compact else ' ')] + \
                    self.sp(pp, '' if compact else ' ')
            return out
        return self.conj(d, self.pick([1, 1, 2, 2, 3] if d == 0 else [1, 1, 2])
                         if d < self.max_depth else 1)

    def conj(self, d, n):
        parts = [[('P', self.conjunct(d))] for _ in range(n)]
        return self.commas(parts)

    def conjunct(self, d, noimpl=False):
        deep = d >= self.max_depth
        k = self.r.randrange(10 if deep else 26)
        if k == 19 and noimpl:       # `A => B => C` is not an implication
            k = 0
        if k < 6:
            self.feat('body_call')
            return self.call(d)
        if k < 9:
            # not '=': `a + b = c` is tried as a concise combine `lhs Op= value` first
            op = self.pick(CMP_OPS[:-1])
            self.feat('op:' + op)
            return [self.E(self.expr(d + 1, operand=True)), self.T(op, 'op', pre=' ')] + \
                self.sp([self.E(self.expr(d + 1, operand=True))])
        if k < 11:
            self.feat('inclusion')
            return [('E', self.expr(d + 1, operand=True, force=True)), self.T(' in ', 'kw'),
                    ('E', self.expr(d + 1, operand=True, force=True))]
        if k < 13:
            self.feat('negation')
            if self.p(0.5):
                inner = self.call(d)
                return [self.T('~', 'op')] + self.sp([('P', inner)],
                                                      '' if self.p(0.7) else ' ')
            inner = self.conj(d + 1, self.pick([1, 2, 2]))
            return [self.T('~', 'op'), self.T('(', 'open')] + inner + \
                [self.T(')', 'close')]
        if k < 15:
            self.feat('disjunction')
            # inside ~(..) / {.. :- ..} / (.. :- ..) the body is split on ',' before '|':
            # a disjunct with several conjuncts needs its own parentheses
            parts = []
            for _ in range(self.pick([2, 2, 3])):
                n = self.pick([1, 1, 2])
                c = self.conj(d + 1, n)
                parts.append(self.parens(c) if n > 1 else c)
            out = [('P', parts[0])]
            for pp in parts[1:]:
                compact = self.p(0.2)
                out += [self.T('|', 'sep', pre='' if compact else ' ')] + \
                    self.sp([('P', pp)], '' if compact else ' ')
            return self.parens(out)
        if k < 17:
            self.feat('concise_combine')
            op = self.pick(AGG_ASSIGN)
            out = [self.T(self.var(), 'var'), self.T(op, 'aggop', pre=' ')]
            if self.p(0.7):
                out += self.sp(self.parens(
                    [('E', self.expr(d + 1, noeq=True)), self.T(':-', 'sep', pre=' ')] +
                    self.sp([('P', self.body(d + 1))])))
            else:
                out += self.sp([('E', self.expr(d + 1, noeq=True))])
            return out
        if k < 19:
            self.feat('assign_eq')
            v = [self.T(self.var(), 'var')]
            rhs = self.ultra_combine(d + 1) if self.p(0.6) else self.expr(d + 1, operand=True)
            return v + [self.T(self.pick(['=', '==']), 'op', pre=' ')] + \
                self.sp([self.E(rhs)])
        if k == 19:
            self.feat('prop_implication')
            a = self.conjunct(d + 1, True) if self.p(0.7) else \
                self.parens(self.conj(d + 1, 2))
            b = self.conjunct(d + 1, True) if self.p(0.7) else \
                self.parens(self.conj(d + 1, 2))
            out = [('P', a), self.T('=>', 'op', pre=' ')] + self.sp([('P', b)])
            return self.parens(out) if self.p(0.5) else out
        if k == 20:
            k2 = self.r.randrange(2)
            self.feat('is_null' if k2 else 'is_not_null')
            return [('E', self.expr(d + 1, operand=True, force=True)),
                    self.T(' is ' if k2 else ' is not ', 'kw'), self.T('null', 'lit')]
        if k == 21:
            op = self.pick(['&&', '||'])
            self.feat('op:' + op)
            return [self.E(self.expr(d + 1, operand=True)), self.T(op, 'op', pre=' ')] + \
                self.sp([self.E(self.expr(d + 1, operand=True))])
        if k == 22:
            self.feat('unary:!')
            if self.p(0.3):
                self.feat('bang_tilde')
                return [self.T('!~', 'op')] + self.call(d, PREDS)
            return [self.T('!', 'op')] + [('E', self.unary_operand(d))]
        if k == 23:
            self.feat('body_table_path')
            name = self.pick(PATHS)
            a, _ = self.args(d)
            return [self.T(name, 'path'), self.T('(', 'open', glue=True)] + a + \
                [self.T(')', 'close')]
        if k == 24:
            self.feat('functional_value_eq')
            return self.call(d, FUNCS) + [self.T('==', 'op', pre=' ')] + \
                self.sp([self.E(self.expr(d + 1, operand=True))])
        self.feat('body_call')
        return self.call(d)

    # ------------------------------------------------------------ statements
    def denotations(self, must_distinct, has_body=True):
        out = []
        if must_distinct or self.p(0.25):
            self.feat('distinct')
            out.append(self.T('distinct', 'den', pre=' '))
        if self.p(0.15):
            self.feat('order_by')
            self.reg = 'den'
            n = self.pick([1, 1, 2, 3])
            parts = []
            for i in range(n):
                k = self.r.randrange(8)
                if k < 3:
                    e = self.string_lit()
                elif k < 5 or i == 0:
                    # the first argument never starts with '(' by itself (see
                    # noise.EXCLUDE_DEN_PAREN for redundant parentheses around it)
                    e = [self.T(self.var(), 'var')]
                elif k == 5:
                    e = self.binary(2)
                elif k == 6:
                    e = self.call(2, FUNCS)
                elif DENOTATION_AGG_NEEDS_BODY and not has_body:
                    self.feat('domain:no_aggregation_in_denotation_of_fact')
                    e = [self.T(self.var(), 'var')]
                else:
                    e = self.ultra_combine(2)
                parts.append([('E0den' if i == 0 and n > 1 else 'E', e)])
            out += [self.T('order_by', 'den', pre=' '), self.T('(', 'open', glue=True)] + \
                self.commas(parts) + [self.T(')', 'close')]
            self.reg = ''
        if self.p(0.15):
            self.feat('limit')
            self.reg = 'den'
            out += [self.T('limit', 'den', pre=' '), self.T('(', 'open', glue=True),
                    ('E', [self.T(str(self.r.randrange(1, 100)), 'num')]),
                    self.T(')', 'close')]
            self.reg = ''
        if self.p(0.06):
            k = self.pick(['couldbe', 'cantbe', 'shouldbe'])
            self.feat(k)
            out.append(self.T(k, 'den', pre=' '))
        return out

    def head(self, d, literal_only=False, has_body=True):
        a, agg = self.args(d, head=not literal_only, literal_only=literal_only)
        out = [None, self.T('(', 'open', glue=True)] + a + [self.T(')', 'close')]
        k = self.r.randrange(10)
        if k < 2:
            self.feat('head_value')
            out += [self.T('=', 'op', pre=' ')] + \
                self.sp([('E', self.atom(d + 1) if literal_only else
                          self.expr(d + 1, noeq=True))])
        elif k == 2 and not literal_only:
            self.feat('head_aggregation')
            out += [self.T(self.pick(AGG_ASSIGN), 'aggop', pre=' ')] + \
                self.sp([('E', self.expr(d + 1, noeq=True))])
        out += self.denotations(agg, has_body)
        # several rules for one predicate must agree on `distinct` and on the aggregation
        # signature: a predicate is reused only if neither definition is distinct
        dist = any(isinstance(t, Tok) and (t.text == 'distinct' or t.kind == 'aggop')
                   for t in out[1:])
        name = self.pick(PREDS)
        if name in self.heads and (dist or self.heads[name]):
            name = 'H%d' % len(self.heads)
        self.heads[name] = dist or self.heads.get(name, False)
        out[0] = self.T(name, 'name')
        if dist and not literal_only:
            self.distinct_heads.append(out)
        return out

    def rule(self):
        self.feat('rule')
        if self.distinct_heads and self.p(0.25):
            # a second body for an aggregating predicate (multi-body aggregation rewrite)
            self.feat('multi_body_aggregation')
            h = list(self.pick(self.distinct_heads))
        else:
            h = self.head(0)
        return h + [self.T(':-', 'sep', pre=' ')] + \
            self.sp([('P', self.body(0, top=True))])

    def fact(self):
        self.feat('fact')
        return self.head(1, literal_only=self.p(0.7), has_body=False)

    def functor(self):
        self.feat('functor_application')
        n = self.pick([0, 1, 1, 2, 3])
        parts = []
        used = set()
        for _ in range(n):
            f = self.pick(PREDS)
            if f in used:
                continue
            used.add(f)
            parts.append([self.T(f, 'field'), self.T(':', 'sep'),
                          self.T(self.pick(PREDS), 'name', pre=' ')])
        return [self.T(self.pick(PREDS), 'name'), self.T(':=', 'sep', pre=' '),
                self.T(self.pick(PREDS), 'name', pre=' '),
                self.T('(', 'open', glue=True)] + self.commas(parts) + \
            [self.T(')', 'close')]

    def annotation(self):
        self.feat('annotation')
        name = self.pick(ANNOTS + ['@Make'])
        if name == '@Make':
            self.feat('make')
            rec = [self.T('{', 'open'), self.T(self.pick(PREDS), 'field'),
                   self.T(':', 'sep'), self.T(self.pick(PREDS), 'name', pre=' '),
                   self.T('}', 'close')]
            parts = [[self.T(self.pick(PREDS), 'name')], [self.T(self.pick(PREDS), 'name')],
                     rec]
        elif name in ('@Engine', '@AttachDatabase', '@DefineFlag', '@Dataset'):
            parts = [self.string_lit() for _ in range(self.pick([1, 2]))]
        else:
            parts = [[self.T(self.pick(PREDS), 'name')]]
            for _ in range(self.pick([0, 1, 1, 2])):
                parts.append([('E', self.atom(2))])
            if self.p(0.2):
                parts.append([self.T(self.field(), 'field'), self.T(':', 'sep')] +
                             self.sp([('E', self.atom(2))]))
        return [self.T(name, 'name'), self.T('(', 'open', glue=True)] + \
            self.commas(parts) + [self.T(')', 'close')]

    def function_rule(self):
        self.feat('function_rule')
        a, _ = self.args(1, literal_only=self.p(0.5))
        name = self.pick(FUNCS[:2] + PREDS[:3])
        if name in self.heads:
            name = 'H%d' % len(self.heads)
        self.heads[name] = True
        out = [self.T(name, 'name'),
               self.T('(', 'open', glue=True)] + a + [self.T(')', 'close')]
        out += [self.T('-->', 'sep', pre=' ')] + self.sp([('E', self.expr(1, noeq=True))])
        if self.p(0.3):
            out += [self.T(':-', 'sep', pre=' ')] + self.sp([('P', self.body(1))])
        return out

    def statement(self):
        k = self.r.randrange(20)
        if k < 11:
            return self.rule()
        if k < 15:
            return self.fact()
        if k < 17:
            return self.functor()
        if k < 19:
            return self.annotation()
        return self.function_rule()

    def program(self, nmin=1, nmax=3):
        n = self.r.randrange(nmin, nmax + 1)
        return [self.statement() for _ in range(n)]


def generate(rng, **kw):
    """-> (statements: list of item lists, strings: list of str, feats: set,
    excluded: Counter of by-construction exclusions)."""
    g = Gen(rng, **kw)
    stmts = g.program()
    return stmts, g.strings, g.feats, g.excluded
