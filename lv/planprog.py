"""Domain B of C14: small Logica programs on SQLite with several @Ground predicates,
deep (iteratively executed) recursion, chains and diamonds; compiled with the real
compiler, executed through concertina_lib.ExecuteLogicaProgram with a recording,
counting runner on a real connection.  Also the SQL-level reader/writer analysis."""
import copy
import os
import re
import sqlite3

from lv import core, drive, plans

universe = drive.universe
concertina_lib = drive.concertina_lib

LETTERS = 'BCDFGHJKLMNPQRSTVWXZ'
LOWER = 'abcdefghijklmnopqrstuvwxyz'


# ------------------------------------------------------------------ generator

def gen_program(rng):
    """-> dict(text, preds=[{name, kind, sources}], request=[...])  (JSON-able)."""
    used = set()

    def fresh():
        while True:
            n = rng.choice(LETTERS) + rng.choice(LOWER) + rng.choice('0123456789')
            if n not in used:
                used.add(n)
                return n
    if rng.random() < LOOPS_SHARE:
        return gen_loops(rng, fresh)
    lines = ['@Engine("sqlite");']
    avail = []
    preds = []
    for _ in range(rng.choice((1, 1, 2))):
        f = fresh()
        nrows = rng.randint(3, 6)
        rows = []
        while len(rows) < nrows:
            r = (rng.randint(1, 4), rng.randint(1, 4))
            if r not in rows:
                rows.append(r)
        lines.append(' '.join('%s(%d,%d);' % (f, a, b) for a, b in rows))
        avail.append(f)
        preds.append({'name': f, 'kind': 'fact', 'sources': []})
    n = rng.randint(3, 7)
    nrec = 0
    const = [100]

    def c():
        const[0] += 1
        return const[0]

    def src():
        # recent predicates are likelier: chains; two draws make diamonds
        if rng.random() < 0.6:
            return avail[-1 - min(len(avail) - 1, rng.choice((0, 0, 1, 1, 2)))]
        return rng.choice(avail)
    shared_at = rng.randrange(n) if rng.random() < SHARED_HELPERS_SHARE else -1
    sink = None
    for i in range(n):
        if i == shared_at:
            sink = shared_helpers(rng, fresh, c, src, lines, preds, avail)
        r = rng.random()
        name = fresh()
        if r < 0.3 and nrec < 2 and i < n - 1:
            nrec += 1
            depth = rng.randint(21, 44)
            s1, s2 = src(), src()
            lines.append('@Recursive(%s, %d);' % (name, depth))
            if rng.random() < 0.5:
                lines.append('%s(x,y) distinct :- %s(x,y), x != %d;' % (name, s1, c()))
                lines.append('%s(x,z) distinct :- %s(x,y), %s(y,z);' % (name, name, s2))
                preds.append({'name': name, 'kind': 'rec', 'sources': [s1, s2],
                              'depth': depth})
                avail.append(name)
            else:
                partner = fresh()
                lines.append('%s(x,y) distinct :- %s(x,y), x != %d;' % (name, s1, c()))
                lines.append('%s(x,z) distinct :- %s(x,y), %s(y,z);' % (
                    name, partner, s2))
                lines.append('%s(x,y) distinct :- %s(x,y), x != %d;' % (
                    partner, name, c()))
                preds.append({'name': name, 'kind': 'rec', 'sources': [s1, s2],
                              'depth': depth})
                preds.append({'name': partner, 'kind': 'rec_partner',
                              'sources': [name]})
                avail.extend([name, partner])
            continue
        kind = 'ground' if rng.random() < 0.65 else 'plain'
        if kind == 'ground':
            lines.append('@Ground(%s);' % name)
        t = rng.choice(('filter', 'join', 'join', 'union', 'swap'))
        if t == 'filter':
            s = [src()]
            lines.append('%s(x,y) :- %s(x,y), x != %d;' % (name, s[0], c()))
        elif t == 'swap':
            s = [src()]
            lines.append('%s(y,x) :- %s(x,y), x != %d;' % (name, s[0], c()))
        elif t == 'join':
            s = [src(), src()]
            d = ' distinct' if rng.random() < 0.75 else ''
            lines.append('%s(x,z)%s :- %s(x,y), %s(y,z), x != %d;' % (
                name, d, s[0], s[1], c()))
        else:
            s = [src(), src()]
            d = ' distinct' if rng.random() < 0.5 else ''
            lines.append('%s(x,y)%s :- %s(x,y), x != %d;' % (name, d, s[0], c()))
            lines.append('%s(x,y)%s :- %s(y,x), y != %d;' % (name, d, s[1], c()))
        preds.append({'name': name, 'kind': kind, 'sources': s})
        avail.append(name)
    cands = [p['name'] for p in preds if p['kind'] != 'fact']
    k = rng.choice((1, 2, 2, 2, 3, 3, 4))
    order = list(cands)
    rng.shuffle(order)
    request = order[:k]
    # the last predicate sees most of the program: usually ask for it
    if rng.random() < 0.7 and cands[-1] not in request:
        request[rng.randint(0, len(request) - 1)] = cands[-1]
    if sink is not None and sink not in request and rng.random() < 0.5:
        # one request that compiles all readers of the shared helpers into one plan
        request[rng.randint(0, len(request) - 1)] = sink
    return {'text': '\n'.join(lines) + '\n', 'preds': preds, 'request': request}


SHARED_HELPERS_SHARE = 0.45


def shared_helpers(rng, fresh, c, src, lines, preds, avail):
    """2-3 grounded producers, one helper over each that is neither grounded nor
    injectable (distinct / aggregating / two rules: compiled as a WITH table inside
    every statement that reads it), 2-3 readers (mostly grounded) that each read two
    different helpers, and a sink over all readers.  Names are drawn, so a reader
    sorts before or after the producers behind its helpers.  -> name of the sink."""
    nprod = rng.choice((2, 2, 3))
    prods, helpers = [], []
    for _ in range(nprod):
        g = fresh()
        lines.append('@Ground(%s);' % g)
        if rng.random() < 0.4:
            rows = []
            while len(rows) < 4:
                r = (rng.randint(1, 4), rng.randint(1, 4))
                if r not in rows:
                    rows.append(r)
            lines.append(' '.join('%s(%d,%d);' % (g, a, b) for a, b in rows))
            s = []
        else:
            s = [src()]
            lines.append('%s(x,y) :- %s(x,y), x != %d;' % (g, s[0], c()))
        preds.append({'name': g, 'kind': 'ground', 'sources': s})
        prods.append(g)
    for g in prods:
        h = fresh()
        t = rng.choice(('distinct', 'selfjoin', 'two_rules'))
        if t == 'distinct':
            lines.append('%s(x,y) distinct :- %s(x,y), x != %d;' % (h, g, c()))
        elif t == 'selfjoin':
            lines.append('%s(x,z) distinct :- %s(x,y), %s(y,z), x != %d;' % (h, g, g, c()))
        else:
            lines.append('%s(x,y) :- %s(x,y), x != %d;' % (h, g, c()))
            lines.append('%s(x,y) :- %s(y,x), y != %d;' % (h, g, c()))
        preds.append({'name': h, 'kind': 'helper', 'sources': [g]})
        helpers.append(h)
    readers = []
    for _ in range(rng.choice((2, 2, 3))):
        r = fresh()
        kind = 'ground' if rng.random() < 0.85 else 'plain'
        if kind == 'ground':
            lines.append('@Ground(%s);' % r)
        h1, h2 = rng.sample(helpers, 2)
        if rng.random() < 0.7:
            lines.append('%s(x,z) :- %s(x,y), %s(y,z), x != %d;' % (r, h1, h2, c()))
        else:
            lines.append('%s(x,y) :- %s(x,y), x != %d;' % (r, h1, c()))
            lines.append('%s(x,y) :- %s(y,x), y != %d;' % (r, h2, c()))
        preds.append({'name': r, 'kind': kind, 'sources': [h1, h2],
                      'shared_helpers': True})
        readers.append(r)
    sink = fresh()
    if rng.random() < 0.5:
        lines.append('@Ground(%s);' % sink)
    rs = list(readers)
    rng.shuffle(rs)
    for i, r in enumerate(rs):
        lines.append('%s(x,y) :- %s(%s), x != %d;' % (sink, r, 'x,y' if i % 2 == 0
                                                      else 'y,x', c()))
    preds.append({'name': sink, 'kind': 'plain', 'sources': rs})
    avail.extend(readers + [sink])
    return sink


LOOPS_SHARE = 0.3
# Finding (hand-written @Iteration in the default, two-halves mode): an outside input
# read only by members of the SECOND half of the member list is not waited for
# (Concertina.SortActions schedules the whole group once its first member is ready;
# UnderstandIterations spreads outside requirements only within each half).  Default:
# the generator gives every such input to a first-half member too and counts it.
# VERIF_C14_INCLUDE=lower_ext generates the class.
# repaired in /repo by fix: a024270 - generated by default; VERIF_C14_EXCLUDE=lower_ext restores the exclusion
EXCLUDE_LOWER_EXT = 'lower_ext' in os.environ.get('VERIF_C14_EXCLUDE', '').split(',')


def gen_loops(rng, fresh):
    """Hand-written @Iteration loops (docs: @Iteration(It, predicates: [..],
    repetitions: n) over grounded predicates, the last member written back into the
    table of the loop's seed with @Ground(Last, Seed)): 1-3 counter loops of 2 or 4
    members (or 3 in mode "diamond"); a later loop reads the RESULT of an earlier one
    directly or through a plain grounded predicate; readers outside the loops."""
    lines = ['@Engine("sqlite");']
    preds = []
    results = []           # predicates whose value later statements may read
    nloops = rng.choice((1, 2, 2, 2, 3))
    plain_results = []
    excluded = []
    seeds0 = rng.sample(range(6), nloops)     # distinct: requested seeds are
    #                                           distinct SELECT statements
    for li in range(nloops):
        seed = fresh()
        k, mode = rng.choice(((2, None), (2, None), (4, None), (3, 'diamond')))
        members = [fresh() for _ in range(k)]
        lines.append('@Ground(%s);' % seed)
        lines.append('%s() = %d;' % (seed, seeds0[li]))
        preds.append({'name': seed, 'kind': 'loop_seed', 'sources': []})
        # which members read an earlier result
        readers = {}
        if results and rng.random() < 0.85:
            for m in rng.sample(members, rng.randint(1, len(members))):
                readers[m] = rng.choice(results[-2:])
        if mode is None and EXCLUDE_LOWER_EXT:
            upper, lower = members[:k // 2], members[k // 2:]
            for m in lower:
                if m in readers and readers[m] not in [readers.get(u) for u in upper]:
                    excluded.append('flat_iteration_second_half_has_own_outside_input')
                    free = [u for u in upper if u not in readers]
                    if free:
                        readers[free[0]] = readers[m]
                    else:
                        del readers[m]
        prev = seed
        for j, m in enumerate(members):
            last = j == len(members) - 1
            lines.append('@Ground(%s%s);' % (m, (', ' + seed) if last else ''))
            rhs = '%s() + %d' % (prev, rng.randint(1, 2))
            if m in readers:
                rhs += ' + %s()' % readers[m]
            lines.append('%s() = %s;' % (m, rhs))
            preds.append({'name': m, 'kind': 'loop_member',
                          'sources': [prev] + ([readers[m]] if m in readers else [])})
            prev = m
        it = 'It' + fresh()
        R = rng.randint(2, 5)
        lines.append('@Iteration(%s, predicates: [%s], repetitions: %d%s);' % (
            it, ', '.join(members), R, ', mode: "diamond"' if mode else ''))
        results.append(members[-1])
        if rng.random() < 0.35:
            # a plain statement consuming the loop's result
            mid = fresh()
            if rng.random() < 0.7:
                lines.append('@Ground(%s);' % mid)
            lines.append('%s() = %s() * 2;' % (mid, members[-1]))
            preds.append({'name': mid, 'kind': 'loop_reader', 'sources': [members[-1]]})
            if rng.random() < 0.5:
                results.append(mid)
            plain_results.append(mid)
    final = fresh()
    used = list(results)
    rng.shuffle(used)
    used = used[:rng.randint(1, len(used))]
    if results[-1] not in used and rng.random() < 0.8:
        used.append(results[-1])
    lines.append('%s(%s);' % (final, ', '.join(
        'c%d: %s()' % (i, r) for i, r in enumerate(used))))
    preds.append({'name': final, 'kind': 'plain', 'sources': used})
    request = [final]
    extra = [p['name'] for p in preds if p['kind'] in ('loop_seed', 'loop_reader')]
    rng.shuffle(extra)
    request += extra[:rng.choice((0, 0, 1, 2))]
    rng.shuffle(request)
    return {'text': '\n'.join(lines) + '\n', 'preds': preds, 'request': request,
            'loops': True, 'excluded': excluded}


# ------------------------------------------------------------------ SQL readers/writers

_HDR = re.compile(r'(DROP TABLE IF EXISTS|CREATE TABLE)\s+([A-Za-z_]\w*\.\w+)')
_REF = re.compile(r'\b(logica_test\.\w+)')


def sql_io(sql):
    """(tables written, tables read) of one statement of the generated programs."""
    writes = {m.group(2) for m in _HDR.finditer(sql) if m.group(1) == 'CREATE TABLE'}
    body = _HDR.sub(' ', sql)
    reads = set(_REF.findall(body))
    return writes, reads


def check_sql_order(sp, calls):
    """A statement reading <dataset>.X runs after a CREATE TABLE <dataset>.X; a
    non-iterated reader runs after the last writer (it sees the final repetition)."""
    out = []
    it = plans.iterated(sp)
    io = [sql_io(sql) for sql, _ in calls]
    ids = [sp.owner.get(sql) for sql, _ in calls]
    first_w, last_w = {}, {}
    for i, (w, r) in enumerate(io):
        for t in w:
            first_w.setdefault(t, i)
            last_w[t] = i
    for i, (w, r) in enumerate(io):
        for t in sorted(r):
            if t not in first_w or first_w[t] > i or (first_w[t] == i):
                out.append(('sql_read_before_create', 'call %d (%s) reads %s, created '
                            'at %s' % (i, ids[i], t, first_w.get(t))))
            elif ids[i] is not None and ids[i] not in it and last_w[t] > i:
                out.append(('sql_stale_read', 'call %d (%s, not iterated) reads %s which '
                            'is rewritten at call %d' % (i, ids[i], t, last_w[t])))
            elif ids[i] is not None and ids[i] in it:
                # a member of an iteration may read a table its OWN group rewrites
                # later (that is the loop); a table written by a statement outside its
                # group must have received its last write
                late = [j for j in range(i + 1, len(io)) if t in io[j][0]
                        and it.get(ids[j]) != it[ids[i]]]
                if late:
                    out.append(('sql_stale_read_iterated', 'call %d (%s, iteration group '
                                '%s) reads %s which %s, outside that group, rewrites at '
                                'call %d' % (i, ids[i], sp.groups[it[ids[i]]]['name'], t,
                                             ids[late[-1]], late[-1])))
    return out


def check_plan_edges(sp):
    """Plan level: every table a statement's SQL reads is produced by statements that
    are ancestors of the reader in the recorded dependency edges (writers inside the
    reader's own iteration group excepted: that is the loop)."""
    out = []
    it = plans.iterated(sp)
    writers = {}
    io = {}
    for aid, sqls in sp.actions.items():
        w, r = set(), set()
        for sql in sqls:
            w1, r1 = sql_io(sql)
            w |= w1
            r |= r1
        io[aid] = (w, r)
        for t in w:
            writers.setdefault(t, set()).add(aid)
    anc = {}

    def ancestors(a):
        if a not in anc:
            seen, stack = set(), list(sp.requires.get(a, ()))
            while stack:
                q = stack.pop()
                if q not in seen:
                    seen.add(q)
                    stack.extend(sp.requires.get(q, ()))
            anc[a] = seen
        return anc[a]
    for aid in sorted(sp.actions):
        w, r = io[aid]
        for t in sorted(r - w):
            for wa in sorted(writers.get(t, ())):
                if wa == aid or (aid in it and it.get(wa) == it[aid]):
                    continue
                if wa[0] == aid[0]:
                    continue      # the requested twin of an intermediate table
                if wa not in ancestors(aid):
                    out.append(('plan_reads_table_without_dependency_edge',
                                'statement %s reads %s, written by statement %s, which '
                                'is not among its prerequisites %s' % (
                                    aid, t, wa, sorted(ancestors(aid)))))
    return out


# ------------------------------------------------------------------ compile + run

class Outcome(object):
    def __init__(self):
        self.fails = []
        self.inconclusive = None
        self.info = {}


def compile_execs(rules, request):
    """Executions for the requested predicates, the way tools/run_in_terminal.RunMany
    builds them (one LogicaProgram, one FormattedPredicateSql per predicate)."""
    with drive.quiet():
        prog = universe.LogicaProgram(rules)
        exs = []
        for p in request:
            prog.FormattedPredicateSql(p)
            exs.append(prog.execution)
    return exs


def run_real(exs):
    """-> (spec, run dict) on a fresh SQLite connection."""
    sp = plans.spec_from_execs(exs)
    con = drive.connect()
    err = {}

    def execute(sql, is_final):
        try:
            if is_final:
                cur = con.execute(sql)
                return [d[0] for d in cur.description], cur.fetchall()
            con.executescript(sql)
        except sqlite3.Error as e:
            err['e'] = e
            err['sql'] = sql
            raise
    try:
        full = plans.expected_full_calls(sp)
        r = plans.run_execs(exs, sp, 2 * full + 10, None, execute=execute)
    finally:
        con.close()
    r['sqlerr'] = err
    r['budget'] = 2 * full + 10
    return sp, r


def judge_run(sp, r, tag):
    """-> (fails, inconclusive_reason)"""
    if sp.problems:
        return [], 'spec:' + sp.problems[0]
    if r['exc'] is not None and r['sqlerr'].get('e') is r['exc']:
        msg = str(r['exc'])
        if 'interrupted' in msg:
            return [], 'sqlite_budget'
        # what ran before the failing statement is judged for order only (the log is
        # cut short, so counts and iteration sequences say nothing)
        pre = plans.check_log(sp, r['calls'][:-1], r['budget']) if r['calls'] else []
        pre = [(tag + b, d) for b, d in pre if b.startswith('dep_order')]
        m = re.search(r'no such table: (\S+)', msg)
        made = set()
        for sqls in sp.actions.values():
            for s in sqls:
                made |= sql_io(s)[0]
        if m and m.group(1) in made:
            return pre + [(tag + 'sql_no_such_table', '%s\nin statement of %s:\n%s' % (
                msg, sp.owner.get(r['sqlerr']['sql']), r['sqlerr']['sql'][:600]))], None
        return [], 'sql_error:' + msg.split(':')[0][:40]
    fails = plans.check_log(sp, r['calls'], r['budget'], r['exc'])
    if r['exc'] is None:
        fails += check_sql_order(sp, r['calls'])
        fails += plans.check_result_keys(sp, r['result'])
    return [(tag + b, d) for b, d in fails], None


def table_key(t):
    if t is None:
        return None
    hdr, rows = t
    return [list(hdr), sorted(repr(tuple(r)) for r in rows)]


_HEAD = re.compile(r'^([A-Z]\w*)\(', re.M)
_CALL = re.compile(r'\b([A-Z]\w*)\(')


def in_domain(text, request):
    """Every predicate that is called or requested is defined by the program (an
    undefined name would be an external table that nobody creates)."""
    body = '\n'.join(l for l in text.split('\n') if not l.startswith('@'))
    heads = set(_HEAD.findall(body))
    return set(_CALL.findall(body)) <= heads and set(request) <= heads and \
        len(set(request)) == len(request) and bool(request)


def check_program(text, request):
    """Full domain-B check of one (program, request).  -> Outcome."""
    o = Outcome()
    if not in_domain(text, request):
        o.inconclusive = 'outside_domain'
        return o
    try:
        rules = drive.parse_rules(text)
        exs = compile_execs(rules, request)
    except Exception as e:
        o.inconclusive = 'compile:' + drive.exc_frame(e)
        o.info['error'] = '%s: %s' % (type(e).__name__, str(e)[:300])
        return o
    sp, r = run_real(exs)
    fails, inc = judge_run(sp, r, '')
    if not sp.problems and not (inc and inc == 'sqlite_budget'):
        pf = check_plan_edges(sp)
        if pf:
            fails, inc = list(fails) + pf, None
    o.info.update(spec=sp, calls=len(r['calls']), execs=exs,
                  adjacent_dependent=plans.adjacent_dependent(sp, r['calls']))
    if inc:
        o.inconclusive = inc
        return o
    o.fails += fails
    if fails or len(request) == 1:
        o.info['result'] = r['result']
        return o
    for p, e in zip(request, exs):
        # asking for p alone: the same execution object on its own (RunMany builds
        # exactly the executions that Run would build one at a time)
        sp1, r1 = run_real([e])
        f1, inc1 = judge_run(sp1, r1, 'single:')
        if inc1:
            o.inconclusive = inc1
            return o
        if f1:
            o.fails += f1
            return o
        a, b = table_key(r['result'].get(p)), table_key(r1['result'].get(p))
        if a != b or a is None:
            o.fails.append(('result_differs', 'predicate %s asked together with %s '
                            'returns\n%s\nalone it returns\n%s' % (
                                p, [q for q in request if q != p], a, b)))
            return o
    o.info['result'] = r['result']
    return o


def program_labels(case, o):
    sp = o.info['spec']
    ls = ['B']
    it = plans.iterated(sp)
    mids = [a for a in sp.actions if not a[1] and a not in it]
    ls.append('B:grounded_intermediates=%s' % (
        '0' if not mids else '1' if len(mids) == 1 else '2-4' if len(mids) <= 4
        else '5+'))
    ls.append('B:iteration_groups=%d' % len(sp.groups))
    for g in sp.groups:
        ls.append('B:group_size=%d' % len(g['members']))
        ls.append('B:R=%s' % ('<=10' if g['R'] <= 10 else '11-15' if g['R'] <= 15
                              else '16+'))
    cross = sorted({(it[q], it[a]) for a, rs in sp.requires.items() if a in it
                    for q in rs if q in it and it[q] != it[a]})
    if case.get('loops') or 'mode: "diamond"' in case['text'] or \
            '\n@Iteration(' in case['text']:
        ls.append('B:hand_written_iteration')
    if cross:
        ls.append('B:group_reads_other_group')
        if o.info.get('adjacent_dependent'):
            ls.append('B:group_reads_other_group_adjacent_in_log')
    if any(p.get('shared_helpers') for p in case.get('preds', ())):
        ls.append('B:shared_with_helpers')
    ls.append('B:request=%d' % len(case['request']))
    if any((p, False) in sp.actions for p in sp.finals):
        ls.append('B:final_and_intermediate')
    ls.append('B:calls=%s' % ('<=10' if o.info['calls'] <= 10 else '11-50'
                              if o.info['calls'] <= 50 else '51+'))
    res = o.info.get('result') or {}
    if res and all(v and v[1] for v in res.values()):
        ls.append('B:all_results_nonempty')
    return ls


def program_nontrivial(o):
    """>= 2 grounded intermediates (tables created on the way)."""
    sp = o.info['spec']
    return len([a for a in sp.actions if not a[1]]) >= 2
