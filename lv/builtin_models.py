"""Python models of the SQLite built-ins checked by C20, written from the DOCUMENTATION
(docs/learn/logica.md, README.md, tutorial/Logica_tutorial.ipynb, and - where the
documentation only says "any StandardSQL function, camel-cased" - the StandardSQL
meaning of the function of that name as the repository's own callers and goldens use
it), never from common/sqlite3_logica.py or compiler/dialects.py.

Each model cites the sentence / example it is grounded in.  Corners on which the
documentation is silent are NOT modelled; the generator in lv/props/c20.py keeps them
out of the domain (list in c20.NOT_ASSERTED).

Values are plain Python: int, float, str, None (Logica null), list.
"""
import collections
import json
import math

REL = 1e-9
ABS = 1e-12

SAFE_CHARS = set('abcdefghijklmnopqrstuvwxyz0123456789 ,-.')


# ------------------------------------------------------------------ Logica literals

def lit(v):
    """Logica source text of a value (argument / list-element position)."""
    if v is None:
        return 'null'
    if isinstance(v, bool):
        return 'true' if v else 'false'
    if isinstance(v, int):
        return str(v)
    if isinstance(v, float):
        s = repr(v)
        assert 'e' not in s and 'n' not in s, s      # no exponents, inf, nan
        return s
    if isinstance(v, str):
        assert set(v) <= SAFE_CHARS, v               # quoting is C10's business
        return '"%s"' % v
    if isinstance(v, list):
        return '[' + ', '.join(lit(x) for x in v) + ']'
    raise TypeError(v)


def opnd(v):
    """Literal in operand position of an infix operator (negatives parenthesised)."""
    s = lit(v)
    return '(%s)' % s if s.startswith('-') else s


# ------------------------------------------------------------------ comparison helpers

def is_num(x):
    return isinstance(x, (int, float)) and not isinstance(x, bool)


def num_eq(a, b):
    return is_num(a) and is_num(b) and math.isclose(a, b, rel_tol=REL, abs_tol=ABS)


def val_eq(a, b):
    """Equality of scalar results: numbers up to 1e-9 relative, strings exactly,
    null only equals null; a number never equals a string."""
    if a is None or b is None:
        return a is None and b is None
    if is_num(a) or is_num(b):
        return num_eq(a, b)
    return type(a) is type(b) and a == b


def list_eq(a, b):
    return isinstance(a, list) and isinstance(b, list) and len(a) == len(b) and \
        all(val_eq(x, y) for x, y in zip(a, b))


def canon_key(v):
    """Total order key over null / numbers / strings (for multiset comparison)."""
    if v is None:
        return (0, 0, '')
    if is_num(v):
        return (1, round(float(v), 9), '')
    return (2, 0, str(v))


def multiset_eq(a, b):
    return isinstance(a, list) and isinstance(b, list) and \
        list_eq(sorted(a, key=canon_key), sorted(b, key=canon_key))


def as_set(a):
    out = []
    for x in sorted(a, key=canon_key):
        if not out or not val_eq(out[-1], x):
            out.append(x)
    return out


def decode_list(raw):
    """Lists come back from SQLite as JSON text."""
    if raw is None:
        return None
    if isinstance(raw, (bytes, bytearray)):
        raw = raw.decode()
    if not isinstance(raw, str):
        return ('not-a-list', raw)
    try:
        v = json.loads(raw)
    except ValueError:
        return ('not-json', raw)
    if not isinstance(v, list):
        return ('not-a-list', raw)
    return v


# ------------------------------------------------------------------ scalar models
# Each returns (kind, expected) with kind in
#   num | str | bool | list | null      value of T(<call>) (one row, one column)
#   prop                                T() :- <proposition>: row present iff expected
#   rows                                T(x) :- ...: multiset of the single column

def m_range(n):
    # logica.md: "FifteenToNineteen(x) :- x in Range(20), x >= 15" => Range(20) holds
    # 0..19; sqlite_funcs_test golden: Range(2) = [0,1], Range(0) = [].  For n < 0 the
    # interval 0..n-1 is empty as well.
    return list(range(0, max(n, 0)))


def m_size(l):
    # tutorial / sqlite_array_sub_test: "i in Range(Size(books))" enumerates the indices
    # of books => Size is the number of elements.
    return len(l)


def m_element(l, i):
    # sqlite_element_test golden: Element(["a".."e"], i) for i in [1,2,4] = b, c, e;
    # sqlite_array_sub_test: books[i] with i in Range(Size(books)) => 0-based.
    # Only 0 <= i < len(l) is modelled.
    assert 0 <= i < len(l)
    return l[i]


def m_in(x, l):
    # logica.md "Operator `in` makes a variable to run over elements of the list";
    # sqlite_funcs_test: Constraint(x in [y + 1, y + 2]); sqlite_in_expr_test golden:
    # (x / 2.0 in Range(10)) holds for x = 0,2,4,6,8 => numeric equality.
    return any(val_eq(x, y) for y in l)


def m_sort(l):
    # sqlite_funcs_test golden: Sort([6,3,2,5,1,4]) = [1,2,3,4,5,6]: ascending order of
    # the values (numbers numerically, strings lexicographically), duplicates kept.
    return sorted(l)


def m_array_concat(a, b):
    # logica.md shortest-path example: "ArgMin= ArrayConcat(path1, path2) -> d" builds
    # the path a followed by b; sqlite_funcs_test golden: ArrayConcat(l, null) = null.
    if a is None or b is None:
        return None
    return list(a) + list(b)


def m_concat(parts):
    # tutorial: 'String concatenation is done via `++`', "hello" ++ " " ++ "world".
    return ''.join(parts)


def m_join(l, sep):
    # sqlite_math_test golden: Join(["abc", "de", "fg"], ",") = "abc,de,fg".
    return sep.join(l)


def m_split(s, sep):
    # sqlite_math_test golden: Split("a,b,cd,ef", ",") = ["a","b","cd","ef"];
    # StandardSQL SPLIT: pieces between successive delimiter occurrences, an empty
    # string gives [""].  Delimiters that can overlap themselves and the empty
    # delimiter are not modelled.
    assert sep != ''
    return s.split(sep)


def m_to_string(x):
    # sqlite_funcs_test golden: ToString("fire") = "fire"; sqlite_array_test:
    # ToString(x) of the integers 0,1,1,2,3,5.. joins to "0,1,1,2,3,5,..." => decimal
    # representation.  Floats are not modelled.
    assert isinstance(x, (int, str))
    return str(x)


def m_to_int64(x):
    # CAST to 64-bit integer: integers unchanged, decimal strings to their value
    # (sqlite_array_test: ToInt64(Round(...)) yields 0,1,1,2,3,5,...).  Non-integral
    # floats and non-numeric strings are not modelled.
    return int(x)


def m_least(args):
    # sqlite_funcs_test golden: Least(5, 3, 6, 4) = 3.
    return min(args)


def m_greatest(args):
    # sqlite_funcs_test golden: Greatest(5, 3, 6, 4) = 6.
    return max(args)


def m_arith(op, a, b):
    # tutorial: "You can use basic operators as in most popular languages"
    # (1 + 2, 2 * (2 + 1)); sqlite_math_test golden: 2 ^ 3 = 8.0.
    if op == '+':
        return a + b
    if op == '-':
        return a - b
    if op == '*':
        return a * b
    if op == '/':
        # only exact integer quotients or a float operand are modelled
        assert b != 0
        if isinstance(a, int) and isinstance(b, int):
            assert a % b == 0
            return a // b
        return a / b
    if op == '%':
        assert isinstance(a, int) and isinstance(b, int) and a >= 0 and b > 0
        return a % b
    if op == '^':
        return math.pow(a, b)
    raise ValueError(op)


def m_cmp(op, a, b):
    return {'<': a < b, '<=': a <= b, '>': a > b, '>=': a >= b,
            '==': a == b, '!=': a != b}[op]


# ------------------------------------------------------------------ aggregate models
# Input: the list of (k, v) pairs of one group, in any order; nulls included - the
# models drop them: logica.md "Special value `null` is ignored by all built-in
# aggregating operators", and "When proposition of the aggregating expressions is not
# satisfied by any values then built-in aggregating operators result in a `null`".

LIST_OPS = ('List', 'Set', 'ArgMinK', 'ArgMaxK', 'Array')
ARG_OPS = ('ArgMin', 'ArgMax', 'ArgMinK', 'ArgMaxK')


def effective(op, pairs):
    """Pairs that count for op (null aggregated value / null ordering value ignored)."""
    if op == 'Array':
        # Array= v -> k : ordering key v (never null in the domain), element k
        return [(k, v) for k, v in pairs if k is not None]
    return [(k, v) for k, v in pairs if v is not None]


def has_tie(op, pairs, K=None):
    """True when the documentation leaves the answer open (equal ordering values
    attached to different arguments at a place that matters)."""
    eff = effective(op, pairs)
    if op in ('ArgMin', 'ArgMax'):
        if not eff:
            return False
        best = (min if op == 'ArgMin' else max)(v for k, v in eff)
        return len(set(repr(k) for k, v in eff if val_eq(v, best))) > 1
    if op in ('ArgMinK', 'ArgMaxK'):
        srt = sorted((v for k, v in eff), reverse=(op == 'ArgMaxK'))[:K]
        for x in srt:
            if len(set(repr(k) for k, v in eff if val_eq(v, x))) > 1:
                return True
        return False
    if op == 'Array':
        for k0, v0 in eff:
            if len(set(repr(k) for k, v in eff if val_eq(v, v0))) > 1:
                return True
        return False
    return False


def agg_check(op, pairs, got, K=None):
    """None if `got` (decoded result of the aggregate for this group) is a value the
    documentation allows, else (reason, expected-description).

    reason in: wrong_value | null_kept | nothing_not_null | not_a_list
    """
    eff = effective(op, pairs)
    vals = [v for k, v in eff]
    if op in LIST_OPS and isinstance(got, tuple):
        return ('not_a_list', 'a JSON list, got %r' % (got[1],))

    if not eff:
        # aggregating nothing (or only nulls) => null
        if got is None:
            return None
        if op in ('ArgMinK', 'ArgMaxK') and got == [] and pairs:
            # rows exist but all ordering values are null: "the K best of nothing" as
            # an empty list is accepted as well (documentation open, see report)
            return None
        if op in ('List', 'Set', 'Array') and isinstance(got, list) and \
                any(x is None for x in got):
            return ('null_kept', 'null (all inputs null)')
        return ('nothing_not_null', 'null')

    if op in ('Sum', '+='):
        exp = sum(vals)
        return None if num_eq(got, exp) else ('wrong_value', repr(exp))
    if op == 'Avg':
        # StandardSQL AVG: arithmetic mean of the non-null values
        exp = sum(vals) / len(vals)
        return None if num_eq(got, exp) else ('wrong_value', repr(exp))
    if op == 'Min':
        exp = min(vals)      # logica.md Fruit example: "maximal_weight? Max= weight"
        return None if val_eq(got, exp) else ('wrong_value', repr(exp))
    if op == 'Max':
        exp = max(vals)
        return None if val_eq(got, exp) else ('wrong_value', repr(exp))
    if op == 'Count':
        # callers: "Count{ city :- Route(i, city) } != 1" (exactly one city per step),
        # "PartnerCount(planet: p, n? Count= dest)": number of DISTINCT values
        exp = len(as_set(vals))
        return None if (is_num(got) and got == exp) else ('wrong_value', repr(exp))
    if op == 'List':
        # logica.md list comprehension: all the values (multiset); order unspecified
        if not isinstance(got, list):
            return ('wrong_value', 'multiset %r' % (sorted(vals, key=canon_key),))
        if multiset_eq(got, vals):
            return None
        if any(x is None for x in got) and multiset_eq(
                [x for x in got if x is not None], vals):
            return ('null_kept', 'multiset %r' % (sorted(vals, key=canon_key),))
        return ('wrong_value', 'multiset %r' % (sorted(vals, key=canon_key),))
    if op == 'Set':
        exp = as_set(vals)
        if not isinstance(got, list):
            return ('wrong_value', 'set %r' % (exp,))
        if len(got) == len(exp) and multiset_eq(got, exp):
            return None
        g2 = [x for x in got if x is not None]
        if len(g2) != len(got) and len(g2) == len(exp) and multiset_eq(g2, exp):
            return ('null_kept', 'set %r' % (exp,))
        return ('wrong_value', 'set %r' % (exp,))
    if op in ('ArgMin', 'ArgMax'):
        # logica.md: "ArgMax and ArgMin allow for selection of a key with the largest
        # value"; ties: any key attaining the optimum
        best = (min if op == 'ArgMin' else max)(vals)
        cands = [k for k, v in eff if val_eq(v, best)]
        if any(val_eq(got, k) for k in cands):
            return None
        return ('wrong_value', 'one of %r' % (cands,))
    if op in ('ArgMinK', 'ArgMaxK'):
        # README "ArgMax5(x) = ArgMaxK(x, 5)": the (at most) K arguments with the
        # largest values; arg_min_max_test golden: ArgMaxK lists them by descending
        # value, ArgMinK by ascending value.  Ties: any choice / order among equals.
        srt = sorted(vals, reverse=(op == 'ArgMaxK'))[:K]
        desc = '%d args whose values are %r in this order' % (len(srt), srt)
        if not isinstance(got, list) or len(got) != len(srt):
            return ('wrong_value', desc)
        i = 0
        while i < len(srt):
            j = i
            while j < len(srt) and val_eq(srt[j], srt[i]):
                j += 1
            avail = collections.Counter(repr(k) for k, v in eff if val_eq(v, srt[i]))
            need = collections.Counter(repr(k) for k in got[i:j])
            if any(avail[x] < c for x, c in need.items()):
                return ('wrong_value', desc)
            i = j
        return None
    if op == 'Array':
        # tutorial: "Array aggregate function lets us accumulate lists sorted by an
        # arbitrary comparable key ... <sorting key> -> <list element>"; elements
        # with equal keys may come in any order
        srt = sorted(eff, key=lambda kv: canon_key(kv[1]))
        desc = 'elements ordered by key: %r' % ([k for k, v in srt],)
        if not isinstance(got, list):
            return ('wrong_value', desc)
        if len(got) != len(srt):
            if any(x is None for x in got):
                return ('null_kept', desc)
            return ('wrong_value', desc)
        i = 0
        while i < len(srt):
            j = i
            while j < len(srt) and val_eq(srt[j][1], srt[i][1]):
                j += 1
            if not multiset_eq(got[i:j], [k for k, v in srt[i:j]]):
                return ('wrong_value', desc)
            i = j
        return None
    raise ValueError(op)


def agg_canon(op, got):
    """Canonical form used for the permutation-invariance comparison."""
    if isinstance(got, tuple):
        return ('bad', repr(got))
    if op == 'List' and isinstance(got, list):
        return [canon_key(x) for x in sorted(got, key=canon_key)]
    if op == 'Set' and isinstance(got, list):
        return [canon_key(x) for x in as_set(got)]
    if isinstance(got, list):
        return [canon_key(x) for x in got]
    return canon_key(got)
