"""Build the C++ parser shared object from the CURRENT $VERIF_REPO source, once.

`parser_cpp/logica_parse_cpp.py` builds its shared object lazily into a cache keyed by
the *path* of the repository and decides freshness by mtime.  Neither is good enough
for a verification run: a mutated scratch copy must never pick up a stale object, and
16 workers starting at the same moment must not run 16 compilers.  So we build it
ourselves,

    /verif/.build/cppparser/<sha256(source + flags + compiler)>/liblogica_parse_cpp.so

under an exclusive `flock`, to a temporary name followed by an atomic rename, and make
the bridge load exactly that file (`EnsureCppParserSharedObject` is the single place
where the bridge decides which file to `ctypes.CDLL`).  The compiler flags are the
bridge's own.  XDG_CACHE_HOME is pointed into /verif/.build as well, so that even an
unpatched code path can never write to the user's home directory.

    from lv import cppbuild; cppbuild.install()      # idempotent, cheap after 1st call
"""
import fcntl
import hashlib
import os
import shutil
import subprocess
import sys
import time

from lv import core

BUILD_ROOT = os.path.join(core.VERIF, '.build', 'cppparser')
FLAGS = ['-std=c++20', '-O2', '-fPIC', '-shared', '-DLOGICA_PARSE_LIBRARY']
SO_NAME = 'liblogica_parse_cpp.so'
KEEP = 8                  # number of old builds (mutants...) kept around

_installed = {}           # repo path -> so path


def source_path():
    return os.path.join(core.repo_path(), 'parser_cpp', 'logica_parse.cpp')


def _digest(src):
    hh = hashlib.sha256()
    with open(src, 'rb') as f:
        hh.update(f.read())
    hh.update(('\0' + ' '.join(FLAGS)).encode())
    return hh.hexdigest()[:20]


def _prune(keep_dir):
    """Remove all but the KEEP most recently used build directories (ensure() touches
    the object on every use, so the build of the unchanged tree is not the first to go
    during a series of mutant runs)."""
    try:
        ds = [os.path.join(BUILD_ROOT, d) for d in os.listdir(BUILD_ROOT)]
        ds = [d for d in ds if os.path.isdir(d) and d != keep_dir and
              os.path.exists(os.path.join(d, SO_NAME))]
        ds.sort(key=lambda d: os.path.getmtime(os.path.join(d, SO_NAME)))
        for d in ds[:-KEEP] if len(ds) > KEEP else []:
            shutil.rmtree(d, ignore_errors=True)
    except OSError:
        pass


def ensure():
    """Returns the path of a shared object built from the current source."""
    src = source_path()
    if not os.path.isfile(src):
        raise RuntimeError('C++ parser source not found: %s' % src)
    d = os.path.join(BUILD_ROOT, _digest(src))
    so = os.path.join(d, SO_NAME)
    if os.path.isfile(so):
        try:
            os.utime(so, None)      # _prune keeps the most recently USED builds
        except OSError:
            pass
        return so
    os.makedirs(d, exist_ok=True)
    with open(os.path.join(d, 'build.lock'), 'w') as lock:
        fcntl.flock(lock, fcntl.LOCK_EX)       # blocks while another process builds
        try:
            if os.path.isfile(so):
                return so
            tmp = '%s.tmp.%d' % (so, os.getpid())
            cmd = ['g++'] + FLAGS + ['-o', tmp, src]
            t0 = time.time()
            p = subprocess.run(cmd, stdout=subprocess.PIPE, stderr=subprocess.STDOUT,
                               text=True)
            if p.returncode != 0 or not os.path.isfile(tmp):
                try:
                    os.remove(tmp)
                except OSError:
                    pass
                raise RuntimeError('building the C++ parser failed (rc=%s): %s\n%s' % (
                    p.returncode, ' '.join(cmd), p.stdout[-3000:]))
            os.replace(tmp, so)
            with open(os.path.join(d, 'build.txt'), 'w') as f:
                f.write('source %s\ncmd %s\nseconds %.1f\n' % (src, ' '.join(cmd),
                                                               time.time() - t0))
            _prune(d)
            return so
        finally:
            fcntl.flock(lock, fcntl.LOCK_UN)


def install():
    """Builds if needed and makes parser_cpp.logica_parse_cpp load our object."""
    rp = core.setup_repo_imports()
    if rp in _installed:
        return _installed[rp]
    so = ensure()
    os.environ['XDG_CACHE_HOME'] = os.path.join(core.VERIF, '.build', 'xdg_cache')
    from parser_cpp import logica_parse_cpp
    logica_parse_cpp.EnsureCppParserSharedObject = lambda repo_root=None: so
    logica_parse_cpp._LIB = None               # force (re)load through the hook
    logica_parse_cpp.LoadCppParserLib()
    _installed[rp] = so
    return so


if __name__ == '__main__':
    print(install())
    sys.exit(0)
