"""Driver: the real pipeline (parse -> LogicaProgram -> FormattedPredicateSql ->
SQLite), same statements as `logica.py <file> run <p>`; concertina for plans."""
import contextlib
import copy
import io
import json
import os
import sqlite3
import sys

from lv import core

core.setup_repo_imports()

from parser_py import parse                      # noqa: E402
from compiler import universe, rule_translate, functors   # noqa: E402
from common import sqlite3_logica, concertina_lib          # noqa: E402
from type_inference.research import infer        # noqa: E402

DIAGNOSTICS = (parse.ParsingException, rule_translate.RuleCompileException,
               functors.FunctorError, infer.TypeErrorCaughtException)

SQLITE_OP_BUDGET = int(os.environ.get('VERIF_SQLITE_OPS', '12000000'))
# Count-based memory guard: SQLite's hard heap limit (process-wide).  Preparing a
# statement in which WITH tables are referenced several times per level (vertically
# unfolded non-linear recursion) can need tens of GB before the first VDBE step, where
# the progress handler cannot help.  Exceeding the limit => Interrupted (inconclusive).
SQLITE_HEAP_LIMIT = int(os.environ.get('VERIF_SQLITE_HEAP', str(192 << 20)))


class Interrupted(Exception):
    pass


# SQLite capacity limits (not semantics): statement too deeply nested for the parser
# stack / expression depth limit, out of (bounded) memory.  => inconclusive.
ENGINE_LIMIT_MESSAGES = ('interrupted', 'out of memory', 'parser stack overflow',
                         'Expression tree is too large', 'too many terms in compound SELECT',
                         'too many FROM clause terms', 'at most 64 tables in a join')


def is_engine_limit(e):
    m = str(e)
    return any(x in m for x in ENGINE_LIMIT_MESSAGES)


# ---- optional memoisation of the dialect-library parse (filled by the real parser)
_real_parse_file = parse.ParseFile
_lib_cache = {}
_lib_texts = None
_cache_on = [False]


def _is_library_text(content):
    global _lib_texts
    if _lib_texts is None:
        from compiler import dialects
        _lib_texts = set()
        for name in list(getattr(dialects, 'DIALECTS', {}) or []):
            try:
                _lib_texts.add(dialects.Get(name).LibraryProgram())
            except Exception:
                pass
    return content in _lib_texts


def _caching_parse_file(content, *a, **kw):
    if _cache_on[0] and not a and not kw and _is_library_text(content):
        mode = os.environ.get('LOGICA_PARSER', '')
        key = (mode, content)
        if key not in _lib_cache:
            _lib_cache[key] = _real_parse_file(content)
        return copy.deepcopy(_lib_cache[key])
    return _real_parse_file(content, *a, **kw)


def enable_library_cache(on=True):
    _cache_on[0] = on
    parse.ParseFile = _caching_parse_file if on else _real_parse_file


def classify_exception(e):
    if isinstance(e, DIAGNOSTICS):
        return 'diagnostic:' + type(e).__name__
    return 'internal:' + type(e).__name__


def exc_frame(e):
    """Innermost frame inside the repository, for bucketing."""
    import traceback
    tb = traceback.extract_tb(e.__traceback__)
    rp = core.repo_path()
    fr = [f for f in tb if f.filename.startswith(rp)]
    if not fr:
        return type(e).__name__
    f = fr[-1]
    return '%s@%s:%s' % (type(e).__name__, os.path.relpath(f.filename, rp), f.name)


def quiet():
    return contextlib.redirect_stdout(io.StringIO())


def parse_rules(text, import_root=None):
    with quiet():
        return parse.ParseFile(text, import_root=import_root)['rule']


def compile_program(text, pred, flags=None, import_root=None):
    with quiet():
        rules = parse.ParseFile(text, import_root=import_root)['rule']
        prog = universe.LogicaProgram(rules, user_flags=flags or {})
        sql = prog.FormattedPredicateSql(pred)
    return prog, sql


def compile_rules(rules, pred, flags=None):
    """Compile from an already parsed rule list (deep-copied: the parse of one
    program text is shared by the compilations of its predicates)."""
    with quiet():
        prog = universe.LogicaProgram(copy.deepcopy(rules), user_flags=flags or {})
        sql = prog.FormattedPredicateSql(pred)
    return prog, sql


def connect(database=':memory:'):
    con = sqlite3_logica.SqliteConnect(database)
    state = [0]

    def handler():
        state[0] += 1
        return 1 if state[0] * 10000 > SQLITE_OP_BUDGET else 0
    con.set_progress_handler(handler, 10000)
    con.execute('PRAGMA hard_heap_limit=%d' % SQLITE_HEAP_LIMIT)
    return con


def execute(prog, con=None):
    """Run preamble, defines_and_exports (scripts) and main; -> (header, rows)."""
    ex = prog.execution
    own = con is None
    if own:
        con = connect()
    try:
        cur = con.cursor()
        for s in [ex.preamble] + list(ex.defines_and_exports):
            cur.executescript(s)
        cur.execute(ex.main_predicate_sql)
        rows = cur.fetchall()
        hdr = [d[0] for d in cur.description]
        return hdr, rows
    except sqlite3.OperationalError as e:
        if is_engine_limit(e):
            raise Interrupted()
        raise
    except MemoryError:
        raise Interrupted()
    finally:
        if own:
            con.close()


def run(text, pred, flags=None, import_root=None, rules=None):
    if rules is not None:
        prog, sql = compile_rules(rules, pred, flags)
    else:
        prog, sql = compile_program(text, pred, flags, import_root)
    hdr, rows = execute(prog)
    return hdr, rows, sql


def run_concertina(text, preds, flags=None, con=None, import_root=None, log=None,
                   max_calls=None):
    """Multi-predicate / iterative run through concertina_lib.ExecuteLogicaProgram."""
    with quiet():
        rules = parse.ParseFile(text, import_root=import_root)['rule']
        prog = universe.LogicaProgram(rules, user_flags=flags or {})
        exs = []
        for p in preds:
            prog.FormattedPredicateSql(p)
            exs.append(prog.execution)
    own = con is None
    if own:
        con = connect()
    calls = [0]

    def runner(sql, engine, is_final):
        calls[0] += 1
        if max_calls is not None and calls[0] > max_calls:
            raise Interrupted()
        if log is not None:
            log.append((is_final, sql))
        try:
            if is_final:
                c = con.execute(sql)
                return [d[0] for d in c.description], c.fetchall()
            con.executescript(sql)
        except sqlite3.OperationalError as e:
            if is_engine_limit(e):
                raise Interrupted()
            raise
        except MemoryError:
            raise Interrupted()
    try:
        with quiet():
            res = concertina_lib.ExecuteLogicaProgram(
                exs, runner, 'sqlite', display_mode='silent')
    finally:
        if own:
            con.close()
    return res, prog
