"""Type-preserving augmentations and single-point type corruptions of lv.model programs
(C05).  The mutator only *proposes* programs; whether a proposal is a clash, still
well-typed, or outside the property's domain is decided afterwards by the reference
checker lv/typeref.py, never by the bookkeeping here.
"""
from lv import typeref
from lv.typeref import find, render

OTHER_LIT = {'Num': [('lit', 'c'), ('lit', 'zq'), ('lit', True)],
             'Str': [('lit', 4), ('lit', 0), ('lit', False)],
             'Bool': [('lit', 6), ('lit', 'b')]}


# ----------------------------------------------------------------- paths in a rule

def rule_root(r):
    return (tuple(r['head']), r.get('value'), tuple(r['body']))


def rule_from_root(r, root):
    r2 = dict(r)
    r2['head'], r2['value'], r2['body'] = root[0], root[1], root[2]
    return r2


def get(node, path):
    for i in path:
        node = node[i]
    return node


def put(node, path, new):
    if not path:
        return new
    i = path[0]
    node = tuple(node)
    return node[:i] + (put(node[i], path[1:], new),) + node[i + 1:]


def expr_sites(e, path, scope, ctx, out):
    """out: (path, expr, scope body, context) for every expression node."""
    out.append((path, e, scope, ctx))
    k = e[0]
    if k in ('bin', 'cmp'):
        c = k + ':' + e[1]
        expr_sites(e[2], path + (2,), scope, c, out)
        expr_sites(e[3], path + (3,), scope, c, out)
    elif k in ('not', 'size', 'field'):
        expr_sites(e[1], path + (1,), scope, k, out)
    elif k == 'if':
        expr_sites(e[1], path + (1,), scope, 'ifcond', out)
        expr_sites(e[2], path + (2,), scope, 'ifbranch', out)
        expr_sites(e[3], path + (3,), scope, 'ifbranch', out)
    elif k == 'list':
        for i, x in enumerate(e[1]):
            expr_sites(x, path + (1, i), scope, 'listelem', out)
    elif k == 'rec':
        for i, (f, x) in enumerate(e[1]):
            expr_sites(x, path + (1, i, 1), scope, 'recfield', out)
    elif k in ('elem', 'inx', 'arrow'):
        expr_sites(e[1], path + (1,), scope, k + '0', out)
        expr_sites(e[2], path + (2,), scope, k + '1', out)
    elif k == 'fcall':
        for i, a in enumerate(e[2]):
            expr_sites(a[1], path + (2, i, 1), scope, 'fcallarg', out)


def body_sites(body, path, out, bodies):
    bodies.append((path, body))
    _body_sites(body, path, body, out, bodies)


def _body_sites(body, path, scope, out, bodies):
    for j, l in enumerate(body):
        p = path + (j,)
        k = l[0]
        if k == 'call':
            for i, a in enumerate(l[2]):
                expr_sites(a[1], p + (2, i, 1), scope, 'callarg', out)
        elif k == 'cmp':
            expr_sites(l[2], p + (2,), scope, 'cmp:' + l[1], out)
            expr_sites(l[3], p + (3,), scope, 'cmp:' + l[1], out)
        elif k == 'assign':
            expr_sites(l[2], p + (2,), scope, 'assign', out)
        elif k == 'in':
            expr_sites(l[1], p + (1,), scope, 'in0', out)
            expr_sites(l[2], p + (2,), scope, 'in1', out)
        elif k == 'prop':
            expr_sites(l[1], p + (1,), scope, 'prop', out)
        elif k == 'neg':
            body_sites(l[1], p + (1,), out, bodies)
        elif k == 'impl':
            body_sites(l[1], p + (1,), out, bodies)
            body_sites(l[2], p + (2,), out, bodies)
        elif k == 'agg':
            expr_sites(l[3], p + (3,), l[4], 'aggarg:' + l[2], out)
            body_sites(l[4], p + (4,), out, bodies)
        elif k == 'or':
            for i, b in enumerate(l[1]):
                _body_sites(b, p + (1, i), scope, out, bodies)


def rule_sites(r):
    """-> (expression sites, bodies [(path, body tuple)]) of a rule, paths relative to
    rule_root(r)."""
    root = rule_root(r)
    out, bodies = [], []
    for i, (f, h) in enumerate(root[0]):
        if h[0] == 'AGG':
            expr_sites(h[2], (0, i, 1, 2), root[2], 'headagg:' + h[1], out)
        else:
            expr_sites(h, (0, i, 1), root[2], 'head', out)
    v = root[1]
    if v is not None:
        if v[0] == 'AGG':
            expr_sites(v[2], (1, 2), root[2], 'headagg:' + v[1], out)
        else:
            expr_sites(v, (1,), root[2], 'head', out)
    body_sites(root[2], (2,), out, bodies)
    return out, bodies


# ----------------------------------------------------------------- corruptions

def atom_of(ck, e):
    t = ck.etype.get(id(e))
    if t is None:
        return None
    return render(t)


def env_of(ck, scope):
    return ck.env_of.get(id(scope), {})


def vars_by_type(ck, scope):
    by = {}
    for v, t in sorted(env_of(ck, scope).items()):
        if typeref.ground(t):
            by.setdefault(render(t), []).append(v)
    return by


def with_rule(prog, idx, r2):
    p = dict(prog)
    p['rules'] = list(prog['rules'])
    p['rules'][idx] = r2
    return p


def replace_site(prog, idx, path, new):
    r = prog['rules'][idx]
    return with_rule(prog, idx, rule_from_root(r, put(rule_root(r), path, new)))


def add_literal(prog, idx, body_path, lit, rng):
    r = prog['rules'][idx]
    root = rule_root(r)
    body = tuple(get(root, body_path))
    pos = rng.randint(0, len(body))
    return with_rule(prog, idx, rule_from_root(
        r, put(root, body_path, body[:pos] + (lit,) + body[pos:])))


def lit_payload_list(e):
    return e[0] == 'lit' and isinstance(e[1], (list, tuple))


def closed_lit_vars(ck, scope):
    """[(variable, record type)] of a scope whose type is a closed record made by a
    record literal, with atom fields to read."""
    out = []
    for v, t in sorted(env_of(ck, scope).items()):
        t = find(t)
        if t.kind == 'rec' and t.closed and t.lit and t.fields and typeref.ground(t):
            out.append((v, t))
    return out


def valid_access(x, t, rng, fresh):
    f = rng.choice(sorted(t.fields, key=str))
    ft = find(t.fields[f])
    e = ('field', ('var', x), f)
    if ft.kind == 'Num':
        return ('cmp', rng.choice(['<=', '>=']), e, ('lit', rng.choice([0, 7])))
    if ft.kind == 'Str':
        return ('cmp', '<=', e, ('lit', 'zz'))
    return ('cmp', '==', ('var', fresh), e)


def missing_access(x, rng, fresh):
    e = ('field', ('var', x), rng.choice(['zq', 'nofield']))
    if rng.random() < 0.5:
        return ('cmp', '==', ('var', fresh), e)
    return ('cmp', '<=', ('bin', '+', e, ('lit', 1)), ('lit', 3))


def candidates(prog, ck, include_neq=False):
    """All proposals as (kind, thunk(rng) -> program).  ck: strict reference check of
    `prog` (types of its expressions and scopes)."""
    out = []
    for idx, r in enumerate(prog['rules']):
        sites, bodies = rule_sites(r)
        is_fact = not r['body']
        for path, e, scope, ctx in sites:
            ty = atom_of(ck, e)
            if ty is None:
                continue
            k = e[0]
            if k == 'lit' and ty in OTHER_LIT:
                out.append(('fact_lit' if is_fact else 'lit_swap',
                            lambda rng, idx=idx, path=path, ty=ty: replace_site(
                                prog, idx, path, rng.choice(OTHER_LIT[ty][:2]))))
            if k == 'var':
                by = vars_by_type(ck, scope)
                others = [v for t2, vs in sorted(by.items()) if t2 != ty for v in vs]
                if others:
                    out.append(('var_swap', lambda rng, idx=idx, path=path, others=others:
                                replace_site(prog, idx, path, ('var', rng.choice(others)))))
            if ty == 'Str' and k != 'lit':
                out.append(('plus_on_str', lambda rng, idx=idx, path=path, e=e:
                            replace_site(prog, idx, path,
                                         ('bin', rng.choice(['+', '-', '*']), e, ('lit', 1)))))
            if ty == 'Num' and k != 'lit':
                out.append(('concat_on_num', lambda rng, idx=idx, path=path, e=e:
                            replace_site(prog, idx, path, ('bin', '++', e, ('lit', 'a')))))
                out.append(('not_on_num', lambda rng, idx=idx, path=path, e=e:
                            replace_site(prog, idx, path,
                                         ('if', ('not', e), e, e))))
            if ty in OTHER_LIT and k not in ('lit', 'var') and not is_fact:
                out.append(('expr_to_lit', lambda rng, idx=idx, path=path, ty=ty:
                            replace_site(prog, idx, path, rng.choice(OTHER_LIT[ty]))))
            if ty in ('[Num]', '[Str]') and (k == 'list' or lit_payload_list(e)):
                def mix(rng, idx=idx, path=path, e=e, ty=ty):
                    items = list(e[1]) if e[0] == 'list' else [('lit', x) for x in e[1]]
                    items.insert(rng.randint(0, len(items)),
                                 rng.choice(OTHER_LIT[ty[1:-1]][:2]))
                    return replace_site(prog, idx, path, ('list', tuple(items)))
                out.append(('mixed_list', mix))
            if k == 'rec' and len(e[1]) >= 2:
                def drop(rng, idx=idx, path=path, e=e):
                    i = rng.randrange(len(e[1]))
                    return replace_site(prog, idx, path,
                                        ('rec', tuple(e[1][:i]) + tuple(e[1][i + 1:])))
                out.append(('rec_drop_field', drop))

                def extra(rng, idx=idx, path=path, e=e):
                    return replace_site(prog, idx, path,
                                        ('rec', tuple(e[1]) + (('zq', ('lit', 1)),)))
                out.append(('rec_extra_field', extra))
            if ctx.startswith('headagg:') or ctx.startswith('aggarg:'):
                op = ctx.split(':')[1]
                single = sum(1 for r2 in prog['rules'] if r2['pred'] == r['pred']) == 1
                if ty == 'Str' and op in ('Min', 'Max', 'Count', 'List', 'Set') and \
                        (single or ctx.startswith('aggarg:')):
                    def sumstr(rng, idx=idx, path=path):
                        # path ends at the aggregated expression; the operator sits
                        # one step up (('AGG', op, e) / ('agg', v, op, e, body, form))
                        r = prog['rules'][idx]
                        root = rule_root(r)
                        holder = get(root, path[:-1])
                        if holder[0] == 'AGG':
                            new = ('AGG', rng.choice(['+', 'Sum']), holder[2])
                        else:
                            new = holder[:2] + ('Sum',) + holder[3:5] + (0,)
                        return with_rule(prog, idx, rule_from_root(
                            r, put(root, path[:-1], new)))
                    out.append(('sum_of_str', sumstr))
        # call / fcall argument swaps
        for path, e, scope, ctx in sites:
            if e[0] == 'fcall' and len(e[2]) >= 2:
                tys = [atom_of(ck, a[1]) for a in e[2]]
                pairs = [(i, j) for i in range(len(tys)) for j in range(i + 1, len(tys))
                         if tys[i] != tys[j] and tys[i] and tys[j]]
                if pairs:
                    def swp(rng, idx=idx, path=path, e=e, pairs=pairs):
                        i, j = rng.choice(pairs)
                        args = list(e[2])
                        args[i], args[j] = (args[i][0], args[j][1]), (args[j][0], args[i][1])
                        return replace_site(prog, idx, path, ('fcall', e[1], tuple(args)))
                    out.append(('arg_swap', swp))
        for bpath, body in bodies:
            for j, l in enumerate(body):
                if l[0] == 'call' and len(l[2]) >= 2:
                    tys = [atom_of(ck, a[1]) for a in l[2]]
                    pairs = [(i, k2) for i in range(len(tys))
                             for k2 in range(i + 1, len(tys))
                             if tys[i] != tys[k2] and tys[i] and tys[k2]]
                    if pairs:
                        def swp2(rng, idx=idx, lp=bpath + (j,), l=l, pairs=pairs):
                            i, k2 = rng.choice(pairs)
                            args = list(l[2])
                            args[i], args[k2] = (args[i][0], args[k2][1]), \
                                (args[k2][0], args[i][1])
                            return replace_site(prog, idx, lp,
                                                ('call', l[1], tuple(args)) + tuple(l[3:]))
                        out.append(('arg_swap', swp2))
        # added conjuncts
        for bpath, body in bodies:
            by = vars_by_type(ck, body)
            tys = sorted(by)
            cross = [(a, b) for a in tys for b in tys if a < b]
            if cross:
                def addeq(rng, idx=idx, bpath=bpath, by=by, cross=cross, op=None):
                    a, b = rng.choice(cross)
                    x, y = ('var', rng.choice(by[a])), ('var', rng.choice(by[b]))
                    if rng.random() < 0.5:
                        x, y = y, x
                    return add_literal(prog, idx, bpath, ('cmp', op or '==', x, y), rng)
                out.append(('eq_across', addeq))
                out.append(('cmp_across', lambda rng, f=addeq: f(
                    rng, op=rng.choice(['<', '<=', '>', '>=']))))
                if include_neq:
                    out.append(('neq_across', lambda rng, f=addeq: f(rng, op='!=')))
            atoms = [t for t in tys if t in OTHER_LIT]
            if atoms:
                def addlit(rng, idx=idx, bpath=bpath, by=by, atoms=atoms, form=None):
                    a = rng.choice(atoms)
                    x = ('var', rng.choice(by[a]))
                    lit = rng.choice(OTHER_LIT[a][:2])
                    if form == 'in':
                        return add_literal(prog, idx, bpath,
                                           ('in', x, ('list', (lit,))), rng)
                    if form == 'prop':
                        return add_literal(
                            prog, idx, bpath,
                            ('prop', ('bin', rng.choice(['&&', '||']),
                                      ('cmp', rng.choice(['==', '<=']), x, lit),
                                      ('cmp', '==', ('lit', 1), ('lit', 1)))), rng)
                    if form == 'neq':
                        return add_literal(prog, idx, bpath, ('cmp', '!=', x, lit), rng)
                    if form == 'inx':
                        # `in` as an EXPRESSION (operand of || / value compared with a
                        # Bool), not the proposition `x in l`
                        e = ('inx', x, ('list', (lit,)))
                        return add_literal(prog, idx, bpath, rng.choice([
                            ('prop', ('bin', '||', e, ('cmp', '==', ('lit', 1), ('lit', 1)))),
                            ('prop', ('not', e)),
                            ('cmp', '==', e, ('cmp', '==', ('lit', 1), ('lit', 1)))]), rng)
                    return add_literal(prog, idx, bpath,
                                       ('cmp', rng.choice(['==', '<', '>=']), x, lit), rng)
                out.append(('cmp_with_lit', addlit))
                out.append(('in_other_list', lambda rng, f=addlit: f(rng, form='in')))
                out.append(('prop_across', lambda rng, f=addlit: f(rng, form='prop')))
                if include_neq:
                    out.append(('neq_across', lambda rng, f=addlit: f(rng, form='neq')))
                    out.append(('in_expression_other_list',
                                lambda rng, f=addlit: f(rng, form='inx')))
            closed = closed_lit_vars(ck, body)
            if closed:
                def missing(rng, idx=idx, bpath=bpath, closed=closed):
                    # 1-2 valid accesses and one access to a field the closed record
                    # does not have, each at a drawn position of the same scope
                    x, t = rng.choice(closed)
                    used = model_vars(prog['rules'][idx])
                    fresh = [v for v in ('mq1', 'mq2', 'mq3') if v not in used]
                    if len(fresh) < 3:
                        return None
                    lits = [valid_access(x, t, rng, fresh[k])
                            for k in range(rng.randint(1, 2))]
                    lits.append(missing_access(x, rng, fresh[2]))
                    p = prog
                    for l in lits:
                        p = add_literal(p, idx, bpath, l, rng)
                    return p
                out.append(('missing_field', missing))
            recs = [t for t in tys if t.startswith('{')]
            if recs:
                def badfield(rng, idx=idx, bpath=bpath, by=by, recs=recs):
                    # the record's field used at another ground type
                    t = rng.choice(recs)
                    x = ('var', rng.choice(by[t]))
                    return add_literal(prog, idx, bpath, rng.choice([
                        ('cmp', '==', ('field', x, 'a'), ('lit', 'c')),
                        ('cmp', '<=', ('bin', '+', ('field', x, 'b'), ('lit', 1)),
                         ('lit', 3)),
                        ('cmp', '==', x, ('rec', (('a', ('lit', 1)),))),
                        ('cmp', '==', x, ('rec', (('a', ('lit', 'c')), ('b', ('lit', 'c'))))),
                    ]), rng)
                out.append(('rec_field_use', badfield))
    # a bound variable passed to a column of another ground type (list of another
    # element type, another atom ...): both types come from predicate signatures
    cols = []
    for pred, sg in sorted(ck.sig.items()):
        if pred in prog.get('inj', {}):
            continue
        for f, t in sorted(sg.items(), key=lambda kv: str(kv[0])):
            if typeref.ground(t):
                cols.append((pred, f, render(t)))
    for idx, r in enumerate(prog['rules']):
        if not r['body']:
            continue
        sites, bodies = rule_sites(r)
        for bpath, body in bodies:
            by = vars_by_type(ck, body)
            opts = []
            for t, vs in sorted(by.items()):
                for pred, f, ct in cols:
                    if ct != t and pred != r['pred'] and \
                            defined_before(prog, pred, r['pred']):
                        same_kind = ct[:1] == t[:1] and t[:1] in '[{'
                        opts.append((same_kind, vs, pred, f))
            if opts:
                def wrongcol(rng, idx=idx, bpath=bpath, pool=opts):
                    _, vs, pred, f = rng.choice(pool)
                    args = ((f, ('var', rng.choice(vs))),)
                    if isinstance(f, int) and f > 0:
                        # positional arguments are printed without their index: the
                        # columns before it get fresh variables
                        used = model_vars(prog['rules'][idx])
                        fresh = [n for n in ('wa', 'wb', 'wc', 'wd', 'we')
                                 if n not in used]
                        args = tuple((i, ('var', fresh[i])) for i in range(f)) + args
                    return add_literal(prog, idx, bpath, ('call', pred, args, ()), rng)
                out.append(('call_wrong_column', wrongcol))
                pref = [o for o in opts if o[0]]
                if pref:
                    # list of T passed where a list of T' is expected (same for records)
                    out.append(('call_same_kind_column',
                                lambda rng, f=wrongcol, pref=pref: f(rng, pool=pref)))
    # one column of an extensional predicate retyped in every fact: the definition
    # stays consistent, the uses elsewhere clash
    facts = {}
    for idx, r in enumerate(prog['rules']):
        if not r['body']:
            facts.setdefault(r['pred'], []).append(idx)
    for pred, idxs in sorted(facts.items()):
        r0 = prog['rules'][idxs[0]]
        cols = list(range(len(r0['head']))) + (['value'] if r0.get('value') else [])
        for c in cols:
            def retype(rng, idxs=idxs, c=c):
                p = dict(prog)
                p['rules'] = list(prog['rules'])
                mode = rng.randrange(3)
                for i in idxs:
                    r = p['rules'][i]
                    h = r['value'] if c == 'value' else r['head'][c][1]
                    h2 = retype_lit(h, mode)
                    if h2 is None:
                        return None
                    r2 = dict(r)
                    if c == 'value':
                        r2['value'] = h2
                    else:
                        hd = list(r['head'])
                        hd[c] = (hd[c][0], h2)
                        r2['head'] = tuple(hd)
                    p['rules'][i] = r2
                return p
            out.append(('retype_column', retype))
    # a predicate one of whose rules passes a column on by variables only
    # (`P(v: x) :- D(f: x)`): another rule / fact of P gives that column another type.
    # The clash exists only between two rules and only through the callee's signature.
    for idx, r in enumerate(prog['rules']):
        for c, (hf, h) in enumerate(r['head']):
            if h[0] != 'var' or not r['body'] or \
                    not all(l[0] == 'call' and all(a[1][0] == 'var' for a in l[2])
                            for l in r['body']):
                continue
            others = [j for j, r2 in enumerate(prog['rules'])
                      if j != idx and r2['pred'] == r['pred'] and c < len(r2['head'])
                      and r2['head'][c][0] == hf]
            for j in others:
                r2 = prog['rules'][j]
                h2 = r2['head'][c][1]
                if not r2['body'] and retype_lit(h2, 0) is not None:
                    def refact(rng, j=j, c=c, h2=h2):
                        new = retype_lit(h2, rng.randrange(3))
                        return None if new is None else replace_site(
                            prog, j, (0, c, 1), new)
                    out.append(('relay_clash', refact))
                elif h2[0] == 'var' and len(r2['body']) == 1 and r2['body'][0][0] == 'call':
                    l = r2['body'][0]
                    ty = atom_of(ck, h2)
                    s2 = ck.sig.get(l[1]) or {}
                    named = [f for f, t in sorted(s2.items(), key=lambda kv: str(kv[0]))
                             if isinstance(f, str) and f != 'logica_value'
                             and typeref.ground(t) and render(t) != ty]
                    k = [i for i, a in enumerate(l[2]) if a[1] == h2]
                    if named and len(k) == 1 and isinstance(l[2][k[0]][0], str):
                        def recol(rng, j=j, k=k[0], named=named, h2=h2):
                            return replace_site(prog, j, (2, 0, 2, k),
                                                (rng.choice(named), h2))
                        out.append(('relay_clash', recol))
    # the consumer of a record handed on by a predicate that reads one of its fields
    # addresses a field the (closed) record does not have
    for idx, r in enumerate(prog['rules']):
        if r['pred'] == CONSUMER and r['body']:
            sites, _ = rule_sites(r)
            for path, e, scope, ctx in sites:
                if e[0] == 'field' and e[1][0] == 'var':
                    def badcons(rng, idx=idx, path=path, e=e):
                        return replace_site(prog, idx, path,
                                            ('field', e[1], rng.choice(['zq', 'nofield'])))
                    out.append(('missing_field_consumer', badcons))
    return out


def defined_before(prog, callee, caller):
    """callee's rules do not (transitively) need caller: adding a call keeps the
    program non-recursive."""
    from lv.props import common
    rules, seen = common.closure_rules(prog, callee)
    return caller not in seen


def retype_lit(h, mode):
    """A literal of another ground type, the same for every fact of the column."""
    if h[0] == 'lit':
        v = h[1]
        if isinstance(v, bool):
            return ('lit', 1)
        if isinstance(v, (int, float)):
            return ('lit', 'n%d' % (v % 7))
        if isinstance(v, str):
            return ('lit', len(v) + 1)
        if isinstance(v, (list, tuple)) and v:
            if mode == 0:
                return ('lit', len(v))
            return ('lit', [('s%d' % (x % 5)) if isinstance(x, int) else len(x)
                            for x in v])
        return None
    if h[0] == 'rec':
        fs = list(h[1])
        if mode == 0:
            # one field changes type: {a: Num, b: Str} -> {a: Str, b: Str}
            f, x = fs[0]
            x2 = retype_lit(x, 1)
            if x2 is None:
                return None
            fs[0] = (f, x2)
            return ('rec', tuple(fs))
        if mode == 1:
            return ('rec', tuple(fs[1:])) if len(fs) > 1 else None
        return ('rec', tuple(fs) + (('zq', ('lit', 1)),))
    return None


# ----------------------------------------------------------------- augmentations

def augment(prog, ck, rng, p_bool=0.5, p_open=0.4, p_nested=0.35, allow_inx=False,
            p_relay=0.5, p_recpass=0.5):
    """Type-preserving extensions of a generated program: a Bool column, an injectible
    function over an open record, nested composite columns, a relay predicate (relay_rules).
    Returns (program, labels).
    """
    labels = []
    rules = list(prog['rules'])
    inj = dict(prog.get('inj', {}))
    idb = []
    for i, r in enumerate(rules):
        if r['body'] and r['pred'] not in idb:
            idb.append(r['pred'])

    def tops(r):
        env = ck.env_of.get(id(r['body']), {})
        by = {}
        for v, t in sorted(env.items()):
            if typeref.ground(t):
                by.setdefault(render(t), []).append(v)
        return by

    def boolexpr(by):
        ch = []
        for v in by.get('Num', []):
            ch.append(('cmp', rng.choice(['<', '>=', '==']), ('var', v),
                       ('lit', rng.choice([0, 1, 2, 3]))))
        for v in by.get('Str', []):
            ch.append(('cmp', rng.choice(['<=', '==']), ('var', v),
                       ('lit', rng.choice(['a', 'b']))))
            if allow_inx:
                # `x in l` used as a value: /repo gives it no type (known class neq)
                ch.append(('inx', ('var', v), ('list', (('lit', 'a'), ('lit', 'ab')))))
        if not ch:
            ch.append(('cmp', '<', ('lit', 1), ('lit', 2)))
        e = rng.choice(ch)
        r = rng.random()
        if r < 0.25:
            e = ('not', e)
        elif r < 0.5:
            e = ('bin', rng.choice(['&&', '||']), e, rng.choice(ch))
        return e

    if idb and rng.random() < p_bool:
        pred = rng.choice(idb)
        for i, r in enumerate(rules):
            if r['pred'] == pred:
                r2 = dict(r)
                r2['head'] = tuple(r['head']) + (('bq', boolexpr(tops(r))),)
                rules[i] = r2
        labels.append('aug:bool_column')
        # a reader of the Bool column
        readers = [i for i, r in enumerate(rules) if r['body'] and r['pred'] != pred and
                   idb.index(r['pred']) > idb.index(pred)]
        if readers and rng.random() < 0.7:
            i = rng.choice(readers)
            r = rules[i]
            used = model_vars(r)
            nv = next(v for v in ('bv', 'bw', 'bx', 'by') if v not in used)
            lits = [('call', pred, (('bq', ('var', nv)),), ()),
                    ('prop', ('bin', '||', ('var', nv),
                              ('cmp', '==', ('lit', 1), ('lit', 1))))]
            r2 = dict(r)
            body = list(r['body'])
            for l in lits:
                body.insert(rng.randint(0, len(body)), l)
            r2['body'] = tuple(body)
            rules[i] = r2
            labels.append('aug:bool_reader')
    if idb and rng.random() < p_nested:
        pred = rng.choice(idb)
        kind = rng.choice(['list_of_rec', 'rec_with_list', 'rec_in_rec'])
        for i, r in enumerate(rules):
            if r['pred'] == pred:
                by = tops(r)
                n = ('var', rng.choice(by['Num'])) if by.get('Num') else ('lit', 2)
                s = ('var', rng.choice(by['Str'])) if by.get('Str') else ('lit', 'b')
                if kind == 'list_of_rec':
                    e = ('list', (('rec', (('k', n), ('s', s))),
                                  ('rec', (('k', ('lit', 0)), ('s', ('lit', 'a'))))))
                elif kind == 'rec_with_list':
                    e = ('rec', (('k', n), ('l', ('list', (s, ('lit', 'a'))))))
                else:
                    e = ('rec', (('k', n), ('r', ('rec', (('s', s),)))))
                r2 = dict(r)
                r2['head'] = tuple(rules[i]['head']) + (('nq', e),)
                rules[i] = r2
        labels.append('aug:nested_' + kind)
    if rng.random() < p_open:
        cands = []
        for i, r in enumerate(rules):
            if r['body']:
                by = tops(r)
                for t, vs in sorted(by.items()):
                    if t.startswith('{') and 'a: Num' in t:
                        cands.append((i, vs))
        name = 'JR'
        inj[name] = ('fun', ('r',), ('bin', '+', ('field', ('var', 'r'), 'a'), ('lit', 1)))
        if cands:
            i, vs = rng.choice(cands)
            arg = ('var', rng.choice(vs))
        else:
            i = rng.choice([j for j, r in enumerate(rules) if r['body']] or [None])
            arg = ('rec', (('a', ('lit', 2)), ('zz', ('lit', 'b'))))
        if i is not None:
            r = rules[i]
            lit = ('cmp', rng.choice(['>=', '<=', '==']), ('fcall', name, ((0, arg),)),
                   ('lit', rng.choice([0, 1, 3])))
            r2 = dict(r)
            body = list(r['body'])
            body.insert(rng.randint(0, len(body)), lit)
            r2['body'] = tuple(body)
            rules[i] = r2
            labels.append('aug:open_record_fun')
            if arg[0] == 'rec':
                labels.append('aug:open_record_wider_literal')
    if rng.random() < p_recpass:
        new_rules = recpass_rules(prog, ck, rng)
        if new_rules:
            for r in new_rules:
                rules.insert(rng.randint(0, len(rules)), r)
            labels.append('aug:record_passed_on')
    if rng.random() < p_relay:
        made = relay_rules(prog, ck, rng, idb)
        if made:
            kind, new_rules = made
            for r in new_rules:
                rules.insert(rng.randint(0, len(rules)), r)
            labels.append('aug:relay_' + kind)
    p = dict(prog)
    p['rules'] = rules
    p['inj'] = inj
    return p, labels


RELAY = 'Tq'
PASSER, CONSUMER = 'Mq', 'Cq'


def recpass_rules(prog, ck, rng):
    """A closed record handed on by a predicate that reads one of its fields, and a
    consumer that reads a field of what it is handed:
         Mq(r: x) :- D(f: x), x.a <= 7;
         Cq(y: w) :- Mq(r: x), w == x.b;"""
    from lv.model import mk_rule
    if any(r['pred'] in (PASSER, CONSUMER) for r in prog['rules']):
        return None
    cols = []
    seen = []
    for r in prog['rules']:
        if r['pred'] not in seen:
            seen.append(r['pred'])
    for pred in seen:
        if pred in prog.get('inj', {}) or pred == RELAY:
            continue
        for f, t in sorted((ck.sig.get(pred) or {}).items(), key=lambda kv: str(kv[0])):
            t = find(t)
            if f != 'logica_value' and t.kind == 'rec' and t.closed and t.lit and \
                    t.fields and typeref.ground(t):
                cols.append((pred, f, t))
    if not cols:
        return None
    pred, f, t = rng.choice(cols)
    body = [relay_call(pred, ck.sig[pred], f, 'x'), valid_access('x', t, rng, 'mq1')]
    rng.shuffle(body)
    passer = mk_rule(PASSER, (('r', ('var', 'x')),), tuple(body))
    g = rng.choice(sorted(t.fields, key=str))
    cbody = [('call', PASSER, (('r', ('var', 'x')),), ()),
             ('cmp', '==', ('var', 'w'), ('field', ('var', 'x'), g))]
    rng.shuffle(cbody)
    return [passer, mk_rule(CONSUMER, (('y', ('var', 'w')),), tuple(cbody))]


def lit_for_type(t, rng, k=0):
    """A literal expression of a ground type (atoms, lists of atoms, closed records of
    atoms) or None."""
    t = find(t)
    if t.kind == 'Num':
        return ('lit', rng.choice([0, 4, 11]) + k)
    if t.kind == 'Str':
        return ('lit', rng.choice(['b', 'zero', 'q']))
    if t.kind == 'list' and find(t.elem).kind in ('Num', 'Str'):
        return ('lit', [lit_for_type(t.elem, rng, i)[1] for i in range(rng.randint(1, 2))])
    if t.kind == 'rec' and t.closed and t.fields and \
            all(find(x).kind in ('Num', 'Str') for x in t.fields.values()):
        return ('rec', tuple((f, lit_for_type(x, rng)) for f, x in sorted(
            t.fields.items(), key=lambda kv: str(kv[0]))))
    return None


def relay_call(pred, sig, f, var):
    """`pred(.. f: var ..)` reading column f only: named column by name, positional
    column c with the positions before it bound to unused variables."""
    if isinstance(f, int):
        args = tuple((i, ('var', 'u%d' % i if i != f else var)) for i in range(f + 1))
    else:
        args = ((f, ('var', var)),)
    return ('call', pred, args, ())


def relay_columns(prog, ck, idb):
    """(pred, field, rendered type) of every ground column of a concrete predicate."""
    out = []
    seen = []
    for r in prog['rules']:
        if r['pred'] not in seen:
            seen.append(r['pred'])
    for pred in seen:
        s = ck.sig.get(pred)
        if not s or pred in prog.get('inj', {}) or pred == RELAY:
            continue
        for f, t in sorted(s.items(), key=lambda kv: str(kv[0])):
            if f == 'logica_value' or not typeref.ground(t):
                continue
            out.append((pred, f, render(t)))
    return out


def relay_rules(prog, ck, rng, idb):
    """A predicate whose column gets its type ONLY through calls / one fact:
         Tq(v: x) :- D(f: x);                          (variables only)
         Tq(v: <literal of D.f's type>);   or   Tq(v: y) :- D2(g: y);
    The two statements are inserted at independent positions (other predicates' rules
    stand between them in most orders)."""
    from lv.model import mk_rule
    cols = relay_columns(prog, ck, idb)
    if not cols or any(r['pred'] == RELAY for r in prog['rules']):
        return None
    pref = [c for c in cols if c[0] in idb]
    pred, f, ty = rng.choice(pref) if pref and rng.random() < 0.8 else rng.choice(cols)
    a = mk_rule(RELAY, (('v', ('var', 'x')),), (relay_call(pred, ck.sig[pred], f, 'x'),))
    same = [c for c in cols if c[2] == ty and (c[0], c[1]) != (pred, f)]
    lit = lit_for_type(ck.sig[pred][f], rng)
    if lit is not None and (not same or rng.random() < 0.6):
        return 'fact', [a, mk_rule(RELAY, (('v', lit),), ())]
    if same:
        p2, f2, _ = rng.choice(same)
        return 'two_calls', [a, mk_rule(RELAY, (('v', ('var', 'y')),),
                                        (relay_call(p2, ck.sig[p2], f2, 'y'),))]
    return None


def model_vars(r):
    from lv import model
    return model.rule_all_vars(r)
