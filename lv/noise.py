"""Rendering of syntaxgen token streams: base text, layout noise, redundant parentheses,
trailing ';', and the fixed catalogue of single-token corruptions (DESIGN.md 1.6, C06).

Layout noise is *inserted* at token boundaries, never replaces characters:

  free boundary   blanks, newlines, tabs, ` /* .. */ `, ` # ..\\n`, bare `/*..*/`
  glued boundary  (name|bracket, '.'|field)  only a bare `/*..*/` (comments are deleted
                  before parsing, so the original text is restored)

Every noise piece is kept in two spellings, with and without its comments, so that the
comment-free text of each statement (what `full_text` / span heritage must be) is known
by construction and not by re-implementing the parser's comment removal.

Redundant parentheses are put around ('E', ..) / ('P', ..) groups, i.e. around whole
expressions and whole propositions only.
"""
from lv import syntaxgen
from lv.syntaxgen import Tok

# FINDING denotation_parenthesised_argument (C15, both parsers).
# `P(x) order_by((x), y)` is rejected by both parsers although `order_by(x, y)`,
# `order_by((x))` and `order_by(x, (y))` are accepted (GrabDenotation refuses an argument
# text starting with '(' once the outer parentheses have been stripped; the test is
# meant for denotations written in the wrong order).  While the exclusion is on, the
# first of several denotation arguments is not parenthesised.
EXCLUDE_DEN_PAREN = syntaxgen.excluded('DEN_PAREN')
RISK_DEN = 'denotation_parenthesised_argument'
RISK_AGG = syntaxgen.RISK_AGG

# DOMAIN RESTRICTION (not a finding).  Layout is made of blank, tab and newline.  Other
# characters that Python's str.isspace() accepts (U+00A0, U+2003, \x1c-\x1f ..) are
# stripped by the Python parser and not by the C++ parser (std::isspace), e.g.
# `P(x) :-\u00a0Q(x)`; no document makes them layout of the language.
WS = [' ', ' ', '  ', '\n', '\n', '\t', '\n  ', ' \n', '\n\n', '   ']


def _comment_body(rng, line):
    n = rng.randrange(0, 4)
    words = [syntaxgen.COMMENT_WORDS[rng.randrange(len(syntaxgen.COMMENT_WORDS))]
             for _ in range(n)]
    s = ' '.join(words)
    if line:
        s = s.replace('\n', ' ')
    else:
        s = s.replace('*/', '* /')
        if s.endswith('*'):          # `**/` would still close, keep it obvious
            s += ' '
    return s


def noise_piece(rng, glue, stats):
    """-> (text with comments, text with the comments deleted)."""
    if glue:
        stats['bare_comment'] += 1
        stats['comment'] += 1
        return '/*' + _comment_body(rng, False) + '*/', ''
    k = rng.randrange(10)
    if k < 4:
        w = WS[rng.randrange(len(WS))]
        stats['whitespace'] += 1
        return w, w
    if k < 6:
        stats['block_comment'] += 1
        stats['comment'] += 1
        a = WS[rng.randrange(len(WS))]
        b = WS[rng.randrange(len(WS))]
        return a + '/*' + _comment_body(rng, False) + '*/' + b, a + b
    if k < 8:
        stats['line_comment'] += 1
        stats['comment'] += 1
        a = WS[rng.randrange(len(WS))]
        return a + '#' + _comment_body(rng, True) + '\n', a + '\n'
    if k == 8:
        stats['bare_comment'] += 1
        stats['comment'] += 1
        return '/*' + _comment_body(rng, False) + '*/', ''
    stats['line_comment'] += 1
    stats['comment'] += 1
    # two comments in a row, the second hides a would-be terminator
    return (' # ' + _comment_body(rng, True) + '\n/* ; */ ', ' \n ')


class Rendered(object):
    """text          full text
    cells         list of [lead, lead_nocomment, Tok, stmt_index]  (lead = layout+noise
                  before the token)
    tail          (text, nocomment) after the last token
    statements    comment-free, stripped text of every statement, in order
    allowed_heritage   set of texts a span heritage may be (statements + the texts
                  synthesised by the `-->` rewrite)"""

    def __init__(self):
        self.cells = []
        self.tail = ('', '')
        self.stats = {}

    @property
    def text(self):
        return ''.join(c[0] + c[2].text for c in self.cells) + self.tail[0]

    def risks(self):
        """Names of the open findings whose input class this text contains: redundant
        parentheses tagged 'paren:<name>', or inserted layout (other than a bare
        comment) before a token tagged '<name>'."""
        out = set()
        for lead, lead_nc, tok, si in self.cells:
            if tok.risk.startswith('paren:'):
                out.add(tok.risk[6:])
            elif tok.risk and lead_nc != tok.pre:
                out.add(tok.risk)
        return sorted(out)

    def without(self, names):
        """The same rendering minus the layout that makes the input class of the named
        findings: tagged parentheses dropped, layout before tagged tokens reset."""
        r = Rendered()
        r.tail = self.tail
        r.stats = dict(self.stats)
        carry = None
        for lead, lead_nc, tok, si in self.cells:
            if tok.risk.startswith('paren:') and tok.risk[6:] in names:
                if tok.text == '(':
                    # what stood before the parenthesis now stands before its content
                    carry = (lead, lead_nc) if carry is None else \
                        (carry[0] + lead, carry[1] + lead_nc)
                continue
            if carry is not None:
                lead, lead_nc = carry[0] + lead, carry[1] + lead_nc
                carry = None
            if tok.risk in names:
                lead, lead_nc = tok.pre, tok.pre
            r.cells.append([lead, lead_nc, tok, si])
        return r

    @property
    def text_nocomment(self):
        return ''.join(c[1] + c[2].text for c in self.cells) + self.tail[1]

    def statements(self):
        out = {}
        for lead, lead_nc, tok, si in self.cells:
            if si is None:
                continue
            out.setdefault(si, []).append(lead_nc + tok.text)
        return [''.join(v).strip() for k, v in sorted(out.items())]

    def allowed_heritage(self):
        res = set()
        cur = {}
        for lead, lead_nc, tok, si in self.cells:
            if si is None:
                continue
            cur.setdefault(si, []).append((lead_nc, tok))
        for si, cells in cur.items():
            full = ''.join(l + t.text for l, t in cells)
            lstrip = len(full) - len(full.lstrip())
            st = full.strip()
            res.add(st)
            pos = 0
            for l, t in cells:
                pos += len(l)
                if t.kind == 'sep' and t.text == '-->':
                    p = pos - lstrip
                    res.add(st[:p] + ' = ' + st[p + 3:])
                    name = cells[0][1].text
                    res.add('@CompileAsUdf(%s)' % name)
                pos += len(t.text)
        return res


def flatten(items, rng, p_paren, stats, out):
    for it in items:
        if isinstance(it, Tok):
            out.append(it)
            continue
        kind, sub = it
        wrap = False
        if kind == 'N':              # bare operator expression: transparent
            flatten(sub, rng, p_paren, stats, out)
            continue
        risk = ''
        if p_paren and rng is not None and rng.random() < p_paren:
            if kind == 'E0den' and EXCLUDE_DEN_PAREN:
                stats['excluded_den_paren'] += 1
            elif kind == 'E0agg' and syntaxgen.EXCLUDE_BODYLESS_AGG_LAYOUT:
                pass                 # counted by the generator
            else:
                wrap = True
                risk = {'E0den': RISK_DEN, 'E0agg': RISK_AGG}.get(kind, '')
        if not wrap:
            flatten(sub, rng, p_paren, stats, out)
            continue
        stats['paren_' + ('expr' if kind[0] == 'E' else 'prop')] += 1
        inner = []
        flatten(sub, rng, p_paren, stats, inner)
        inner = _wrap(inner, risk)
        if rng.random() < 0.15:
            stats['paren_double'] += 1
            inner = _wrap(inner, risk)
        out.extend(inner)


def _wrap(inner, risk=''):
    """Parentheses around a token list.  `risk`: these parentheses are the input class
    of an open finding (only produced with its exclusion switched off); they are tagged
    so that Rendered.without(risk) can leave them out again."""
    first = inner[0]
    return ([Tok('(', 'open', first.pre, first.glue, first.reg, 'paren:' + risk if risk else ''),
             first.copy(pre='', glue=False)] + inner[1:] +
            [Tok(')', 'close', '', False, inner[-1].reg, 'paren:' + risk if risk else '')])


def render(stmts, rng=None, p_noise=0.0, p_paren=0.0, trailing=True, sep_layout='\n'):
    """Base rendering when rng is None / probabilities are 0."""
    import collections
    r = Rendered()
    stats = collections.Counter()
    n = len(stmts)
    for si, st in enumerate(stmts):
        toks = []
        flatten(st, rng, p_paren, stats, toks)
        toks[0] = toks[0].copy(pre='' if si == 0 else sep_layout)
        for t in toks:
            r.cells.append([t.pre, t.pre, t, si])
        if si < n - 1 or trailing:
            r.cells.append(['', '', Tok(';', 'sep'), None])
    if rng is not None and p_noise:
        for c in r.cells:
            if rng.random() < p_noise:
                a, b = noise_piece(rng, c[2].glue, stats)
                c[0] += a
                c[1] += b
                stats['insertions'] += 1
        if rng.random() < p_noise * 2:
            a, b = noise_piece(rng, False, stats)
            r.tail = (a, b)
            stats['insertions'] += 1
    r.stats = dict(stats)
    return r


# ------------------------------------------------------------------ corruptions

STRAYS = ['~', '|', ',', ';', ':-', '=', ')', '(', '"', "'", '`', '..', '?', ':', '#', '/*']
OP_REPL = ['+', '==', '<', '=', '|', '~', '->', ':', '&&', ' in ', '-']
AGGOP_REPL = ['=', '+=', 'Max=', '==', '|=', ':=', '?=']

# FINDINGS of C06 reached through the corruption catalogue, excluded by construction
# while they are open (counted; VERIF_SYNTAX_EXCLUDE_<NAME>=0 switches one off):
#  PIPE_EQ      pipe_eq_operator: an aggregating operator replaced by `|=` is accepted by
#               the C++ parser (operator `|`) and rejected by the Python parser (its
#               SplitRaw refuses any separator next to a '|', the C++ one only the
#               separator '|' itself)
#  DEN_NAMED    denotation_named_argument: a named / `..rest` argument inside
#               order_by(..) / limit(..): Python's AnnotationsFromDenotations.ShiftArgs
#               adds 1 to a str (TypeError escapes), the C++ parser accepts
#  QUOTE_PY     quote_literal_not_python: a '..' literal that is not a valid Python
#               literal (left unclosed right after an escaped quote, `'a\\'`, or one that
#               swallows a line break after its closing quote was deleted): Python's
#               ParseString lets SyntaxError escape from ast.literal_eval, the C++
#               parser accepts the literal
#  EMPTY_ARRAYSUB  cpp_empty_array_subscript: `l[]` (the only index of `l[i]` deleted) is
#               rejected by the Python parser (NestedElement yields None) and accepted
#               by the C++ parser, which dereferences an empty optional and emits
#               {"call": null}
#  EMPTY_BODY  combine_empty_body: `Sum{y :- }`, `(combine Sum= y :- )`, `x Sum= (y :- )`
#               (a stray `:-` before the closing bracket): the Python parser takes the
#               empty body for "no body" and accepts, the C++ parser rejects
#               ("Could not parse proposition.")
EXCLUDE_PIPE_EQ = syntaxgen.excluded('PIPE_EQ')
EXCLUDE_EMPTY_BODY = syntaxgen.excluded('EMPTY_BODY')
EXCLUDE_EMPTY_ARRAYSUB = syntaxgen.excluded('EMPTY_ARRAYSUB')
EXCLUDE_DEN_NAMED = syntaxgen.excluded('DEN_NAMED')
EXCLUDE_QUOTE_PY = syntaxgen.excluded('QUOTE_PY')


def candidates(cells):
    """All applicable (kind, cell index, argument) of the fixed catalogue."""
    out = []
    for i, (lead, lead_nc, t, si) in enumerate(cells):
        k = t.kind
        if k in ('open', 'close'):
            out.append(('del_bracket', i, None))
            out.append(('dup_bracket', i, None))
        if k == 'sep':
            out.append(('del_sep', i, None))
            out.append(('dup_sep', i, None))
        if k in ('op', 'kw') and t.text.strip() not in ('if', 'then', 'else', 'else if',
                                                         'combine'):
            out.append(('del_op', i, None))
            for o in OP_REPL:
                if o.strip() != t.text.strip():
                    out.append(('repl_op', i, o))
        if k == 'aggop':
            for o in AGGOP_REPL:
                if o != t.text:
                    out.append(('repl_aggop', i, o))
        if k == 'kw':
            out.append(('del_kw', i, None))
        if k == 'str':
            out.append(('unclose_str', i, None))
            out.append(('unopen_str', i, None))
        if k in ('var', 'field') and t.text[0].isalpha() and t.text[0] != '`':
            out.append(('cap_var', i, None))
        if k in ('var', 'num', 'lit', 'str'):
            out.append(('del_atom', i, None))
        if k == 'name' and t.text[0].isalpha():
            out.append(('lower_pred', i, None))
        if k == 'den' and t.text == 'distinct':
            out.append(('del_distinct', i, None))
            out.append(('dup_distinct', i, None))
        for s in STRAYS:
            out.append(('ins_stray', i, s))
    return out


def pick_corruption(cells, rng, salt=0):
    """Two-stage draw (class first, then position) so that rare classes are not
    drowned by the 16 stray insertions possible at every token.  `salt` (a case counter)
    rotates the class list: Hypothesis favours the ends of an integer range, which
    would otherwise make the alphabetically first class three times as frequent."""
    cands = candidates(cells)
    if not cands:
        return None
    classes = sorted(set(c[0] for c in cands))
    cls = classes[(rng.randrange(len(classes)) + salt) % len(classes)]
    sub = [c for c in cands if c[0] == cls]
    return sub[rng.randrange(len(sub))]


def excluded_class(cells, c):
    """Name of the known-divergence class this corruption falls in, or None."""
    kind, i, arg = c
    t = cells[i][2]
    if EXCLUDE_PIPE_EQ and kind == 'repl_aggop' and arg == '|=':
        return 'finding:pipe_eq_operator'
    if EXCLUDE_EMPTY_ARRAYSUB and kind == 'del_atom':
        # the only index of `l[..]`, possibly inside redundant parentheses: `l[((i))]`
        j, k = i - 1, i + 1
        while j > 0 and k < len(cells) - 1 and cells[j][2].text == '(' and \
                cells[k][2].text == ')':
            j, k = j - 1, k + 1
        if 0 <= j and k < len(cells):
            before, after = cells[j][2], cells[k][2]
            if before.text == '[' and before.glue and after.text == ']':
                return 'finding:cpp_empty_array_subscript'
    if EXCLUDE_DEN_NAMED and t.reg == 'den':
        if (kind == 'ins_stray' and arg in (':', '..')) or \
                (kind == 'repl_op' and arg == ':'):
            return 'finding:denotation_named_argument'
    return None


def quote_regions(text):
    """The '..' regions of a text as the scanner shared by both parsers (Traverse) sees
    them: list of (substring from an opening ' outside any other literal / comment
    to its closing ' or to the end of the text, closed?).  Kept deliberately simple: it only
    decides which generated inputs belong to the class of finding
    quote_literal_not_python, never a verdict."""
    out = []
    i, n = 0, len(text)
    while i < n:
        c = text[i]
        if c == '#':
            j = text.find('\n', i)
            i = n if j < 0 else j + 1
        elif text.startswith('/*', i):
            j = text.find('*/', i + 2)
            i = n if j < 0 else j + 2
        elif text.startswith('"""', i):
            j = text.find('"""', i + 3)
            i = n if j < 0 else j + 3
        elif c == '"' or c == '`':
            j = i + 1
            while j < n and text[j] != c and not (c == '"' and text[j] == '\n'):
                j += 1
            i = j + 1
        elif c == "'":
            j = i + 1
            while j < n and text[j] != "'":
                j += 2 if text[j] == '\\' else 1
            out.append((text[i:j + 1], j < n))
            i = j + 1
        else:
            i += 1
    return out


def code_only(text):
    """text with comments deleted and every literal / backticked name replaced by `S`
    (same simple scanner as quote_regions; used for input-class tests only)."""
    out = []
    i, n = 0, len(text)
    while i < n:
        c = text[i]
        if c == '#':
            j = text.find('\n', i)
            i = n if j < 0 else j
        elif text.startswith('/*', i):
            j = text.find('*/', i + 2)
            i = n if j < 0 else j + 2
        elif text.startswith('"""', i):
            j = text.find('"""', i + 3)
            i = n if j < 0 else j + 3
            out.append('S')
        elif c == '"' or c == '`':
            j = text.find(c, i + 1)
            i = n if j < 0 else j + 1
            out.append('S')
        elif c == "'":
            j = i + 1
            while j < n and text[j] != "'":
                j += 2 if text[j] == '\\' else 1
            i = j + 1
            out.append('S')
        else:
            out.append(c)
            i += 1
    return ''.join(out)


def combine_empty_body(text):
    """Input class of finding combine_empty_body: a `:-` directly before a closing
    bracket."""
    import re
    return re.search(r':-\s*[)}\]]', code_only(text)) is not None


def quote_literal_not_python(text):
    """Input class of finding quote_literal_not_python: the text has a '..' region that
    Python's literal_eval refuses (line break inside, lone backslash before the closing
    quote, unclosed, malformed \\x \\u \\U \\N)."""
    import ast
    import warnings
    for q, closed in quote_regions(text):
        if not closed:
            # the scanner never leaves the literal: both parsers reject, unless the
            # text ends with the escaped quote and reads as a complete literal
            q = q.rstrip()
            if not (len(q) >= 3 and q.endswith("\\'")):
                continue
        try:
            with warnings.catch_warnings():
                warnings.simplefilter('ignore')
                v = ast.literal_eval(q)
            if not isinstance(v, str):
                return True
        except (SyntaxError, ValueError):
            return True
    return False


def apply_corruption_cells(r, c):
    """-> list of per-cell texts of the corrupted Rendered r (lead + token)."""
    kind, i, arg = c
    parts = []
    for j, (lead, lead_nc, t, si) in enumerate(r.cells):
        text = t.text
        if j == i:
            if kind in ('del_bracket', 'del_sep', 'del_op', 'del_kw', 'del_distinct',
                        'del_atom'):
                text = ' ' if kind in ('del_kw', 'del_op') and t.text != t.text.strip() \
                    else ''
            elif kind in ('dup_bracket', 'dup_sep'):
                text = text + text
            elif kind == 'dup_distinct':
                text = 'distinct distinct'
            elif kind in ('repl_op', 'repl_aggop'):
                text = arg if t.text == t.text.strip() or arg != arg.strip() \
                    else ' ' + arg + ' '
            elif kind == 'unclose_str':
                text = text[:-3] if text.startswith('"""') else text[:-1]
            elif kind == 'unopen_str':
                text = text[3:] if text.startswith('"""') else text[1:]
            elif kind == 'cap_var':
                text = text[0].upper() + text[1:]
            elif kind == 'lower_pred':
                text = text[0].lower() + text[1:]
            elif kind == 'ins_stray':
                text = arg + ' ' + text
        parts.append(lead + text)
    return parts


def apply_corruption(r, c):
    return ''.join(apply_corruption_cells(r, c)) + r.tail[0]


def excluded_text(text):
    """Name of the open finding whose input class a CORRUPTED text belongs to (classes
    that are recognised on the text rather than on the corruption), or None."""
    if EXCLUDE_QUOTE_PY and quote_literal_not_python(text):
        return 'finding:quote_literal_not_python'
    if EXCLUDE_EMPTY_BODY and combine_empty_body(text):
        return 'finding:combine_empty_body'
    return None
