"""Rendering of syntaxgen token streams: base text, layout noise, redundant parentheses,
trailing ';', and the fixed catalogue of single-token corruptions (DESIGN.md 1.6, C06).

Layout noise is *inserted* at token boundaries, never replaces characters:

  free boundary   blanks, newlines, tabs, ` /* .. */ `, ` # ..\\n`, bare `/*..*/`
  glued boundary  (name|bracket, '.'|field)  only a bare `/*..*/` (comments are deleted
                  before parsing, so the original text is restored)

Every noise piece is kept in two spellings, with and without its comments, so that the
comment-free text of each statement (what `full_text` / span heritage must be) is known
by construction and not by re-implementing the parser's comment removal.

Redundant parentheses are put around ('E', ..) / ('P', ..) groups, i.e. around whole
expressions and whole propositions only.
"""
from lv import syntaxgen
from lv.syntaxgen import Tok

# `P(x) order_by((x), y)` is rejected by both parsers although `order_by(x, y)` and
# `order_by((x))` are accepted (GrabDenotation refuses an argument text starting with
# '(' after the outer parentheses have been stripped).  Reported as a finding of C15;
# while it is open the first of several denotation arguments is not parenthesised.
AVOID_DEN_PAREN = True

WS = [' ', ' ', '  ', '\n', '\n', '\t', '\n  ', ' \n', '\n\n', '   ']


def _comment_body(rng, line):
    n = rng.randrange(0, 4)
    words = [syntaxgen.COMMENT_WORDS[rng.randrange(len(syntaxgen.COMMENT_WORDS))]
             for _ in range(n)]
    s = ' '.join(words)
    if line:
        s = s.replace('\n', ' ')
    else:
        s = s.replace('*/', '* /')
        if s.endswith('*'):          # `**/` would still close, keep it obvious
            s += ' '
    return s


def noise_piece(rng, glue, stats):
    """-> (text with comments, text with the comments deleted)."""
    if glue:
        stats['bare_comment'] += 1
        stats['comment'] += 1
        return '/*' + _comment_body(rng, False) + '*/', ''
    k = rng.randrange(10)
    if k < 4:
        w = WS[rng.randrange(len(WS))]
        stats['whitespace'] += 1
        return w, w
    if k < 6:
        stats['block_comment'] += 1
        stats['comment'] += 1
        a = WS[rng.randrange(len(WS))]
        b = WS[rng.randrange(len(WS))]
        return a + '/*' + _comment_body(rng, False) + '*/' + b, a + b
    if k < 8:
        stats['line_comment'] += 1
        stats['comment'] += 1
        a = WS[rng.randrange(len(WS))]
        return a + '#' + _comment_body(rng, True) + '\n', a + '\n'
    if k == 8:
        stats['bare_comment'] += 1
        stats['comment'] += 1
        return '/*' + _comment_body(rng, False) + '*/', ''
    stats['line_comment'] += 1
    stats['comment'] += 1
    # two comments in a row, the second hides a would-be terminator
    return (' # ' + _comment_body(rng, True) + '\n/* ; */ ', ' \n ')


class Rendered(object):
    """text          full text
    cells         list of [lead, lead_nocomment, Tok, stmt_index]  (lead = layout+noise
                  before the token)
    tail          (text, nocomment) after the last token
    statements    comment-free, stripped text of every statement, in order
    allowed_heritage   set of texts a span heritage may be (statements + the texts
                  synthesised by the `-->` rewrite)"""

    def __init__(self):
        self.cells = []
        self.tail = ('', '')
        self.stats = {}

    @property
    def text(self):
        return ''.join(c[0] + c[2].text for c in self.cells) + self.tail[0]

    @property
    def text_nocomment(self):
        return ''.join(c[1] + c[2].text for c in self.cells) + self.tail[1]

    def statements(self):
        out = {}
        for lead, lead_nc, tok, si in self.cells:
            if si is None:
                continue
            out.setdefault(si, []).append(lead_nc + tok.text)
        return [''.join(v).strip() for k, v in sorted(out.items())]

    def allowed_heritage(self):
        res = set()
        cur = {}
        for lead, lead_nc, tok, si in self.cells:
            if si is None:
                continue
            cur.setdefault(si, []).append((lead_nc, tok))
        for si, cells in cur.items():
            full = ''.join(l + t.text for l, t in cells)
            lstrip = len(full) - len(full.lstrip())
            st = full.strip()
            res.add(st)
            pos = 0
            for l, t in cells:
                pos += len(l)
                if t.kind == 'sep' and t.text == '-->':
                    p = pos - lstrip
                    res.add(st[:p] + ' = ' + st[p + 3:])
                    name = cells[0][1].text
                    res.add('@CompileAsUdf(%s)' % name)
                pos += len(t.text)
        return res


def flatten(items, rng, p_paren, stats, out):
    for it in items:
        if isinstance(it, Tok):
            out.append(it)
            continue
        kind, sub = it
        wrap = False
        if kind == 'N':              # bare operator expression: transparent
            flatten(sub, rng, p_paren, stats, out)
            continue
        if p_paren and rng is not None and rng.random() < p_paren:
            if kind == 'E0den' and AVOID_DEN_PAREN:
                stats['excluded_den_paren'] += 1
            elif kind == 'E0agg':
                pass                 # counted by the generator (D13)
            else:
                wrap = True
        if not wrap:
            flatten(sub, rng, p_paren, stats, out)
            continue
        stats['paren_' + ('expr' if kind[0] == 'E' else 'prop')] += 1
        inner = []
        flatten(sub, rng, p_paren, stats, inner)
        inner = _wrap(inner)
        if rng.random() < 0.15:
            stats['paren_double'] += 1
            inner = _wrap(inner)
        out.extend(inner)


def _wrap(inner):
    first = inner[0]
    return ([Tok('(', 'open', first.pre, first.glue, first.reg),
             first.copy(pre='', glue=False)] + inner[1:] +
            [Tok(')', 'close', '', False, inner[-1].reg)])


def render(stmts, rng=None, p_noise=0.0, p_paren=0.0, trailing=True, sep_layout='\n'):
    """Base rendering when rng is None / probabilities are 0."""
    import collections
    r = Rendered()
    stats = collections.Counter()
    n = len(stmts)
    for si, st in enumerate(stmts):
        toks = []
        flatten(st, rng, p_paren, stats, toks)
        toks[0] = toks[0].copy(pre='' if si == 0 else sep_layout)
        for t in toks:
            r.cells.append([t.pre, t.pre, t, si])
        if si < n - 1 or trailing:
            r.cells.append(['', '', Tok(';', 'sep'), None])
    if rng is not None and p_noise:
        for c in r.cells:
            if rng.random() < p_noise:
                a, b = noise_piece(rng, c[2].glue, stats)
                c[0] += a
                c[1] += b
                stats['insertions'] += 1
        if rng.random() < p_noise * 2:
            a, b = noise_piece(rng, False, stats)
            r.tail = (a, b)
            stats['insertions'] += 1
    r.stats = dict(stats)
    return r


# ------------------------------------------------------------------ corruptions

STRAYS = ['~', '|', ',', ';', ':-', '=', ')', '(', '"', "'", '`', '..', '?', ':', '#', '/*']
OP_REPL = ['+', '==', '<', '=', '|', '~', '->', ':', '&&', ' in ', '-']
AGGOP_REPL = ['=', '+=', 'Max=', '==', '|=', ':=', '?=']

# Known divergences of the two parsers (DESIGN.md section 3), excluded by construction
# while they are open findings; the exclusions are counted:
#  D9   an aggregating operator spelled `|=` (Python's SplitRaw refuses any separator
#       next to a '|', the C++ one only for the separator '|')
#  D10  a named / `..rest` argument inside order_by(...) / limit(...)  (Python's
#       AnnotationsFromDenotations.ShiftArgs adds 1 to a str)
#  D17  a '..' literal left unclosed right after an escaped quote, `'a\\'` at the end of
#       the text: Python's ParseString lets SyntaxError escape from ast.literal_eval,
#       the C++ parser accepts the literal with the content `a\\`
AVOID_D9 = True
AVOID_D10 = True
AVOID_D17 = True


def candidates(cells):
    """All applicable (kind, cell index, argument) of the fixed catalogue."""
    out = []
    for i, (lead, lead_nc, t, si) in enumerate(cells):
        k = t.kind
        if k in ('open', 'close'):
            out.append(('del_bracket', i, None))
            out.append(('dup_bracket', i, None))
        if k == 'sep':
            out.append(('del_sep', i, None))
            out.append(('dup_sep', i, None))
        if k in ('op', 'kw') and t.text.strip() not in ('if', 'then', 'else', 'else if',
                                                         'combine'):
            out.append(('del_op', i, None))
            for o in OP_REPL:
                if o.strip() != t.text.strip():
                    out.append(('repl_op', i, o))
        if k == 'aggop':
            for o in AGGOP_REPL:
                if o != t.text:
                    out.append(('repl_aggop', i, o))
        if k == 'kw':
            out.append(('del_kw', i, None))
        if k == 'str':
            out.append(('unclose_str', i, None))
            out.append(('unopen_str', i, None))
        if k in ('var', 'field') and t.text[0].isalpha() and t.text[0] != '`':
            out.append(('cap_var', i, None))
        if k == 'name' and t.text[0].isalpha():
            out.append(('lower_pred', i, None))
        if k == 'den' and t.text == 'distinct':
            out.append(('del_distinct', i, None))
            out.append(('dup_distinct', i, None))
        for s in STRAYS:
            out.append(('ins_stray', i, s))
    return out


def pick_corruption(cells, rng, salt=0):
    """Two-stage draw (class first, then position) so that rare classes are not
    drowned by the 16 stray insertions possible at every token.  `salt` (a case counter)
    rotates the class list: Hypothesis favours the ends of an integer range, which
    would otherwise make the alphabetically first class three times as frequent."""
    cands = candidates(cells)
    if not cands:
        return None
    classes = sorted(set(c[0] for c in cands))
    cls = classes[(rng.randrange(len(classes)) + salt) % len(classes)]
    sub = [c for c in cands if c[0] == cls]
    return sub[rng.randrange(len(sub))]


def excluded_class(cells, c):
    """Name of the known-divergence class this corruption falls in, or None."""
    kind, i, arg = c
    t = cells[i][2]
    if AVOID_D9 and kind == 'repl_aggop' and arg == '|=':
        return 'D9_pipe_eq_operator'
    if AVOID_D17 and kind == 'unclose_str' and t.text[0] == "'" and \
            t.text.endswith("\\''"):
        return 'D17_unclosed_quote_after_backslash'
    if AVOID_D10 and t.reg == 'den':
        if (kind == 'ins_stray' and arg in (':', '..')) or \
                (kind == 'repl_op' and arg == ':'):
            return 'D10_named_denotation_argument'
    return None


def apply_corruption_cells(r, c):
    """-> list of per-cell texts of the corrupted Rendered r (lead + token)."""
    kind, i, arg = c
    parts = []
    for j, (lead, lead_nc, t, si) in enumerate(r.cells):
        text = t.text
        if j == i:
            if kind in ('del_bracket', 'del_sep', 'del_op', 'del_kw', 'del_distinct'):
                text = ' ' if kind in ('del_kw', 'del_op') and t.text != t.text.strip() \
                    else ''
            elif kind in ('dup_bracket', 'dup_sep'):
                text = text + text
            elif kind == 'dup_distinct':
                text = 'distinct distinct'
            elif kind in ('repl_op', 'repl_aggop'):
                text = arg if t.text == t.text.strip() or arg != arg.strip() \
                    else ' ' + arg + ' '
            elif kind == 'unclose_str':
                text = text[:-3] if text.startswith('"""') else text[:-1]
            elif kind == 'unopen_str':
                text = text[3:] if text.startswith('"""') else text[1:]
            elif kind == 'cap_var':
                text = text[0].upper() + text[1:]
            elif kind == 'lower_pred':
                text = text[0].lower() + text[1:]
            elif kind == 'ins_stray':
                text = arg + ' ' + text
        parts.append(lead + text)
    return parts


def apply_corruption(r, c):
    return ''.join(apply_corruption_cells(r, c)) + r.tail[0]
