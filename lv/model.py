"""Program model (our own small AST, tuples so it is hashable and JSON-able) + printer.

Expr   ('lit', v) ('var', n) ('bin', op, a, b) ('not', a) ('cmp', op, a, b)
       ('if', c, a, b) ('list', (e..)) ('rec', ((f, e)..)) ('field', e, f)
       ('size', e) ('elem', e, i) ('fcall', pred, args) ('aggx', op, e, body)
       ('inx', e, l)            boolean `e in l`
Lit    ('call', pred, args, opts) ('cmp', op, a, b) ('assign', v, e, eqform)
       ('in', e, l) ('neg', body, form) ('agg', v, op, e, body, form)
       ('or', (body..)) ('prop', e) ('impl', bodyA, bodyB)
args   tuple of (field, expr); field is int (positional) or str (named, incl.
       'logica_value').  opts: tuple of spelling flags ('colnames', 'short').
Rule   dict pred, head (args with expr or ('AGG', op, e)), value (None | expr |
       ('AGG', op, e)), distinct, body (tuple of Lit), opts, denot (tuple of str)
Program dict rules [Rule], inj {name: InjDef}, ann [str], sig {...}
InjDef ('fun', params, expr) | ('rel', params, body)   params tuple of var names
"""
import json

KEYWORDS = {'in', 'is', 'if', 'then', 'else', 'not', 'null', 'true', 'false',
            'combine', 'distinct', 'import', 'as', 'limit', 'order_by'}


def tup(x):
    """JSON lists -> tuples (keeps ('lit', [..]) payloads as lists)."""
    if isinstance(x, list):
        if len(x) == 2 and x[0] == 'lit':
            return ('lit', x[1])
        return tuple(tup(y) for y in x)
    if isinstance(x, dict):
        return {k: tup(v) for k, v in x.items()}
    return x


def prog_to_json(prog):
    return json.loads(json.dumps(prog, default=_enc))


def _enc(o):
    if isinstance(o, (set, frozenset)):
        return sorted(o)
    raise TypeError(type(o))


def prog_from_json(j):
    p = dict(j)
    p['rules'] = [rule_from_json(r) for r in j['rules']]
    p['inj'] = {k: tup(v) for k, v in j.get('inj', {}).items()}
    p['ann'] = list(j.get('ann', []))
    return p


def rule_from_json(r):
    r2 = dict(r)
    r2['head'] = tup(r['head'])
    r2['value'] = tup(r.get('value')) if r.get('value') is not None else None
    r2['body'] = tup(r.get('body', ()))
    r2['opts'] = tuple(r.get('opts', ()))
    r2['denot'] = tuple(r.get('denot', ()))
    return r2


def mk_rule(pred, head, body=(), value=None, distinct=False, opts=(), denot=()):
    return {'pred': pred, 'head': tuple(head), 'value': value, 'distinct': distinct,
            'body': tuple(body), 'opts': tuple(opts), 'denot': tuple(denot)}


# ----------------------------------------------------------------- variables

def expr_vars(e, deep=True):
    """Variables of an expression.  deep=False: skip insides of aggx (own level)."""
    k = e[0]
    if k == 'lit':
        return set()
    if k == 'var':
        return {e[1]}
    if k in ('bin', 'cmp'):
        return expr_vars(e[2], deep) | expr_vars(e[3], deep)
    if k == 'not':
        return expr_vars(e[1], deep)
    if k == 'if':
        return expr_vars(e[1], deep) | expr_vars(e[2], deep) | expr_vars(e[3], deep)
    if k == 'list':
        s = set()
        for x in e[1]:
            s |= expr_vars(x, deep)
        return s
    if k == 'rec':
        s = set()
        for f, x in e[1]:
            s |= expr_vars(x, deep)
        return s
    if k == 'field':
        return expr_vars(e[1], deep)
    if k == 'size':
        return expr_vars(e[1], deep)
    if k in ('elem', 'inx', 'arrow'):
        return expr_vars(e[1], deep) | expr_vars(e[2], deep)
    if k == 'fcall':
        s = set()
        for f, x in e[2]:
            s |= expr_vars(x, deep)
        return s
    if k == 'aggx':
        if not deep:
            return set()
        return expr_vars(e[2], deep) | body_vars(e[3], deep)
    raise ValueError(e)


def lit_vars(l, deep=True):
    k = l[0]
    if k == 'call':
        s = set()
        for f, x in l[2]:
            s |= expr_vars(x, deep)
        return s
    if k == 'cmp':
        return expr_vars(l[2], deep) | expr_vars(l[3], deep)
    if k == 'assign':
        return {l[1]} | expr_vars(l[2], deep)
    if k in ('in', 'unify'):
        return expr_vars(l[1], deep) | expr_vars(l[2], deep)
    if k == 'prop':
        return expr_vars(l[1], deep)
    if k == 'neg':
        return body_vars(l[1], deep) if deep else set()
    if k == 'impl':
        return (body_vars(l[1], deep) | body_vars(l[2], deep)) if deep else set()
    if k == 'agg':
        s = {l[1]}
        if deep:
            s |= expr_vars(l[3], deep) | body_vars(l[4], deep)
        return s
    if k == 'or':
        s = set()
        for b in l[1]:
            s |= body_vars(b, deep)
        return s
    raise ValueError(l)


def body_vars(body, deep=True):
    s = set()
    for l in body:
        s |= lit_vars(l, deep)
    return s


def own_vars(body):
    """Own-level variables of a scope: everything outside nested combines/negations
    (the result variable of an aggregating literal is own-level)."""
    return body_vars(body, deep=False)


def head_exprs(rule):
    out = []
    for f, h in rule['head']:
        out.append(h[2] if h[0] == 'AGG' else h)
    v = rule.get('value')
    if v is not None:
        out.append(v[2] if v[0] == 'AGG' else v)
    return out


def rule_own_vars(rule):
    s = own_vars(rule['body'])
    for e in head_exprs(rule):
        s |= expr_vars(e, deep=False)
    return s


def rule_all_vars(rule):
    s = body_vars(rule['body'])
    for e in head_exprs(rule):
        s |= expr_vars(e)
    return s


# ----------------------------------------------------------------- printer

def str_lit(s):
    assert '"' not in s and '\n' not in s and '\\' not in s
    return '"%s"' % s


def pe(e):
    k = e[0]
    if k == 'lit':
        v = e[1]
        if v is None:
            return 'null'
        if v is True:
            return 'true'
        if v is False:
            return 'false'
        if isinstance(v, str):
            return str_lit(v)
        if isinstance(v, (list, tuple)):
            return '[' + ', '.join(pe(('lit', x)) for x in v) + ']'
        if isinstance(v, dict):
            return '{' + ', '.join('%s: %s' % (f, pe(('lit', x)))
                                   for f, x in v.items()) + '}'
        if isinstance(v, float):
            return repr(v) if v >= 0 else '(0 - %r)' % -v
        return str(v) if v >= 0 else '(0 - %d)' % -v
    if k == 'var':
        return e[1]
    if k == 'bin':
        if e[1] == 'neg':           # unary minus: ('bin', 'neg', ('lit', 0), e)
            return '(-(%s))' % pe(e[3])      # not '-F(x)': that is a call of predicate '-F'
        return '(%s %s %s)' % (pe(e[2]), e[1], pe(e[3]))
    if k == 'cmp':
        return '(%s %s %s)' % (pe(e[2]), e[1], pe(e[3]))
    if k == 'not':
        return '(!%s)' % pe(e[1])
    if k == 'if':
        return '(if %s then %s else %s)' % (pe(e[1]), pe(e[2]), pe(e[3]))
    if k == 'list':
        return '[' + ', '.join(pe(x) for x in e[1]) + ']'
    if k == 'rec':
        return '{' + ', '.join('%s: %s' % (f, pe(x)) for f, x in e[1]) + '}'
    if k == 'field':
        inner = pe(e[1])
        if e[1][0] != 'var':
            inner = '(%s)' % inner if not inner.startswith('(') else inner
        return '%s.%s' % (inner, e[2])
    if k == 'size':
        return 'Size(%s)' % pe(e[1])
    if k == 'elem':
        return 'Element(%s, %s)' % (pe(e[1]), pe(e[2]))
    if k == 'inx':
        return '(%s in %s)' % (pe(e[1]), pe(e[2]))
    if k == 'arrow':
        return '%s -> %s' % (pe(e[1]), pe(e[2]))
    if k == 'fcall':
        return '%s(%s)' % (e[1], pargs(e[2]))
    if k == 'aggx':
        # body-less `Op{e}`; `+` has no Op{..} spelling: `(combine += e :- body)`
        inner = '%s :- %s' % (pe(e[2]), pb(e[3])) if e[3] else pe(e[2])
        if e[1] == '+':
            return '(combine += %s)' % inner
        return '%s{%s}' % (e[1], inner)
    raise ValueError(e)


def pargs(args, opts=()):
    parts = []
    for a in args:
        f, t = a[0], a[1]
        if isinstance(f, int):
            if 'colnames' in opts:
                parts.append('col%d: %s' % (f, pe(t)))
            else:
                parts.append(pe(t))
        else:
            if 'short' in opts and t == ('var', f):
                parts.append('%s:' % f)
            else:
                parts.append('%s: %s' % (f, pe(t)))
    return ', '.join(parts)


def pl(l):
    k = l[0]
    if k == 'call':
        opts = l[3] if len(l) > 3 else ()
        args = l[2]
        if 'valueeq' in opts:
            # F(args) = v  spelling of F(args, logica_value: v)
            val = [t for f, t in args if f == 'logica_value']
            rest = tuple((f, t) for f, t in args if f != 'logica_value')
            if val:
                return '%s(%s) == %s' % (l[1], pargs(rest, opts), pe(val[0]))
        return '%s(%s)' % (l[1], pargs(args, opts))
    if k == 'cmp':
        return '%s %s %s' % (pe(l[2]), l[1], pe(l[3]))
    if k == 'assign':
        eq = l[3] if len(l) > 3 else '=='
        return '%s %s %s' % (l[1], eq, pe(l[2]))
    if k == 'in':
        return '%s in %s' % (pe(l[1]), pe(l[2]))
    if k == 'prop':
        return pe(l[1])
    if k == 'neg':
        form = l[2] if len(l) > 2 else 0
        if form == 1:
            return '(Max{1 :- %s} is null)' % pb(l[1])
        if len(l[1]) == 1 and l[1][0][0] == 'call' and \
                'valueeq' not in (l[1][0][3] if len(l[1][0]) > 3 else ()):
            return '~' + pl(l[1][0])
        return '~(%s)' % pb(l[1])
    if k == 'impl':
        form = l[3] if len(l) > 3 else 0
        if form == 1:
            return '~(%s, ~(%s))' % (pb(l[1]), pb(l[2]))
        return '((%s) => (%s))' % (pb(l[1]), pb(l[2]))
    if k == 'agg':
        form = l[5]
        inner = '%s :- %s' % (pe(l[3]), pb(l[4])) if l[4] else pe(l[3])
        if form == 0:
            return '%s == %s{%s}' % (l[1], l[2], inner)
        if form == 1:
            return '%s %s= (%s)' % (l[1], l[2], inner)
        if form == 3:
            return '%s = %s{%s}' % (l[1], l[2], inner)
        return '%s == (combine %s= %s)' % (l[1], l[2], inner)
    if k == 'or':
        return '(' + ' | '.join('(%s)' % pb(b) if len(b) > 1 else pb(b)
                                for b in l[1]) + ')'
    raise ValueError(l)


def pb(body):
    return ', '.join(pl(l) for l in body)


def phead(r):
    opts = r.get('opts', ())
    parts = []
    head = list(r['head'])
    if 'colnames' not in opts:
        # positional spelling: the arguments are read by position, so a head whose
        # (named) entries were listed in a drawn order is printed in index order
        pos = sorted([fv for fv in head if isinstance(fv[0], int)], key=lambda fv: fv[0])
        head = pos + [fv for fv in head if not isinstance(fv[0], int)]
    for f, v in head:
        if isinstance(v, tuple) and v and v[0] == 'AGG':
            assert isinstance(f, str)
            parts.append('%s? %s= %s' % (f, v[1], pe(v[2])))
        elif isinstance(f, int):
            parts.append(('col%d: ' % f if 'colnames' in opts else '') + pe(v))
        else:
            if 'short' in opts and v == ('var', f):
                parts.append('%s:' % f)
            else:
                parts.append('%s: %s' % (f, pe(v)))
    v = r.get('value')
    need_distinct = r.get('distinct')
    if v is not None and 'valuefield' in opts:
        if v[0] == 'AGG':
            parts.append('logica_value? %s= %s' % (v[1], pe(v[2])))
        else:
            parts.append('logica_value: %s' % pe(v))
        v = None
    head = '%s(%s)' % (r['pred'], ', '.join(parts))
    if v is not None:
        if v[0] == 'AGG':
            head += ' %s= %s' % (v[1], pe(v[2]))
            if 'explicit_distinct' not in opts:
                need_distinct = False
        else:
            head += ' = ' + pe(v)
    if need_distinct:
        head += ' distinct'
    for d in r.get('denot', ()):
        head += ' ' + d
    return head


def print_rule(r):
    if r['body']:
        return phead(r) + ' :- ' + pb(r['body']) + ';'
    return phead(r) + ';'


def print_inj(name, d):
    if d[0] == 'fun':
        return '%s(%s) = %s;' % (name, ', '.join(d[1]), pe(d[2]))
    return '%s(%s) :- %s;' % (name, ', '.join(d[1]), pb(d[2]))


def print_make(mk):
    """Functor application statement.  mk = (new_name, functor, args); args is a tuple
    of (argument_predicate, ('pred', name) | ('const', literal_value))."""
    parts = []
    for a, v in mk[2]:
        parts.append('%s: %s' % (a, v[1] if v[0] == 'pred' else pe(('lit', v[1]))))
    return '%s := %s(%s);' % (mk[0], mk[1], ', '.join(parts))


def print_program(prog, engine_line='@Engine("sqlite");'):
    lines = [engine_line] if engine_line else []
    lines.extend(prog.get('ann', []))
    for name, d in prog.get('inj', {}).items():
        lines.append(print_inj(name, d))
    # optional functor applications prog['make'] (absent => output unchanged);
    # prog['make_at'][i] = index of the rule before which make i is printed
    makes = list(prog.get('make') or ())
    at = list(prog.get('make_at') or ())
    at += [len(prog['rules'])] * (len(makes) - len(at))
    for i, r in enumerate(prog['rules']):
        for j, mk in enumerate(makes):
            if at[j] == i:
                lines.append(print_make(mk))
        lines.append(print_rule(r))
    for j, mk in enumerate(makes):
        if at[j] >= len(prog['rules']) or at[j] < 0:
            lines.append(print_make(mk))
    return '\n'.join(lines) + '\n'


def col_names(sig):
    """Column names the property promises for a predicate signature."""
    cols = [('col%d' % f if isinstance(f, int) else f) for f, t in sig['fields']]
    if sig.get('value'):
        cols.append('logica_value')
    return cols
