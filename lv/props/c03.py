"""C03: recursion is the bounded iteration, and the least fixpoint once it converges."""
import collections

from lv import core, model, drive, recgen, canon, ref
from lv.props import common

ID = 'C03'
BUDGET = {'quick': 1100, 'thorough': 8000}
RULE = ('recursive programs over graphs of <= 6 nodes (chains, cycles, trees, random): '
        'self recursion (linear / non-linear closure, counters, multiset recursion), '
        'mutual recursion in rings (cut by the root) and dense components (not cut), '
        'Min=/Max= recursion, negation of non-recursive predicates; depth default 8 or '
        '@Recursive d in {1..6,8,12,19,20,21,22,25,30}, annotation on any member, explicit '
        'iterative:true; depth <= 20 executed as one statement, iterative plans through '
        'concertina_lib.ExecuteLogicaProgram on SQLite. Oracle class chosen by our own SCC '
        '/ root / cut analysis: exact (self-recursive, non-cut flat, iterative with '
        'depth+1 >= ignition) = T^(depth+1)(empty) as a multiset; sandwich (monotone '
        'set-valued, any strategy) = T^(depth+1) <= R <= T^((depth+2)*|component|), no '
        'duplicates. Non-trivial = the recursive rules contributed (T^(depth+1) != T^1); '
        'distinct by (program text, predicate).')
ASSUMPTIONS = ['reference evaluator lv/ref.py + step semantics lv/recgen.py',
               'CPython sqlite3', 'programs are live within the bound by our syntactic '
               'liveness rule (others are C19 K6)']
WALL = {'quick': 900, 'thorough': 7200}


def ignition_of(comp, depth, prog=None):
    # the compiler's cover also holds one auxiliary predicate per multi-rule distinct
    # member (multi-body aggregation rewrite)
    n_aux = 0
    if prog is not None:
        cnt = collections.Counter(r['pred'] for r in prog['rules'] if r['pred'] in comp
                                  and (r.get('distinct') or (r.get('value') is not None
                                       and r['value'][0] == 'AGG')))
        n_aux = sum(1 for c in cnt.values() if c > 1)
    ign = len(comp) + n_aux + 3
    if ign % 2 == depth % 2:
        ign += 1
    return ign


def rows_of_state(rows):
    return [tuple(r.values()) for r in rows]


def check_pred(prog, p, text=None, rules=None):
    """-> (status, bucket, detail, labels, nontrivial)"""
    text = text or model.print_program(prog)
    comps, dd = recgen.components(prog)
    comp = next((c for c in comps if p in c), None)
    if comp is None:
        return 'skip', 'non_recursive', '', [], False
    depth, root, cut, iterative = recgen.classify(prog, comp, dd)
    labels = ['cover:%d' % len(comp), 'depth:%s' % ('<=8' if depth <= 8 else
                                                    '9..20' if depth <= 20 else '>20')]
    if not recgen.live_within(prog, comp, dd, depth + 1):
        return 'skip', 'not_live_within_bound', '', labels, False
    agg = any(r['pred'] in comp and (r.get('value') is not None and r['value'][0] == 'AGG')
              for r in prog['rules'])
    setvalued = all(r.get('distinct') for r in prog['rules'] if r['pred'] in comp) and not agg
    exact = len(comp) == 1 or not cut or iterative
    strategy = 'iterative' if iterative else ('self' if len(comp) == 1 else
                                              ('vertical' if cut else 'flat'))
    if iterative and depth + 1 < ignition_of(comp, depth, prog):
        exact = False
    labels.append('strategy:' + strategy)
    if not exact and not setvalued:
        return 'skip', 'no_promise_for_this_class', '', labels, False
    labels.append('class:' + ('exact' if exact else 'sandwich'))
    # reference
    try:
        state, hist, conv = recgen.step_eval(prog, comp, depth + 1)
    except ref.TooBig:
        return 'inconclusive', 'ref_too_big', '', labels, False
    except ref.Ambiguous:
        return 'inconclusive', 'ref_ambiguous', '', labels, False
    low = rows_of_state(state[p])
    nontrivial = len(hist) > 1 and hist[-1] != hist[0]
    labels.append('converged_before_bound' if conv is not None else 'not_converged')
    # real
    try:
        if iterative:
            res, _ = drive.run_concertina(text, [p], max_calls=4000)
            hdr, rows = res[p]
        else:
            hdr, rows, sql = drive.run(text, p, rules=rules)
    except drive.Interrupted:
        return 'inconclusive', 'sqlite_budget', '', labels, False
    except drive.DIAGNOSTICS as e:
        msg = common.first_line(e)
        return 'fail', 'rejected_valid:%s:%s' % (type(e).__name__, common.msg_class(msg)), \
            '%s: %s\n--- %s\n%s' % (type(e).__name__, msg, p, text), labels, False
    except Exception as e:
        import traceback
        return 'fail', 'internal:' + drive.exc_frame(e), '%s\n--- %s\n%s' % (
            traceback.format_exc()[-1200:], p, text), labels, False
    info = 'comp=%s root=%s cut=%s depth=%d strategy=%s' % (sorted(comp), root, cut, depth,
                                                            strategy)
    if exact:
        d = canon.rows_match(low, rows)
        if d is not None:
            return 'fail', 'exact:' + strategy, '%s\n%s\nexpected T^%d(empty) %r\nactual %r\n--- %s\n%s' % (
                info, d, depth + 1, sorted(low)[:15], sorted(rows)[:15], p, text), labels, nontrivial
        return 'ok', None, '', labels, nontrivial
    # sandwich
    # upper bound: the least fixpoint (reference iterated until stable, capped)
    K = max((depth + 2) * (len(comp) + 2), 40)
    try:
        state2, hist2, conv2 = recgen.step_eval(prog, comp, K, stop_when_stable=True)
    except (ref.TooBig, ref.Ambiguous):
        return 'inconclusive', 'ref_too_big', '', labels, False
    if conv2 is None:
        labels.append('lfp_not_reached_by_reference')
    up = set(rows_of_state(state2[p]))
    act = collections.Counter(tuple(canon.decode(v) for v in r) for r in rows)
    lo = set(low)
    if any(c > 1 for c in act.values()):
        return 'fail', 'sandwich:duplicates', '%s\nduplicate rows %r\n--- %s\n%s' % (
            info, [r for r, c in act.items() if c > 1][:5], p, text), labels, nontrivial
    if not lo <= set(act):
        return 'fail', 'sandwich:missing_derivable', '%s\nmissing %r\n--- %s\n%s' % (
            info, sorted(lo - set(act))[:8], p, text), labels, nontrivial
    if conv2 is not None and not set(act) <= up:
        return 'fail', 'sandwich:outside_fixpoint', '%s\nextra %r\n--- %s\n%s' % (
            info, sorted(set(act) - up)[:8], p, text), labels, nontrivial
    labels.append('sandwich_tight' if set(act) == lo else 'sandwich_above_lower')
    return 'ok', None, '', labels, nontrivial


def shard(ctx, col):
    drive.enable_library_cache()

    def one(rng):
        deep_p = 0.12 if ctx.tier == 'quick' else 0.25
        deep = rng.random() < deep_p
        mid = rng.random() < (0.1 if ctx.tier == 'quick' else 0.2)     # depths 12, 19, 20 too
        prog = recgen.gen_rec(rng, allow_deep=deep or mid, deep_only=deep)
        text = model.print_program(prog)
        for l in prog['labels']:
            col.label(l)
        try:
            rules = drive.parse_rules(text)
        except Exception:
            rules = None
        for p in prog['names']:
            st, bucket, detail, labels, nt = check_pred(prog, p, text, rules)
            if st == 'skip':
                col.exclude(bucket)
                continue
            if st == 'inconclusive':
                col.inconc(bucket)
                continue
            if st == 'ok':
                col.case((text, p), nt, labels,
                         sample={'predicate': p, 'program': text, 'labels': labels})
            else:
                col.case((text, p), False, labels + ['failed'])
                col.fail(bucket, {'prog': model.prog_to_json(prog), 'pred': p}, detail)
    core.hyp_run(one, common.strategy(), ctx.budget, ctx.hyp_seed)


def check_case(case):
    drive.enable_library_cache()
    prog = model.prog_from_json(case['prog'])
    for k in ('names', 'ann_pred', 'depth', 'explicit_iter', 'kind', 'distinct'):
        prog[k] = case['prog'].get(k)
    st, bucket, detail, labels, nt = check_pred(prog, case['pred'])
    return [(bucket, detail)] if st == 'fail' else []
