"""C13 helpers: observations of one compilation, the step interpreter shared by the
in-process state machine and the replay subprocess, subprocess driver, comparison.

A *program item* is a JSON-able dict
  {'id': str, 'text': str, 'preds': [..], 'flags': {..} | None,
   'import_root': None | '$REPO' | '$REPO/<rel>' | '$FILES' | [..those..],
   'files': {relative path: text}}         # written to a temp dir = '$FILES'
A *step* is a list [kind, args...]:
  ['parse', i]            parse program i, keep the rules object (caller-owned)
  ['compile', i, p]       fresh parse, fresh LogicaProgram, FormattedPredicateSql(p)
  ['compile_kept', i, p]  LogicaProgram(<kept rules object of i>) (no copy), then p
  ['again', i, p]         FormattedPredicateSql(p) on the program object kept for i
  ['compile_all', i, prefer, maxn, pick]   batch form: every chosen predicate of i
  ['reset_too_much']      harness-side reset of parse.TOO_MUCH (D3 exclusion only)
'compile' on a failing / incantation program is the same step kind; the kind of
program is a property of the item (item['role']).
"""
import contextlib
import copy
import io
import json
import os
import re
import shutil
import subprocess
import sys
import tempfile

from lv import core

STOP_RE = re.compile(r'logical_stop_\d+')
INCANTATION = 'Signa inter verba conjugo, symbolum infixus evoco!'
SUB_TIMEOUT = int(os.environ.get('VERIF_C13_SUB_TIMEOUT', '1500'))


def mask(s):
    return STOP_RE.sub('logical_stop_<T>', s)


def _plain(x):
    """JSON-able deep copy with plain str (parser strings are a str subclass)."""
    if isinstance(x, dict):
        return {str(k): _plain(v) for k, v in x.items()}
    if isinstance(x, (list, tuple)):
        return [_plain(v) for v in x]
    if isinstance(x, str):
        return str(x)
    return x


def observe(prog, sql):
    ex = prog.execution
    o = {'sql': mask(str(sql)),
         'exports': [[str(k), mask(str(v))]
                     for k, v in ex.table_to_export_map.items()],
         'edges': [[mask(str(a)), mask(str(b))] for a, b in ex.dependency_edges]}
    # measured facts used for labels / exclusion classes only (never compared)
    try:
        live = set(ex.table_to_defined_table_map)
        parts = [(str(n), it) for n, it in (ex.iterations or {}).items()
                 if set(it['predicates']) & live]
        o['iters'] = sorted(len(set(it['predicates'])) for n, it in parts)
        o['iter_names'] = [n for n, it in parts]      # dict order = unfolding order
    except Exception:
        o['iters'] = []
        o['iter_names'] = []
    return o


def probe_state():
    """Module-level parser state named in the property's anchors (bucket aid only)."""
    from lv import drive
    return {'too_much': str(getattr(drive.parse, 'TOO_MUCH', None))}


def observe_error(e):
    from lv import drive
    return {'err': type(e).__name__, 'cls': drive.classify_exception(e).split(':')[0],
            'frame': drive.exc_frame(e), 'msg': mask(str(e))[:600]}


def _ntypes(prog):
    try:
        return len(prog.required_type_definitions or {})
    except Exception:
        return 0


class _Quiet(object):
    def __enter__(self):
        self.a = contextlib.redirect_stdout(io.StringIO())
        self.b = contextlib.redirect_stderr(io.StringIO())
        self.a.__enter__()
        self.b.__enter__()

    def __exit__(self, *exc):
        self.b.__exit__(*exc)
        self.a.__exit__(*exc)
        return False


class Session(object):
    """Interprets steps inside the current process."""

    def __init__(self, pool):
        from lv import drive                       # sets up repo imports
        self.parse = drive.parse
        self.universe = drive.universe
        self.pool = pool                           # id -> item
        self.kept_rules = {}                       # id -> (rules object, pre-copy)
        self.kept_prog = {}                        # id -> LogicaProgram
        self.kept_types0 = {}                      # id -> #type definitions at creation
        self.tmp = None
        self.files_root = {}

    # -- files / import roots
    def _root_of(self, item):
        ir = item.get('import_root')
        if ir is None:
            return None

        def one(x):
            if x == '$FILES':
                return self._files_dir(item)
            if x.startswith('$REPO'):
                return os.path.join(core.repo_path(), x[6:]) if len(x) > 5 \
                    else core.repo_path()
            return x
        if isinstance(ir, list):
            return [one(x) for x in ir]
        return one(ir)

    def _files_dir(self, item):
        k = item['id']
        if k not in self.files_root:
            if self.tmp is None:
                self.tmp = tempfile.mkdtemp(prefix='lv_c13_')
            d = os.path.join(self.tmp, 'f%d' % len(self.files_root))
            for rel, text in item.get('files', {}).items():
                p = os.path.join(d, rel)
                os.makedirs(os.path.dirname(p), exist_ok=True)
                with open(p, 'w') as f:
                    f.write(text)
            os.makedirs(d, exist_ok=True)
            self.files_root[k] = d
        return self.files_root[k]

    def close(self):
        if self.tmp:
            shutil.rmtree(self.tmp, ignore_errors=True)
            self.tmp = None
            self.files_root = {}

    # -- steps
    def _parse(self, item):
        return self.parse.ParseFile(item['text'], import_root=self._root_of(item))['rule']

    def step(self, st):
        o = self._step(st)
        if isinstance(o, dict):
            o['state'] = probe_state()
        return o

    def _step(self, st):
        """-> observation dict, or None for steps that produce no SQL."""
        kind = st[0]
        if kind == 'reset_too_much':
            self.parse.TOO_MUCH = 'too much'
            return None
        item = self.pool[st[1]]
        flags = item.get('flags') or {}
        with _Quiet():
            try:
                if kind == 'parse':
                    rules = self._parse(item)
                    self.kept_rules[item['id']] = (rules, copy.deepcopy(rules))
                    self.kept_prog.pop(item['id'], None)
                    return None
                if kind == 'compile_all':
                    return self._compile_all(item, flags, st[2], st[3], st[4])
                if kind == 'compile':
                    rules = self._parse(item)
                    prog = self.universe.LogicaProgram(rules, user_flags=dict(flags))
                    sql = prog.FormattedPredicateSql(st[2])
                    return observe(prog, sql)
                if kind == 'compile_kept':
                    rules, pre = self.kept_rules[item['id']]
                    prog = self.universe.LogicaProgram(rules, user_flags=dict(flags))
                    self.kept_prog[item['id']] = prog
                    self.kept_types0[item['id']] = _ntypes(prog)
                    sql = prog.FormattedPredicateSql(st[2])
                    o = observe(prog, sql)
                    o['rules_unchanged'] = bool(rules == pre)
                    return o
                if kind == 'again':
                    prog = self.kept_prog[item['id']]
                    # measured (never compared): the program object holds record type
                    # definitions it did not have when it was created, i.e. gathered
                    # while an earlier predicate was compiled (class D13 of c13.py)
                    carried = _ntypes(prog) > self.kept_types0.get(item['id'], 0)
                    self._carried = carried
                    sql = prog.FormattedPredicateSql(st[2])
                    o = observe(prog, sql)
                    o['types_carried'] = carried
                    rules, pre = self.kept_rules[item['id']]
                    o['rules_unchanged'] = bool(rules == pre)
                    return o
            except (KeyboardInterrupt, MemoryError):
                raise
            except BaseException as e:      # SystemExit included: parse calls sys.exit
                o = observe_error(e)
                if kind in ('compile_kept', 'again') and item['id'] in self.kept_rules:
                    rules, pre = self.kept_rules[item['id']]
                    o['rules_unchanged'] = bool(rules == pre)
                if kind == 'again':
                    o['types_carried'] = bool(getattr(self, '_carried', False))
                if kind == 'parse':
                    self.kept_rules.pop(item['id'], None)
                    return None
                return o
        raise ValueError('unknown step %r' % (st,))

    def _compile_all(self, item, flags, prefer, maxn, pick):
        """Discover the predicates of the main file with the real parser and compile
        `prefer` (those that are defined) plus up to maxn others, each from a fresh
        parse and a fresh program object.  -> {'multi': [[pred, obs]..], 'defined': n}"""
        try:
            rules = self._parse(item)
        except (KeyboardInterrupt, MemoryError):
            raise
        except BaseException as e:
            return {'multi': [['<parse>', observe_error(e)]], 'defined': 0}
        names = rule_predicates(rules)
        chosen = [p for p in prefer if p in names]
        rest = [n for n in names if n not in chosen]
        if rest:
            k = pick % len(rest)
            rest = rest[k:] + rest[:k]
        chosen += rest[:max(0, maxn)] if chosen else rest[:max(1, maxn)]
        out = []
        for p in chosen:
            try:
                rules = self._parse(item)
                prog = self.universe.LogicaProgram(rules, user_flags=dict(flags))
                sql = prog.FormattedPredicateSql(p)
                out.append([p, observe(prog, sql)])
            except (KeyboardInterrupt, MemoryError):
                raise
            except BaseException as e:
                out.append([p, observe_error(e)])
        return {'multi': out, 'defined': len(names)}

    def applicable(self, st):
        kind = st[0]
        if kind == 'compile_kept':
            return st[1] in self.kept_rules
        if kind == 'again':
            return st[1] in self.kept_prog
        return True


def run_steps(pool, steps):
    """Execute steps in THIS process; -> list of observations (None where n/a)."""
    s = Session(pool)
    out = []
    try:
        for st in steps:
            if not s.applicable(st):
                out.append({'skipped': True})
                continue
            out.append(s.step(st))
    finally:
        s.close()
    return out


# ------------------------------------------------------------------ subprocesses

def run_sub(pool, steps, hashseed=0, timeout=None):
    """Run steps in a fresh interpreter with the given PYTHONHASHSEED.
    -> list of observations, or raises SubFailure."""
    d = tempfile.mkdtemp(prefix='lv_c13s_')
    try:
        inp = os.path.join(d, 'in.json')
        outp = os.path.join(d, 'out.json')
        used = {}
        for st in steps:
            if len(st) > 1:
                used[st[1]] = pool[st[1]]
        with open(inp, 'w') as f:
            json.dump({'pool': used, 'steps': steps}, f)
        env = dict(os.environ)
        env['PYTHONHASHSEED'] = str(hashseed)
        env['PYTHONPATH'] = core.VERIF + os.pathsep + env.get('PYTHONPATH', '')
        env.pop('LOGICA_PARSER', None)
        try:
            p = subprocess.run([sys.executable, '-m', 'lv.props.c13_sub', inp, outp],
                               cwd=core.VERIF, env=env, stdout=subprocess.PIPE,
                               stderr=subprocess.STDOUT, timeout=timeout or SUB_TIMEOUT)
        except subprocess.TimeoutExpired:
            raise SubTimeout()
        if p.returncode != 0 or not os.path.exists(outp):
            raise SubFailure('rc=%s\n%s' % (p.returncode,
                                            p.stdout.decode('utf-8', 'replace')[-3000:]))
        with open(outp) as f:
            return json.load(f)
    finally:
        shutil.rmtree(d, ignore_errors=True)


class SubFailure(Exception):
    pass


class SubTimeout(Exception):
    pass


# ------------------------------------------------------------------ comparison

def iteration_order(o):
    """Order of the plan's iterations in execution.iterations (a dict filled in the
    order in which the recursive components were unfolded)."""
    return list((o or {}).get('iter_names') or [])


def first_diff(a, b, ctx=160):
    n = min(len(a), len(b))
    i = next((k for k in range(n) if a[k] != b[k]), n)
    lo = max(0, i - ctx // 2)
    return 'first difference at offset %d:\n  A: %r\n  B: %r' % (
        i, a[lo:i + ctx], b[lo:i + ctx])


ALLOC_RE = re.compile(r'\b([xt])_\d+(?![0-9A-Za-z])')


def line_multiset(sql):
    """Lines of the script with allocator numbers blanked, as a sorted list: equal for
    two scripts that differ only in the order in which statements were emitted (and in
    the numbering of generated aliases that follows from that order)."""
    return sorted(ALLOC_RE.sub(r'\1_N', x) for x in sql.split('\n'))


def compare(base, other):
    """Compare two observations of the same (program, predicate).
    -> (None, notes) when equal under the property, else (what, detail, notes)
    `what` names the differing component (bucket part)."""
    notes = []
    if base is None or other is None:
        return None, notes
    be, oe = 'err' in base, 'err' in other
    if be or oe:
        if be and oe:
            if base['err'] != other['err']:
                return ('error_type', 'baseline raises %s (%s), variant raises %s (%s)' % (
                    base['err'], base['msg'][:300], other['err'], other['msg'][:300])), notes
            if base['msg'] != other['msg']:
                notes.append('note:diagnostic_text_differs')
            return None, notes
        a, b = (base, other) if be else (other, base)
        return ('fails_vs_compiles:%s' % a['frame'],
                '%s raises %s: %s\nwhile the %s compiles' % (
                    'baseline' if be else 'variant', a['err'], a['msg'][:500],
                    'variant' if be else 'baseline')), notes
    if base['sql'] != other['sql']:
        kind = 'statement_order' if line_multiset(base['sql']) == \
            line_multiset(other['sql']) else 'sql_text'
        return (kind, first_diff(base['sql'], other['sql'])), notes
    bx, ox = base['exports'], other['exports']
    if sorted(bx) != sorted(ox):
        ta = json.dumps(sorted(bx))
        tb = json.dumps(sorted(ox))
        return ('export_map', first_diff(ta, tb)), notes
    if bx != ox:
        notes.append('note:export_map_key_order_differs')
    be_, oe_ = sorted(map(tuple, base['edges'])), sorted(map(tuple, other['edges']))
    if sorted(set(be_)) != sorted(set(oe_)):
        return ('dependency_edges', 'edges only in baseline: %r\nonly in variant: %r' % (
            sorted(set(be_) - set(oe_))[:10], sorted(set(oe_) - set(be_))[:10])), notes
    if base['edges'] != other['edges']:
        notes.append('note:edge_list_order_differs')
    return None, notes


# ------------------------------------------------------------------ corpus

def corpus_specs():
    """Static discovery of the integration corpus: one spec per .l file (plus the
    psql->duckdb variants the repository's runner derives), with the golden
    predicate / flags / import root taken from integration_tests/run_tests.py."""
    import ast
    rp = core.repo_path()
    it = os.path.join(rp, 'integration_tests')
    calls = {}
    try:
        with open(os.path.join(it, 'run_tests.py')) as f:
            tree = ast.parse(f.read())
        for node in ast.walk(tree):
            if isinstance(node, ast.Call) and getattr(node.func, 'id', None) == 'RunTest':
                kw = {}
                names = ['name', 'src', 'golden', 'predicate', 'user_flags', 'import_root']
                try:
                    for n, a in zip(names, node.args):
                        kw[n] = ast.literal_eval(a)
                    for k in node.keywords:
                        kw[k.arg] = ast.literal_eval(k.value)
                except (ValueError, SyntaxError):
                    continue
                if 'name' not in kw:
                    continue
                src = kw.get('src') or kw['name'] + '.l'
                calls.setdefault(src, []).append(kw)
    except (OSError, SyntaxError):
        pass
    specs = []
    files = []
    for root, dirs, fs in os.walk(it):
        dirs.sort()
        for fn in sorted(fs):
            if fn.endswith('.l'):
                files.append(os.path.relpath(os.path.join(root, fn), it))
    for rel in sorted(files):
        with open(os.path.join(it, rel), encoding='utf-8') as f:
            text = f.read()
        kws = calls.get(rel, [{}])
        golden = []
        flags = None
        iroot = '$REPO'
        duck = False
        for kw in kws:
            p = kw.get('predicate') or 'Test'
            if p not in golden:
                golden.append(p)
            if kw.get('user_flags'):
                flags = kw['user_flags']
            if kw.get('import_root'):
                r = kw['import_root']
                if isinstance(r, list):
                    iroot = ['$REPO/' + x if x else '$REPO' for x in r]
                else:
                    iroot = '$REPO/' + r
            if kw.get('duckify_psql') or kw.get('name', '').startswith('psqld_'):
                duck = True
        specs.append({'id': 'corpus:' + rel, 'text': text, 'golden': golden,
                      'flags': flags, 'import_root': iroot, 'role': 'corpus'})
        if duck:
            specs.append({'id': 'corpus-duck:' + rel,
                          'text': text.replace('"psql"', '"duckdb"'), 'golden': golden,
                          'flags': flags, 'import_root': iroot, 'role': 'corpus'})
    return specs


def rule_predicates(rules):
    """Names a user can ask to compile: heads of ordinary rules and functor
    applications (`A := F(..)` parses to a rule with head @Make(A, F, {..}))."""
    out = []
    for r in rules:
        n = str(r['head']['predicate_name'])
        if n == '@Make':
            try:
                n = str(r['head']['record']['field_value'][0]['value']['expression'][
                    'literal']['the_predicate']['predicate_name'])
            except (KeyError, IndexError, TypeError):
                continue
        if n not in out and not n.startswith('@') and not n.startswith('_'):
            out.append(n)
    return out
