"""C05: type checking accepts well-typed programs with exactly their signatures, rejects
programs that force two ground types on one variable / expression in every order, and
the values SQLite returns inhabit the inferred column types.

Oracle = lv/typeref.py, an independent unification-based type checker for our AST
(shares nothing with type_inference/research).  Programs come from the typed generator
lv/gen.py plus type-preserving augmentations (Bool column, open-record function, nested
composites); corruptions are proposed by lv/typemut.py and *classified by the reference
checker* (lax run finds a ground clash => must be rejected; strict run clean => must be
accepted; anything in between is outside the property and only counted).
"""
import copy
import json
import os
import re
import traceback

from lv import core, model, gen, drive, xform, typeref, typemut, canon
from lv.props import common

from type_inference.research import reference_algebra as _ra     # rendering only

ID = 'C05'
BUDGET = {'quick': 256, 'thorough': 6000}       # generated base programs
WALL = {'quick': 1500, 'thorough': 7200}
RULE = ('base programs from the typed generator (numbers, strings, lists, closed records '
        'and field access, if-then-else, boolean propositions, aggregation incl. '
        'multi-body, combines in all syntaxes, negation, implication, disjunction, '
        'functional and injectible predicates) + augmentations (Bool column and a reader '
        'of it, function over an open record, list of records / record with list / record '
        'in record, a predicate Mq that reads a field of a closed record and hands the '
        'record to a consumer Cq, a relay predicate whose column is typed only through variable-only '
        'calls and one fact, its statements inserted at independent positions); each base program in its generated order and under 2 further '
        'permutations of statements, conjuncts (also inside combines / negations) and '
        'disjuncts; 6 single-point corruptions per program drawn from 25 kinds (literal of '
        'another type in a rule / in one fact, variable swapped with one of another type, '
        'arithmetic on Str, ++ / ! on Num, expression replaced by a literal of another '
        'type, added == / < / in / && across types, mixed list literal, record literal '
        'with a missing / extra field, field of a record used at another type, Sum/+= of '
        'a string, swapped call arguments, bound variable passed to a column of another '
        'type (incl. [T] to [T\'], record to record\'), one column of every fact retyped, '
        'the fact / second call of a relay predicate `Tq(v: x) :- D(f: x); Tq(v: lit)` '
        'retyped: a clash between two rules that flows only through the callee; a field '
        'that a record closed by a literal does not have addressed next to 1-2 valid '
        'accesses of the same variable, or by the consumer Cq of a record that a '
        'predicate Mq reading one of its fields hands on), '
        'each again under 3 orders; the reference checker classifies every variant: '
        'ground clash => must raise TypeErrorCaughtException (from LogicaProgram(...) or, '
        'failing that, from FormattedPredicateSql of some predicate); clean under the '
        'strict reading => must be accepted with exactly the reference signatures; else '
        'counted as outside the property.  Engines: @Engine("sqlite", type_checking: '
        'true) for every order, psql / duckdb (checking on by default) for one order; the '
        'base program is also compiled for every predicate and run on SQLite, every '
        'returned value must inhabit its column type.  One evaluation = one (program '
        'variant, order, engine).  Non-trivial = accepted variant with >= 2 predicates '
        'and a composite, Bool or aggregated column, or rejected variant whose clash is '
        'NOT visible inside the corrupted conjunct alone (it needs a second conjunct, the '
        'callee\'s definition or another rule); distinct by hash of (text, engine).')
ASSUMPTIONS = [
    'lv/typeref.py is the oracle: arithmetic Num, ++ on two strings or two lists, '
    '== < <= > >= relate one type, && || ! Bool, list literal one element type, record '
    'literal closed, e.f needs that field, call = instance of the callee signature, all '
    'rules of a predicate one signature, Sum/+= Num, Min/Max same type, Count any -> Num, '
    'List/Set [T], ArgMin/ArgMax {arg: A, value: V} -> A',
    'ground clash = failed unification of two fully determined types, or a field '
    'addressed on a record whose type is the (closed) type of a record literal that lacks '
    'it; clashes against Any / Singular / Sequential / an open record (null, [], '
    'Size("s"), r.nofield on a record not closed by a literal) are '
    'outside the statement and only counted',
    'constraints the statement does not fix (!= operands, if-condition Bool, proposition '
    'Bool, `in` inside a boolean expression, same argument type in every body of a '
    'multi-body aggregation) are used only to withhold an "accept" expectation',
    'polymorphic injectible predicates (parameter never forced) are compared on their '
    'determined fields only',
    'a disjunction is one rule per branch (the parser rewrites it so): a variable that '
    'occurs in two branches only is typed per branch when looking for clashes',
    'values: Num int/float, Str str, Bool 0/1, list / record = JSON text (possibly '
    'encoded once more when nested), null inhabits every type',
    'dialect-library parse memoised per process (filled by the real parser)',
]

# ---- input classes of known findings (generator / oracle keep away unless switched on
# with VERIF_C05_INCLUDE=a,b or case["assume"])
#   rec_field       two record types with the same fields that differ in the type of one
#                   field meet (through variables, or a variable and a literal written in
#                   another rule): accepted by /repo for some rule orders, always when
#                   no record literal is involved
#   rec_arg_lit     record literal lacking a field, written directly as call / head
#                   argument of a position typed by an earlier signature: accepted, and
#                   rejected when the rules come in the other order
#   neq             `x != y` across two ground types: `!=` has no signature in /repo
#   sibling_locals  two sibling combines / negations use one spelling for locals of
#                   different types: rejected depending on conjunct order
#   colnames        positional field N spelled `colN:` in some heads / calls and not in
#                   others: rejected ("inconsistent rules" / "does not have argument")
KNOWN_CLASSES = ('rec_field', 'rec_arg_lit', 'neq', 'sibling_locals', 'colnames')
# All five classes were repaired in /repo (fix: commits 0b4c870 rec_field, 8ddf0e3
# rec_arg_lit, 2fad383 sibling_locals, 723089e colnames, c2ec532 neq): every class is
# included by default; VERIF_C05_EXCLUDE=a,b keeps a class away again.
_EXC = set(x for x in os.environ.get('VERIF_C05_EXCLUDE', '').split(',') if x)
INCLUDE = (set(KNOWN_CLASSES) | set(
    x for x in os.environ.get('VERIF_C05_INCLUDE', '').split(',') if x)) - _EXC

OPTS = dict(p_colnames=0.0, p_neg=0.25, p_agg=0.35, p_distinct=0.4, p_null_fact=0.0,
            p_or=0.3, p_fcall=0.1, p_sibling_reuse=0.35, p_feed_sibling=0.3,
            p_composite_col=0.4, p_impl=0.08, min_list_len=1,
            agg_ops=('Sum', 'Min', 'Max', '+', 'List', 'Set', 'ArgMin', 'ArgMax', 'Count'),
            pred_agg_ops_n=('Sum', 'Min', 'Max', 'Count', '+', 'List', 'Set', 'ArgMin',
                            'ArgMax'),
            pred_agg_ops_s=('Min', 'Max', 'List', 'Set', 'ArgMax'),
            n_idb=(2, 3), nest_depth=2, n_inj=(0, 2))
N_MUTANTS = 6
MUST_KINDS = ('relay_clash', 'missing_field', 'missing_field_consumer',
              'in_expression_other_list')
N_ORDERS = 3
RULE_CACHE = not os.environ.get('VERIF_C05_NO_RULE_CACHE')
ENGINE_LINES = {
    'sqlite': '@Engine("sqlite", type_checking: true);',
    'psql': '@Engine("psql");',
    'duckdb': '@Engine("duckdb");',
}


def opts():
    o = dict(OPTS)
    if 'colnames' in INCLUDE:
        o['p_colnames'] = 0.1
    return o


# ----------------------------------------------------------------- expectation

def uses_colnames(prog):
    for r in prog['rules']:
        if 'colnames' in r.get('opts', ()):
            return True
        for l in common.walk_lits(r['body']):
            if l[0] == 'call' and 'colnames' in (l[3] if len(l) > 3 else ()):
                return True
    return False


def positional_ok(args):
    pos = [a[0] for a in args if isinstance(a[0], int)]
    return pos == list(range(len(pos))) and \
        all(isinstance(a[0], int) for a in args[:len(pos)])


def printable(prog):
    """The printer writes positional arguments without their index: the AST and the
    text agree only if they are 0..k-1, in order, before the named ones."""
    for r in prog['rules']:
        if not positional_ok(r['head']):
            return False
        for l in common.walk_lits(r['body']):
            if l[0] == 'call' and not positional_ok(l[2]):
                return False
        for e in common.rule_exprs(r):
            if e[0] == 'fcall' and not positional_ok(e[2]):
                return False
    return True


def verdict(prog, assume=()):
    """-> dict expect: accept | reject | skip, why, cls, ground, sigs, conflicts"""
    inc = INCLUDE | set(assume)
    v = {'expect': 'skip', 'why': '', 'cls': None, 'ground': False, 'sigs': None,
         'excluded': []}
    if not printable(prog):
        v['why'] = 'unsupported:positional_arguments_not_a_prefix'
        return v
    try:
        lax_opts = {'neq'} if 'neq' in inc else set()
        lax = typeref.Checker(prog, strict=False)
        lax.strict_neq = 'neq' in inc
        lax.run()
        strict = typeref.check(prog, strict=True)
    except typeref.Unsupported as e:
        v['why'] = 'unsupported:' + str(e).split(' ')[0]
        return v
    except RecursionError:
        v['why'] = 'unsupported:recursion'
        return v
    gcl = [c for c in lax.clashes if c['ground']]
    hard = [c for c in gcl if c['cls'] in ('plain', 'rec_head_lit', 'missing_field') or
            c['cls'] in inc]
    if hard:
        c = hard[0]
        for c2 in hard:               # prefer the plain class for the bucket name
            if c2['cls'] == 'plain':
                c = c2
                break
        v.update(expect='reject', cls=c['cls'], clash=c,
                 pair='~'.join(sorted([kind_of(c['a']), kind_of(c['b'])])))
        return v
    if gcl:
        v['why'] = 'known_class_only'
        v['excluded'] = sorted(set(c['cls'] for c in gcl))
        return v
    if lax.clashes:
        v['why'] = 'nonground_clash_only'
        return v
    if strict.clashes:
        v['why'] = 'optional_constraint_only'
        return v
    conf = strict.sibling_local_conflicts()
    v['conflicts'] = conf
    if conf and 'sibling_locals' not in inc:
        v['why'] = 'known_class_only'
        v['excluded'] = ['sibling_locals']
        return v
    if uses_colnames(prog) and 'colnames' not in inc:
        v['why'] = 'known_class_only'
        v['excluded'] = ['colnames']
        return v
    v['expect'] = 'accept'
    # signatures and "everything determined" come from the lax run: a type that only
    # an optional constraint fixes (`y in ["a"]` inside a condition) is not compared
    v['ground'] = concrete_ground(prog, lax)
    v['sigs'] = lax.signatures()
    v['checker'] = strict
    v['lax'] = lax
    return v


def kind_of(rendered):
    if rendered.startswith('['):
        return 'list'
    if rendered.startswith('{'):
        return 'rec'
    return rendered


def concrete_ground(prog, ck):
    """Every variable of every rule and every field of every concrete predicate is
    determined (variables of polymorphic injectible definitions may stay open)."""
    for where, env in ck.rule_env:
        if isinstance(where, str):
            continue
        for t in env.values():
            if not typeref.ground_or_open(t):
                return False
    for where, env in ck.scope_locals:
        if isinstance(where, str):
            continue
        for t in env.values():
            if not typeref.ground_or_open(t):
                return False
    for p, s in ck.sig.items():
        if p in prog.get('inj', {}):
            continue
        for t in s.values():
            if not typeref.ground_or_open(t):
                return False
    return True


# ----------------------------------------------------------------- the compiler side

def strip_color(s):
    return re.sub(r'\x1b\[[0-9;]*m', '', str(s))


_rule_cache = {}
_real_parse_rule = drive.parse.ParseRule


def _caching_parse_rule(s):
    """Per-statement memo of parse.ParseRule (filled by the real parser in this
    process; a statement parses the same wherever it stands - the file-level rewrites
    run afterwards on copies).  The variants of one program share most statements."""
    key = str(s)
    hit = _rule_cache.get(key)
    if hit is None:
        if len(_rule_cache) > 4000:
            _rule_cache.clear()
        hit = _rule_cache[key] = _real_parse_rule(s)
    return copy.deepcopy(hit)


def enable_rule_cache(on=True):
    drive.parse.ParseRule = _caching_parse_rule if on else _real_parse_rule


def construct(text, engine='sqlite', cache=None):
    """-> ('ok', program) | ('type_error', msg) | ('diagnostic', exc) | ('internal', exc)
    The text always carries the sqlite engine line.  For psql / duckdb the parse of the
    same text is reused (cache['rules'], made by the sqlite call) with the @Engine rule
    replaced by the parse of that engine's line."""
    try:
        with drive.quiet():
            if engine == 'sqlite' or cache is None or 'rules' not in cache:
                t = text if engine == 'sqlite' else text.replace(
                    ENGINE_LINES['sqlite'], ENGINE_LINES[engine], 1)
                rules = drive.parse.ParseFile(t)['rule']
                if cache is not None and engine == 'sqlite':
                    cache['rules'] = copy.deepcopy(rules)
            else:
                rules = copy.deepcopy(cache['rules'])
                er = drive.parse.ParseFile(ENGINE_LINES[engine])['rule']
                idx = [i for i, r in enumerate(rules)
                       if r['head']['predicate_name'] == '@Engine']
                assert len(idx) == 1 and len(er) == 1
                rules[idx[0]] = er[0]
            p = drive.universe.LogicaProgram(rules)
        return 'ok', p
    except drive.infer.TypeErrorCaughtException as e:
        return 'type_error', strip_color(e)
    except drive.DIAGNOSTICS as e:
        return 'diagnostic', e
    except RecursionError as e:
        return 'diagnostic', e
    except Exception as e:
        return 'internal', e


def compiler_sigs(p, names):
    out = {}
    for n in names:
        s = p.predicate_signatures.get(n)
        if s is None:
            out[n] = None
            continue
        out[n] = {f: _ra.RenderType(_ra.VeryConcreteType(t)) for f, t in s.items()}
    return out


def norm_field(f):
    if isinstance(f, str) and f.startswith('col') and f[3:].isdigit():
        return int(f[3:])
    return f


def sig_diff(mine, theirs):
    """mine: {pred: {field: (rendered, determined)}}; theirs: {pred: {field: rendered}}"""
    diffs = []
    for pred in sorted(mine):
        got = theirs.get(pred)
        if got is None:
            diffs.append('%s: no signature' % pred)
            continue
        got = {norm_field(f): t for f, t in got.items()}
        exp = mine[pred]
        if set(exp) != set(got):
            diffs.append('%s: fields %r expected, %r inferred' % (
                pred, sorted(map(str, exp)), sorted(map(str, got))))
            continue
        for f in sorted(exp, key=str):
            r, det = exp[f]
            if det and r != got[f]:
                diffs.append('%s.%s: expected %s inferred %s' % (pred, f, r, got[f]))
    return diffs


def in_type_inference(e):
    tb = traceback.extract_tb(e.__traceback__)
    return any('type_inference' in f.filename for f in tb)


def msg_key(msg):
    """Root-cause key of a type error message: the two types that met."""
    m = re.search(r'implied to be (.*) and simultaneously (.*), which is impossible',
                  msg, re.S)
    if m:
        return '~'.join(sorted([kind_of(m.group(1).strip()),
                                kind_of(m.group(2).strip())]))
    if 'does not have field' in msg:
        return 'missing_field'
    if 'belongs to a list' in msg:
        return 'list_in_list'
    if 'inconcistent rules' in msg or 'does not have argument' in msg:
        return 'predicate_fields'
    if 'is not a function' in msg:
        return 'not_a_function'
    lines = [l for l in msg.split('\n') if l.strip()]
    return common.msg_class(lines[-1] if lines else '')[:40]


def inhabits(v, t, depth=0):
    t = typeref.find(t)
    if v is None or t.kind == 'var':
        return True
    if t.kind == 'Num':
        return isinstance(v, (int, float)) and not isinstance(v, bool)
    if t.kind == 'Str':
        return isinstance(v, str)
    if t.kind == 'Bool':
        return isinstance(v, (int, bool)) and v in (0, 1)
    if isinstance(v, str) and t.kind in ('list', 'rec'):
        try:
            v = json.loads(v)
        except ValueError:
            return False
    if t.kind == 'list':
        return isinstance(v, list) and all(inhabits(x, t.elem) for x in v)
    if t.kind == 'rec':
        if not isinstance(v, dict):
            return False
        keys = set(v)
        want = set(str(f) for f in t.fields)
        if t.closed and keys != want:
            return False
        if not want <= keys:
            return False
        return all(inhabits(v[str(f)], ft) for f, ft in t.fields.items())
    return False


def concrete_preds(prog):
    seen = []
    for r in prog['rules']:
        if r['pred'] not in seen:
            seen.append(r['pred'])
    return seen


def evaluate(prog, engine='sqlite', assume=(), run_values=False, compile_sql=True,
             v=None, cache=None):
    """One (program variant in its order, engine).  -> dict with
    status ok | fail | skip | inconclusive, bucket, detail, labels, text, expect.
    An exception that escapes from the code under test at any point of the evaluation
    (also while its signatures are read and rendered) is an internal error of the
    compiler: a failure with the program recorded, never a dead worker.  An exception
    raised by the harness alone is re-raised."""
    v = v or verdict(prog, assume)
    try:
        return evaluate_(prog, engine, run_values, compile_sql, v, cache)
    except (KeyboardInterrupt, MemoryError):
        raise
    except BaseException as e:      # pylint: disable=broad-exception-caught
        frame = drive.exc_frame(e)
        if '@' not in frame:
            raise                   # no frame of the repository involved: harness bug
        if not os.path.isfile(os.path.join(core.repo_path(), 'logica.py')):
            raise                   # the tree under test vanished: environment, not a verdict
        text = model.print_program(prog, engine_line=ENGINE_LINES[engine])
        return {'status': 'fail', 'bucket': 'internal_escaped:' + frame, 'labels': [],
                'text': text, 'expect': v['expect'], 'v': v,
                'detail': '%s\n--- engine %s, expected: %s\n%s' % (
                    ''.join(traceback.format_exception(type(e), e, e.__traceback__))[-2000:],
                    engine, v['expect'], text)}


def evaluate_(prog, engine, run_values, compile_sql, v, cache):
    text = model.print_program(prog, engine_line=ENGINE_LINES['sqlite'])
    shown = text.replace(ENGINE_LINES['sqlite'], ENGINE_LINES[engine], 1)
    res = {'status': 'ok', 'bucket': None, 'detail': '', 'labels': [], 'text': shown,
           'expect': v['expect'], 'v': v}
    if v['expect'] == 'skip':
        res['status'] = 'skip'
        return res

    def fail(bucket, detail):
        res.update(status='fail', bucket=bucket,
                   detail='%s\n--- engine %s, expected: %s\n%s' % (
                       detail, engine, v['expect'], shown))
        return res
    st, p = construct(text, engine, cache)
    if v['expect'] == 'reject':
        c = v['clash']
        what = 'reference checker: %s meets %s in rule %s (class %s)' % (
            c['a'], c['b'], c['where'], c['cls'])
        if st == 'type_error':
            res['labels'].append('rejected_by:constructor')
            return res
        if st == 'internal':
            return fail('clash_internal:' + drive.exc_frame(p),
                        what + '\n' + ''.join(traceback.format_exception(
                            type(p), p, p.__traceback__))[-1500:])
        if st == 'diagnostic':
            # not a type error: some other diagnostic came first
            res['status'] = 'inconclusive'
            res['bucket'] = 'other_diagnostic_on_clash:' + type(p).__name__
            return res
        # constructor accepted: a type error may still come at SQL generation
        blocked = False
        for pred in concrete_preds(prog):
            try:
                with drive.quiet():
                    p.FormattedPredicateSql(pred)
            except drive.infer.TypeErrorCaughtException:
                res['labels'].append('rejected_by:sql_generation')
                return res
            except Exception:
                # another diagnostic / error stopped this predicate before its
                # structure was typed
                blocked = True
                continue
        if blocked and v['cls'] == 'rec_head_lit':
            # this class is found by the inference on the compiled structure only
            res['status'] = 'inconclusive'
            res['bucket'] = 'clash_not_reached_sql_generation_blocked'
            return res
        return fail('clash_accepted:%s:%s' % (v['cls'], v['pair']),
                    what + '\nthe compiler raised no type error')
    # ---- expect accept
    if st == 'type_error':
        sub = msg_key(p)
        if v.get('conflicts'):
            sub = 'sibling_locals'
        elif uses_colnames(prog):
            sub = 'colnames'
        return fail('welltyped_rejected:' + sub, p)
    if st == 'internal':
        if in_type_inference(p):
            return fail('internal:' + drive.exc_frame(p),
                        ''.join(traceback.format_exception(
                            type(p), p, p.__traceback__))[-1500:])
        res['status'] = 'inconclusive'
        res['bucket'] = 'internal_outside_type_inference'
        return res
    if st == 'diagnostic':
        res['status'] = 'inconclusive'
        res['bucket'] = 'other_diagnostic:' + type(p).__name__
        return res
    mine = v['sigs']
    diffs = sig_diff(mine, compiler_sigs(p, sorted(mine)))
    if diffs:
        sub = ''
        if any(e[0] == 'inx' for r in prog['rules'] for h in model.head_exprs(r)
               for e in common.walk_exprs_of_expr(h)):
            sub = ':in_expression_as_value'
        return fail('signature_differs' + sub, '\n'.join(diffs))
    if engine != 'sqlite' or not compile_sql:
        return res
    ck = v['checker']
    for pred in concrete_preds(prog):
        try:
            with drive.quiet():
                p.FormattedPredicateSql(pred)
        except drive.infer.TypeErrorCaughtException as e:
            return fail('welltyped_rejected_at_sql:' + msg_key(strip_color(e)),
                        'predicate %s\n%s' % (pred, strip_color(e)))
        except drive.DIAGNOSTICS as e:
            res['labels'].append('other_diagnostic:' + type(e).__name__)
            continue
        except Exception as e:
            if in_type_inference(e):
                return fail('internal:' + drive.exc_frame(e),
                            'predicate %s\n%s' % (pred, traceback.format_exc()[-1500:]))
            res['labels'].append('internal_outside_type_inference')
            continue
        if not run_values:
            continue
        try:
            hdr, rows = drive.execute(p)
        except drive.Interrupted:
            res['labels'].append('sqlite_budget')
            continue
        except Exception as e:
            res['labels'].append('sqlite_error:' + type(e).__name__)
            continue
        res['labels'].append('ran')
        if rows:
            res['labels'].append('ran_nonempty')
        sig = v['lax'].sig[pred]
        for row in rows[:500]:
            for name, val in zip(hdr, row):
                f = norm_field(name)
                if f not in sig:
                    continue
                if not inhabits(val, sig[f]):
                    return fail('value_outside_type:' + typeref.find(sig[f]).kind,
                                'predicate %s column %s: value %r does not inhabit %s' % (
                                    pred, name, val, typeref.render(sig[f])))
    return res


# ----------------------------------------------------------------- non-trivial rules

def accept_nontrivial(prog, v):
    if v['expect'] != 'accept' or not v['ground']:
        return False
    sigs = v['sigs']
    preds = [p for p in sigs if p not in prog.get('inj', {})]
    if len(preds) < 2:
        return False
    for p in preds:
        for f, (r, det) in sigs[p].items():
            if r[:1] in '[{' or r == 'Bool':
                return True
    for r in prog['rules']:
        if any(h[0] == 'AGG' for f, h in r['head']) or (
                r.get('value') is not None and r['value'][0] == 'AGG'):
            return True
    return False


def changed_pieces(base, mut):
    """Top-level pieces (head values, conjuncts) of the single rule that differs."""
    diff = [i for i, (a, b) in enumerate(zip(base['rules'], mut['rules'])) if a != b]
    if len(diff) != 1:
        return None
    a, b = base['rules'][diff[0]], mut['rules'][diff[0]]
    pieces = []
    for (f1, h1), (f2, h2) in zip(a['head'], b['head']):
        if h1 != h2:
            pieces.append((h2, False))
    if a.get('value') != b.get('value') and b.get('value') is not None:
        pieces.append((b['value'], False))
    old = list(a['body'])
    for l in b['body']:
        if l in old:
            old.remove(l)
        else:
            pieces.append((l, True))
    return pieces


def reject_nontrivial(base, mut):
    pieces = changed_pieces(base, mut)
    if pieces is None:
        return True            # several rules changed together (retyped column)
    for piece, is_lit in pieces:
        if typeref.isolated_ground_clash(piece, is_lit):
            return False
    return True


# ----------------------------------------------------------------- shard

def case_json(prog, engine, assume=(), run_values=False, note=None):
    c = {'prog': model.prog_to_json({k: prog[k] for k in ('rules', 'inj', 'ann')
                                     if k in prog}),
         'engine': engine, 'assume': sorted(assume), 'run_values': bool(run_values)}
    if note:
        c['note'] = note
    return c


def record(col, prog, res, engine, kind, nontrivial, extra_labels=(), run_values=False):
    v = res['v']
    if res['status'] == 'skip':
        col.exclude('skip:' + v['why'] + (':' + '+'.join(v['excluded'])
                                          if v.get('excluded') else ''))
        return
    if res['status'] == 'inconclusive':
        col.inconc(res['bucket'])
        return
    labels = ['expect:' + v['expect'], 'engine:' + engine, 'kind:' + kind] + \
        list(res['labels']) + list(extra_labels)
    if v['expect'] == 'reject':
        labels.append('clash:' + v['cls'] + ':' + v['pair'])
    if res['status'] == 'ok':
        col.case((res['text'], engine), nontrivial, labels,
                 sample={'kind': kind, 'engine': engine, 'expected': v['expect'],
                         'program': res['text']})
    else:
        col.case((res['text'], engine), False, labels + ['failed'])
        col.fail(res['bucket'], case_json(prog, engine, run_values=run_values,
                                          note=kind), res['detail'])


def one_program(rng, col):
    prog = gen.gen_program(rng, **opts())
    for k, n in prog.get('excluded', {}).items():
        col.excluded['gen:' + k] += n
    try:
        ck0 = typeref.check(prog, strict=True)
    except typeref.Unsupported as e:
        col.inconc('reference_unsupported')
        return
    if not ck0.clashes:
        prog, auglabels = typemut.augment(prog, ck0, rng, allow_inx='neq' in INCLUDE)
    else:
        auglabels = []
    base = {'rules': prog['rules'], 'inj': prog.get('inj', {}), 'ann': []}
    v0 = verdict(base)
    if v0['expect'] == 'reject':
        raise RuntimeError('generator produced a program the reference checker rejects: '
                           '%r\n%s' % (v0['clash'], model.print_program(base)))
    # ---- accept side: generated order + permutations, three engines on the first order
    orders = [base] + [xform.permute(base, rng) for _ in range(N_ORDERS - 1)]
    for i, pr in enumerate(orders):
        vi = v0 if i == 0 else verdict(pr)
        nt = accept_nontrivial(pr, vi)
        cache = {} if i == 0 else None
        res = evaluate(pr, 'sqlite', run_values=(i == 0), v=vi, cache=cache)
        record(col, pr, res, 'sqlite', 'base', nt,
               ['order:%d' % i] + (auglabels if i == 0 else []) +
               ([] if vi.get('ground') else ['polymorphic_or_open']),
               run_values=(i == 0))
        if i == 0 and res['status'] == 'ok' and vi['expect'] == 'accept':
            for eng in ('psql', 'duckdb'):
                r2 = evaluate(pr, eng, v=vi, cache=cache)
                record(col, pr, r2, eng, 'base', nt)
    # ---- reject side
    if v0['expect'] != 'accept':
        # the corruptions are built on the reference typing of the base program
        if v0['why'] != 'known_class_only' or v0['excluded'] != ['sibling_locals']:
            return
    ck = v0.get('checker') or typeref.check(base, strict=True)
    cands = typemut.candidates(base, ck, include_neq='neq' in INCLUDE)
    by_kind = {}
    for kind, fn in cands:
        by_kind.setdefault(kind, []).append(fn)
    kinds = sorted(by_kind)
    if not kinds:
        return
    chosen = rng.sample(kinds, min(N_MUTANTS, len(kinds)))
    # the cross-rule / through-the-callee clash and the missing field of a closed record
    # (next to valid accesses; through a predicate handing the record on): always
    slot = len(chosen) - 1
    for must in MUST_KINDS:
        if must in kinds and must not in chosen and slot >= 0:
            while slot >= 0 and chosen[slot] in MUST_KINDS:
                slot -= 1
            if slot >= 0:
                chosen[slot] = must
                slot -= 1
    while len(chosen) < N_MUTANTS:
        chosen.append(rng.choice(kinds))
    for n, kind in enumerate(chosen):
        mut = rng.choice(by_kind[kind])(rng)
        if mut is None:
            continue
        vm = verdict(mut)
        if vm['expect'] == 'skip':
            col.exclude('mutant:%s:%s' % (vm['why'], '+'.join(vm['excluded']) or kind))
            continue
        nt = reject_nontrivial(base, mut) if vm['expect'] == 'reject' else \
            accept_nontrivial(mut, vm)
        morders = [mut] + [xform.permute(mut, rng) for _ in range(N_ORDERS - 1)]
        verdicts = [vm] + [verdict(pr) for pr in morders[1:]]
        if any(vi['expect'] != vm['expect'] for vi in verdicts):
            # the reference classification must not depend on the order; if it does
            # the variant is outside what the oracle can decide (counted, must be rare)
            col.exclude('mutant:reference_verdict_order_dependent:' + kind)
            continue
        outcomes = []
        for i, pr in enumerate(morders):
            vi = verdicts[i]
            cache = {} if i == 0 else None
            res = evaluate(pr, 'sqlite', v=vi, compile_sql=False, cache=cache)
            outcomes.append(res['status'])
            record(col, pr, res, 'sqlite', kind, nt, ['order:%d' % i])
            if i == 0:
                eng = ('psql', 'duckdb')[n % 2]
                r2 = evaluate(pr, eng, v=vi, cache=cache)
                record(col, pr, r2, eng, kind, nt)
        if len(set(outcomes)) > 1:
            col.label('verdict_depends_on_order')


def shard(ctx, col):
    drive.enable_library_cache()
    enable_rule_cache(RULE_CACHE)
    core.hyp_run(lambda rng: one_program(rng, col), common.strategy(), ctx.budget,
                 ctx.hyp_seed)


# ----------------------------------------------------------------- replay / minimise

def check_case(case):
    drive.enable_library_cache()
    prog = model.prog_from_json(case['prog'])
    res = evaluate(prog, case.get('engine', 'sqlite'), assume=case.get('assume', ()),
                   run_values=case.get('run_values', False))
    if res['status'] == 'fail':
        return [(res['bucket'], res['detail'])]
    return []


def minimise(case, bucket):
    try:
        return common.minimise_program(case, bucket, check_case)
    except Exception:
        return case


def known_match(entry, bucket):
    """Keys are bucket prefixes: 'clash_accepted:neq' covers every pair of types."""
    return bucket == entry['key'] or bucket.startswith(entry['key'] + ':')


def evidence_extra(col):
    lab = col.labels
    kinds = sorted(k[5:] for k in lab if k.startswith('kind:'))
    return {'corruption_kinds_exercised': kinds,
            'accepted_variants': lab.get('expect:accept', 0),
            'rejected_variants': lab.get('expect:reject', 0),
            'sqlite_runs': lab.get('ran', 0)}
