"""C09: every dialect compiles the core language into well-scoped SQL.

For a generated typed program and each of the eight engines the compilation of every
concrete predicate must end in SQL or in one of the four diagnostic exception types,
and the SQL (preamble, defines_and_exports, main_predicate_sql) must pass the
lexer/scoper of lv/sqlscope.py: literals/comments/brackets balance, every alias.column
has its alias introduced by an enclosing FROM, every unqualified FROM table is a WITH
table defined earlier IN THE SAME STATEMENT (every defines_and_exports statement - the
CREATE TABLE of a @Ground predicate - and the final query are scoped on their own), no
compiler placeholder leaks.  On SQLite the SQL is also executed (the scoper is
calibrated in both directions).

The programs carry drawn plan annotations (@Ground, @With, @NoWith, @NoInject) on their
concrete predicates, so multi-statement plans with nested WITH tables shared between
statements occur, and use aggregation (predicate level, aggregating expressions with and
without a body, inline `v Op= e`) and negation.
"""
import copy
import json
import os
import re
import sqlite3
import traceback

from lv import core, model, gen, drive, sqlscope
from lv.props import common

ID = 'C09'
BUDGET = {'quick': 160, 'thorough': 2500}        # generated programs (x 8 engines)
WALL = {'quick': 900, 'thorough': 3600}
ENGINES = list(sqlscope.ENGINES)
RULE = ('programs from the typed core-fragment generator (facts, joins, multi-rule and '
        '| predicates, named/positional arguments, arithmetic, ++, comparisons, boolean '
        'propositions, assignment, in, lists, records and field access, Size/Element, '
        'if-then-else, functional and injectible predicates incl. ones containing combines; '
        'predicate-level aggregation and distinct, aggregating literals in the four '
        'spellings, aggregating expressions `Op{e :- body}` and body-less `Op{e}` / inline '
        '`v Op= e` at any expression position, negation), with a drawn assignment of '
        '{none, @Ground, @With, @NoWith, @NoInject, @NoInject+@With, @NoInject+@NoWith} to '
        'the concrete predicates (multi-statement plans, WITH tables shared by statements), '
        'printed once per engine (the @Engine line is the only difference); every concrete '
        'predicate is compiled for each of the 8 engines.  One case = (program, engine); it is '
        'non-trivial when some predicate of it compiles to SQL that has >= 2 FROM '
        'aliases and >= 1 sub-query or WITH table; distinct by hash of (program text '
        'incl. engine line).  The per-engine split of sql / diagnostic / violation is '
        'in the labels (outcome:<engine>:...).')
ASSUMPTIONS = [
    'lv/sqlscope.py lexers follow the documented lexical rules of the eight engines; '
    'only SQLite can be executed here, it calibrates the scoper in both directions '
    '(labels calib:*)',
    'a FROM item may see every alias of its own FROM list (implicit lateral), which '
    'is what the statement says ("an alias introduced by an enclosing FROM")',
    'well-formedness of text inside $$...$$ blocks is not examined',
    'dialect-library parse memoised per process (filled by the real parser)',
]
AGG_N = ('Sum', 'Min', 'Max', 'Count', '+', 'List', 'Set', 'ArgMin', 'ArgMax')
OPTS = dict(p_colnames=0.0, p_composite_col=0.3, p_uminus=0.12, p_unnest_chain=0.15,
            p_neg=0.2, p_agg=0.25, p_distinct=0.35, p_sibling_reuse=0.3, p_sibling_reuse_neg=0.3,
            p_feed_sibling=0.2, nest_depth=1, agg_ops=AGG_N, pred_agg_ops_n=AGG_N,
            pred_agg_ops_s=('Min', 'Max', 'List', 'Set', 'Count', 'ArgMin', 'ArgMax'),
            p_aggx=0.06, p_aggx_nobody=0.5, p_agg_nobody=0.12,
            n_idb=(3, 4), p_call_idb=0.5, p_inj_combine=0.3, p_inj_extra=0.1,
            p_fcall_nest=0.2, p_reuse_pick=0.5)
# plan annotations drawn per concrete predicate (weights by repetition)
PLAN_CHOICES = ((), (), (), ('@Ground',), ('@Ground',), ('@With',), ('@NoWith',),
                ('@NoInject',), ('@NoInject', '@With'), ('@NoInject', '@NoWith'))
P_NO_PLAN = 0.15

# Finding D1 (Databricks.Subscript arity) was repaired in /repo (fix: commit f254f71);
# nothing is excluded any more.  VERIF_C09_EXCLUDE_D1=1 restores the old exclusion
# (keeps (predicate, databricks) pairs with a record field access away from the compiler).
EXCLUDE_D1 = bool(os.environ.get('VERIF_C09_EXCLUDE_D1'))
D1_BUCKET = ('internal:TypeError@compiler/expr_translate.py:Subscript:'
             'Databricks.Subscript() takes n positional arguments but n were given')

STRUCTURAL_SQLITE = ('no such column', 'no such table', 'near ', 'unrecognized token',
                     'incomplete input', 'ambiguous column', 'no such function',
                     'wrong number of arguments', 'no tables specified')


def draw_plan(prog, rng):
    """-> (program with the annotation lines added to prog['ann'], labels).
    Either independent draws per concrete predicate, or the 'materialise' template: one or
    two intensional predicates are @Ground (each becomes a CREATE TABLE statement of its
    own), the others stay WITH tables / sub-queries that several statements share."""
    r = rng.random()
    if r < P_NO_PLAN:
        return prog, ['plan:none']
    preds = list(prog['preds'])
    idb = [p for p in preds if p.startswith('I')]
    labels = []
    if r < 0.6 and idb:
        grounded = rng.sample(idb, min(len(idb), rng.choice((1, 1, 2))))
        asg = {}
        for p in preds:
            if p in grounded:
                asg[p] = ('@Ground',)
            elif p in idb:
                asg[p] = rng.choice(((), (), ('@With',), ('@NoInject',), ('@NoInject', '@With')))
            else:
                asg[p] = rng.choice(((), (), (), ('@With',), ('@NoInject',)))
        labels.append('plan:template_materialise')
    else:
        asg = {p: rng.choice(PLAN_CHOICES) for p in preds}
        labels.append('plan:independent')
    lines = ['%s(%s);' % (a, p) for p in sorted(asg) for a in asg[p]]
    p2 = dict(prog)
    p2['ann'] = list(prog.get('ann', [])) + lines
    labels += sorted(set('plan:' + a for v in asg.values() for a in v))
    return p2, labels


def engine_text(prog, engine):
    return model.print_program(prog, engine_line='@Engine("%s");' % engine)


def norm_msg(s):
    s = re.sub(r'\x1b\[[0-9;]*m', '', str(s)).strip().split('\n')[0]
    s = re.sub(r'"[^"]*"|\'[^\']*\'', 'Q', s)
    s = re.sub(r'\d+', 'n', s)
    return s[:90]


def uses_field_access(prog, pred):
    rules, _ = common.closure_rules(prog, pred)
    for r in rules:
        for e in common.rule_exprs(r):
            if e[0] == 'field':
                return True
    return False


def sql_parts(pr):
    x = pr.execution
    parts = [('preamble', x.preamble)]
    for i, s in enumerate(x.defines_and_exports):
        parts.append(('define%d' % i, s))
    parts.append(('main', x.main_predicate_sql))
    return parts


def planted(main_sql, sc, engine):
    """Scoper-negative mutants of one SQL text (deterministic choice of the place):
    -> list of (kind, mutated sql)."""
    out = []
    toks = sc.toks
    if sc.alias_ref_toks:
        t = toks[sc.alias_ref_toks[len(sc.alias_ref_toks) // 2]]
        out.append(('alias', main_sql[:t[2]] + 'zq_9' + main_sql[t[3]:]))
    if sc.table_ref_toks:
        t = toks[sc.table_ref_toks[len(sc.table_ref_toks) // 2]]
        out.append(('table', main_sql[:t[2]] + 'zq_tbl' + main_sql[t[3]:]))
    closers = [t for t in toks if t[0] == 'op' and t[1] == ')']
    if closers:
        t = closers[len(closers) // 2]
        out.append(('paren', main_sql[:t[2]] + main_sql[t[3]:]))
    strs = [t for t in toks if t[0] == 'str' and t[4] == "'"]
    if strs:
        t = strs[len(strs) // 2]
        out.append(('quote', main_sql[:t[3] - 1] + main_sql[t[3]:]))
    return out


def sqlite_try(pr, main_sql=None):
    """-> None if the statements run, else the sqlite error text."""
    ex = pr.execution
    con = drive.connect()
    try:
        cur = con.cursor()
        for s in [ex.preamble] + list(ex.defines_and_exports):
            cur.executescript(s)
        cur.execute(main_sql if main_sql is not None else ex.main_predicate_sql)
        cur.fetchall()
        return None
    except sqlite3.Error as e:
        return '%s: %s' % (type(e).__name__, e)
    except sqlite3.Warning as e:
        return '%s: %s' % (type(e).__name__, e)
    finally:
        con.close()


def classify_exc(e, hdr):
    """-> (outcome, failures, labels) for an exception that ended a compilation."""
    if isinstance(e, drive.DIAGNOSTICS):
        return 'diagnostic', [], ['diag:%s:%s' % (
            type(e).__name__, common.msg_class(common.first_line(e)))]
    tb = ''.join(traceback.format_exception(type(e), e, e.__traceback__))[-1800:]
    if isinstance(e, RecursionError):
        return 'internal', [('internal:RecursionError', tb + '\n' + hdr)], []
    b = 'internal:%s:%s' % (drive.exc_frame(e), norm_msg(e))
    return 'internal', [(b, 'compilation ended with an internal error, not a '
                            'diagnostic:\n%s\n%s' % (tb, hdr))], []


def external_tables(text):
    """Predicates a program mentions but does not define: the compiler takes them for
    tables that exist in the database (only minimised / hand-written cases have any)."""
    try:
        defined = {r['head']['predicate_name'] for r in drive.parse_rules(text)}
    except Exception:
        return ()
    bare = re.sub(r'"[^"\n]*"', '', text)
    return sorted(set(re.findall(r'\b[A-Z][A-Za-z0-9_]*\b', bare)) - defined)


def analyse(pr, engine, hdr, externals=()):
    """Scoper (+ SQLite calibration) on the SQL left in pr.execution."""
    res = {'outcome': 'sql', 'failures': [], 'labels': [], 'stats': None}
    tot = dict(from_aliases=0, subqueries=0, with_tables=0, selects=0, alias_refs=0)
    ok = True
    main_sc = None
    for name, part in sql_parts(pr):
        # every part is scoped on its own: a WITH table used by a statement has to be
        # defined in that statement
        sc = sqlscope.check(part, engine, externals)
        for k in tot:
            tot[k] += sc.stats.get(k, 0)
        if name.startswith('define') and sc.stats.get('selects'):
            tot['statements'] = tot.get('statements', 1) + 1
            if sc.stats.get('with_tables'):
                tot['define_with'] = tot.get('define_with', 0) + 1
        if name == 'main':
            main_sc = sc
        seen = set()
        for p in sc.problems:
            ok = False
            if p.kind in seen:
                continue
            seen.add(p.kind)
            res['failures'].append(('scope:' + p.kind, '%s in %s:\n%s\n--- SQL (%s)\n%s\n%s'
                                    % (p.kind, name, p.text, name, part[:3000], hdr)))
    res['stats'] = tot
    if engine == 'sqlite':
        err = None
        try:
            err = sqlite_try(pr)
        except drive.Interrupted:
            err = 'interrupted'
        if err and 'interrupted' in err:
            res['labels'].append('calib:sqlite_budget')
        elif err is None:
            res['labels'].append('calib:scoper_ok_sqlite_ok' if ok
                                 else 'calib:scoper_rejects_sqlite_ok')
        elif any(('no such table: %s' % x) in err for x in externals):
            res['labels'].append('calib:external_table_absent')
        elif any(m in err for m in STRUCTURAL_SQLITE):
            if ok:
                res['failures'].append((
                    'calib:sqlite_rejects_scoper_accepts:' + norm_msg(err),
                    'SQLite rejects SQL that passed the scoper: %s\n--- SQL\n%s\n%s' % (
                        err, pr.execution.main_predicate_sql[:3000], hdr)))
            else:
                res['labels'].append('calib:both_reject')
        else:
            res['labels'].append('calib:sqlite_runtime_error')
        if ok and err is None and main_sc is not None:
            main = pr.execution.main_predicate_sql
            for kind, msql in planted(main, main_sc, engine):
                sc2 = sqlscope.check(msql, engine)
                err2 = sqlite_try(pr, msql)
                if not sc2.problems:
                    # our own oracle missed a defect we planted: harness error
                    raise AssertionError('scoper missed planted %s defect:\n%s' % (
                        kind, msql))
                res['labels'].append('calib:planted_%s:%s' % (
                    kind, 'both_reject' if err2 else 'sqlite_accepts'))
    return res


def check_one(prog, pred, engine, text=None):
    """Fresh compilation of one predicate, the path of `logica.py <file> print <pred>`.
    -> dict(outcome, failures [(bucket, detail)], labels, stats)."""
    text = text or engine_text(prog, engine)
    hdr = '--- engine %s predicate %s\n%s' % (engine, pred, text)
    try:
        pr, sql = drive.compile_program(text, pred)
    except Exception as e:
        o, f, l = classify_exc(e, hdr)
        return {'outcome': o, 'failures': f, 'labels': l, 'stats': None}
    return analyse(pr, engine, hdr, external_tables(text))


class Shared(object):
    """One parse and one LogicaProgram per (program, engine), as `logica.py <file>
    print p1,p2,...` does; anything that fails here is re-examined by check_one()."""

    def __init__(self):
        self.engine_rule = {}
        self.verified = False

    def rules_for(self, prog, engine):
        base_text = engine_text(prog, ENGINES[0])
        if getattr(self, '_base_text', None) != base_text:
            self._base_text = base_text
            self._base = drive.parse_rules(base_text)
        if engine == ENGINES[0]:
            return copy.deepcopy(self._base)
        if engine not in self.engine_rule:
            self.engine_rule[engine] = drive.parse_rules('@Engine("%s");\n' % engine)
        rules = copy.deepcopy(self.engine_rule[engine]) + copy.deepcopy(self._base[1:])
        if not self.verified:
            # the splice must be what the parser gives for the whole text
            full = drive.parse_rules(engine_text(prog, engine))
            strip = lambda rs: json.dumps(rs, sort_keys=True, default=str)
            if strip(full) != strip(rules):
                raise AssertionError('spliced parse differs from the real parse')
            if engine == ENGINES[-1]:
                self.verified = True
        return rules

    def compile_all(self, prog, engine, preds):
        """-> {pred: result dict}"""
        out = {}
        text = engine_text(prog, engine)
        try:
            rules = self.rules_for(prog, engine)
            with drive.quiet():
                lp = drive.universe.LogicaProgram(rules, user_flags={})
        except AssertionError:
            raise
        except Exception:
            for p in preds:
                out[p] = check_one(prog, p, engine, text)
            return out
        for p in preds:
            hdr = '--- engine %s predicate %s\n%s' % (engine, p, text)
            try:
                with drive.quiet():
                    lp.FormattedPredicateSql(p)
            except Exception as e:
                o, f, l = classify_exc(e, hdr)
                r = {'outcome': o, 'failures': f, 'labels': l, 'stats': None}
            else:
                r = analyse(lp, engine, hdr)
            if r['failures']:
                fresh = check_one(prog, p, engine, text)
                if not fresh['failures']:
                    fresh['labels'].append('failure_only_with_shared_program')
                r = fresh
            out[p] = r
        return out


def nontrivial(stats):
    return bool(stats) and stats['from_aliases'] >= 2 and \
        (stats['subqueries'] + stats['with_tables']) >= 1


def shard(ctx, col):
    drive.enable_library_cache()
    shared = Shared()

    def one(rng):
        prog = gen.gen_program(rng, **OPTS)
        for k, v in prog.get('excluded', {}).items():
            col.excluded[k] += v
        prog, plan_labels = draw_plan(prog, rng)
        fa = {p: uses_field_access(prog, p) for p in prog['preds']}
        for engine in ENGINES:
            text = engine_text(prog, engine)
            nt = False
            labels = set(plan_labels)
            sample = None
            todo = []
            for p in prog['preds']:
                if fa[p]:
                    labels.add('feat:record_field_access')
                if EXCLUDE_D1 and engine == 'databricks' and fa[p]:
                    col.exclude('D1_databricks_record_field_access')
                    continue
                todo.append(p)
            results = shared.compile_all(prog, engine, todo)
            for p in todo:
                r = results[p]
                col.label('outcome:%s:%s' % (engine, 'violation' if r['failures']
                                             else r['outcome']))
                for l in r['labels']:
                    if l.startswith('diag:'):
                        col.label('%s:%s' % (l, engine))
                    else:
                        col.label(l)
                if r['outcome'] == 'sql' and nontrivial(r['stats']):
                    nt = True
                    if sample is None:
                        sample = {'engine': engine, 'predicate': p, 'program': text,
                                  'sql_stats': r['stats']}
                if r['stats']:
                    if r['stats']['with_tables']:
                        labels.add('sql:with_table')
                    if r['stats']['subqueries']:
                        labels.add('sql:subquery')
                    if r['stats'].get('statements'):
                        labels.add('sql:multi_statement')
                    if r['stats'].get('define_with'):
                        labels.add('sql:with_table_in_create_statement')
                for b, d in r['failures']:
                    col.fail(b, {'prog': model.prog_to_json(prog), 'pred': p,
                                 'engine': engine}, d)
            for f in prog.get('labels', []):
                labels.add('gen:' + f)
            col.case(text, nt, sorted(labels), sample=sample)
    core.hyp_run(one, common.strategy(), ctx.budget, ctx.hyp_seed)


def check_case(case):
    """case: {'prog': <model json>, 'pred', 'engine'} or {'text', 'pred', 'engine'}."""
    drive.enable_library_cache()
    if 'text' in case:
        r = check_one(None, case['pred'], case['engine'], text=case['text'])
    else:
        prog = model.prog_from_json(case['prog'])
        r = check_one(prog, case['pred'], case['engine'])
    return list(r['failures'])


def minimise(case, bucket):
    if 'prog' not in case:
        return case
    return common.minimise_program(case, bucket, check_case)


def evidence_extra(col):
    """Per-engine split of compilation outcomes and the SQLite calibration table."""
    per = {}
    calib = {}
    for l, n in col.labels.items():
        if l.startswith('outcome:'):
            _, eng, what = l.split(':', 2)
            per.setdefault(eng, {'sql': 0, 'diagnostic': 0, 'violation': 0,
                                 'internal': 0})[what] = n
        elif l.startswith('calib:'):
            calib[l[6:]] = n
    return {'per_engine_outcomes': per, 'sqlite_calibration': calib}
