"""C11: documented shorthand forms mean the same as their long forms."""
from lv import core, model, gen, drive, xform, ref
from lv.props import common

ID = 'C11'
BUDGET = {'quick': 400, 'thorough': 9000}
RULE = ('programs from the typed generator (core + aggregation + negation + implication '
        'profile) are printed twice from one AST, the second print differing in exactly '
        'one sugar class (S1 positional/colN, S2 `a:`/`a: a`, S3 F(x)=v / logica_value '
        'field and functional call / extra conjunct, S4 =/==, S5 ~P / Max{1:-P} is null, '
        'S6 A=>B / ~(A,~B), S7 the combine spellings, S8 in-list / alternatives, S9 '
        'rules / `|`, S10 P(k) Op= e / logica_value? Op= e distinct) at one drawn '
        'occurrence or at all occurrences; every intensional predicate of the variant is '
        'compiled, run on SQLite and compared with the reference value of the original '
        '(which the original text is also checked against). Non-trivial = texts differ '
        'and the result is non-empty; distinct by (variant text, predicate).')
ASSUMPTIONS = ['reference evaluator lv/ref.py arbitrates', 'CPython sqlite3']
OPTS = dict(p_colnames=0.15, p_head_perm=0.25, p_in_lit_left=0.15, p_neg=0.25, p_agg=0.3, p_distinct=0.35, p_impl=0.15,
            p_null_fact=0.0, p_or=0.3, p_fcall=0.12, p_short=0.6, p_value=0.45,
            agg_ops=('Sum', 'Min', 'Max', '+'),
            n_idb=(2, 3), nest_depth=2)
VARIANTS_PER_PROGRAM = 4


def variants(prog, rng, k):
    """Draw up to k (class, mode) variants that really change the text."""
    classes = [c for c in sorted(xform.SUGAR) if xform.count_sites(prog, c) > 0]
    out = []
    if not classes:
        return out
    # rare classes first so that every class is exercised in every run
    rng.shuffle(classes)
    for cls in classes[:k]:
        n = xform.count_sites(prog, cls)
        target = None if rng.random() < 0.4 else rng.randint(0, n - 1)
        p2, site = xform.SUGAR[cls](prog, target)
        out.append((cls, target, p2))
    return out


def check_variant(prog, cls, target, text0=None):
    """-> list of (status, bucket, detail, pred, labels)."""
    res = []
    p2, site = xform.SUGAR[cls](prog, target)
    text0 = text0 or model.print_program(prog)
    text2 = model.print_program(p2)
    if text2 == text0:
        return [('skip', 'no_text_change', '', None, [])]
    try:
        rules0 = drive.parse_rules(text0)
    except Exception:
        rules0 = None
    try:
        rules2 = drive.parse_rules(text2)
    except Exception:
        rules2 = None
    for pred in [p for p in prog['preds'] if p.startswith('I')]:
        st, cols, exp, info = common.reference(prog, pred)
        if st != 'ok':
            res.append(('inconclusive', st, '', pred, []))
            continue
        if cls in ('S3c_fcall_conjunct', 'S8_in_alternatives', 'S9_rules_vs_or'):
            # the AST changed: our own evaluator must agree with itself, otherwise the
            # transformation (not the compiler) is wrong -> harness error
            st2, cols2, exp2, _ = common.reference(p2, pred)
            if st2 == 'ok':
                from lv import canon
                if sorted(map(repr, exp)) != sorted(map(repr, exp2)):
                    raise AssertionError('transformation %s changed the reference value\n%s\n%s'
                                         % (cls, text0, text2))
        st0, b0, d0 = common.compiled_vs(cols, exp, text0, pred, rules0, quirk_prog=prog)
        labels = ['class:' + cls, 'mode:' + ('all' if target is None else 'one')]
        if st0 != 'ok':
            # the original form itself disagrees with the reference.  If the other
            # spelling agrees with it, the two spellings differ: that is C11's business.
            # If both disagree (or the deviation is a recorded engine quirk) it is
            # C01/C02's.
            if st0 == 'fail' and ':quirk:' not in (b0 or '') and \
                    not (b0 or '').startswith('rejected_valid'):   # a refusal is C01's (D11)
                st2, b2, d2 = common.compiled_vs(cols, exp, text2, pred, rules2,
                                                 quirk_prog=prog, cols_any_order=True)
                if st2 == 'ok':
                    res.append(('fail', cls + ':original_differs:' + b0,
                                'variant form (agrees with reference):\n%s\noriginal: %s'
                                % (text2, d0), pred, labels))
                    continue
            res.append(('inconclusive', 'base_' + (b0 or st0).split(':')[0], '', pred, []))
            continue
        st2, b2, d2 = common.compiled_vs(cols, exp, text2, pred, rules2, quirk_prog=prog,
                                             cols_any_order=True)
        if st2 == 'ok':
            res.append(('ok', None, '', pred, labels + (['nonempty'] if exp else ['empty'])))
        elif st2 == 'inconclusive':
            res.append(('inconclusive', b2, '', pred, labels))
        else:
            res.append(('fail', cls + ':' + b2,
                        'original form (agrees with reference):\n%s\nvariant: %s' % (text0, d2),
                        pred, labels))
    return res


def shard(ctx, col):
    drive.enable_library_cache()

    def one(rng):
        prog = gen.gen_program(rng, **OPTS)
        text0 = model.print_program(prog)
        for cls, target, p2 in variants(prog, rng, VARIANTS_PER_PROGRAM):
            for st, bucket, detail, pred, labels in check_variant(prog, cls, target, text0):
                if st == 'skip':
                    col.label('skip:' + bucket)
                    continue
                if st == 'inconclusive':
                    col.inconc(bucket)
                    continue
                text2 = model.print_program(p2)
                if st == 'ok':
                    col.case((text2, pred), 'nonempty' in labels, labels,
                             sample={'class': cls, 'predicate': pred,
                                     'original': text0, 'variant': text2})
                else:
                    col.case((text2, pred), False, labels + ['failed'])
                    col.fail(bucket, {'prog': model.prog_to_json(prog), 'cls': cls,
                                      'target': target, 'pred': pred}, detail)
    core.hyp_run(one, common.strategy(), ctx.budget, ctx.hyp_seed)


def check_case(case):
    drive.enable_library_cache()
    prog = model.prog_from_json(case['prog'])
    prog['preds'] = [case['pred']]
    out = []
    for st, bucket, detail, pred, labels in check_variant(prog, case['cls'], case['target']):
        if st == 'fail':
            out.append((bucket, detail))
    return out


def minimise(case, bucket):
    def cc(c):
        try:
            return check_case(c)
        except AssertionError:
            return []
    c2 = common.minimise_program(case, bucket, cc)
    return c2
