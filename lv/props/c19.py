"""C19: invalid programs are rejected with a diagnostic, never compiled to SQL.

valid generated program  x  fixed catalogue of corruption operators K1..K10, each built so
that the result is invalid by the generator's own bookkeeping:

  K1  a variable fresh in the whole rule (all nested scopes) put into the head
  K2  ... into a non-equality comparison (rule level, one `|` branch, a live combine)
  K3  ... into a comparison inside a rule-level negation (existing or synthesised)
  K4  `distinct` removed from a rule with an aggregated head field / a head field turned
      into an aggregated one in a rule without `distinct`
  K5  `distinct` added to / removed from exactly one of several rules of a predicate
  K6  every rule of a recursive component that does not call the component deleted
  K7  a functor application `G := F(A: B)` given an argument name outside F's
      dependency closure (replacing A, or in addition to it)
  K8  one of the seven annotations CheckAnnotatedObjects covers applied to an undefined
      predicate
  K9  one bracket outside string literals deleted or inserted
  K10 the closing quote of a string literal deleted

Variables are local to a rule: "fresh" means fresh in the corrupted rule.  For body
corruptions compiled through a direct caller the fresh name is, more often than not, the
name of a variable BOUND IN THE CALLING RULE (an injected callee is merged into its caller,
its unbound variable must not be captured by the caller's like-named one).
"""
import contextlib
import io
import os
import re
import traceback

from lv import core, model, gen, drive, recgen
from lv.props import common

ID = 'C19'
BUDGET = {'quick': 1100, 'thorough': 12000}        # base programs; <= 6 corruptions each
WALL = {'quick': 3000, 'thorough': 14400}      # backstop only (shared machine)
RULE = ('valid base programs from five profiles (core and aggregation profile of the typed '
        'generator lv/gen.py; `inject`: chains of single-rule predicates that the compiler '
        'injects into their callers; recursive programs of lv/recgen.py, half of them with '
        'an observer predicate outside the component that reads a member under a negation '
        '/ next to another rule / as its only rule; core programs extended with a functor '
        'application G := F(A: B) over a fresh argument table) x the fixed '
        'catalogue K1..K10 of single-point corruptions (variable fresh in the rule put into '
        'head / comparison / negation - for body corruptions of a predicate with a direct '
        'caller mostly a name that is BOUND IN THE CALLING RULE, compiled through that '
        'caller; aggregation without distinct, inconsistent distinct, '
        'recursive component without base rules - compiled for a member or for the '
        'observer, with plain names or names containing `_`; functor argument outside the '
        'dependency closure; annotation of an undefined predicate - fresh names and typos '
        'of defined names, with and without `_`; one bracket deleted or inserted, '
        'closing quote deleted); per program up to 6 applicable operators (the profile-'
        'specific K6 / K7 always) are applied once each at a Hypothesis-drawn site, and the '
        'predicate that contains the corruption (or, for body corruptions, a direct caller; '
        'or the functor-made copy) is compiled with ParseFile -> LogicaProgram -> '
        'FormattedPredicateSql. Pass = one of the four diagnostic exception types whose '
        'message or context (rule_str, location, functor_name) names the offending variable '
        'or predicate or contains the offending rule text, ShowMessage() works, no SQL. '
        'Non-trivial = the uncorrupted base compiles and runs on SQLite for the same '
        'target; distinct by (base text, operator, site parameters).')
ASSUMPTIONS = ['invalidity is established by our own bookkeeping over the lv.model AST '
               '(variable freshness over all nested scopes, dependency closure, SCCs), not '
               'by the compiler',
               'identification is the disjunction the statement gives (rule, variable or '
               'predicate); the exact wording of messages is not checked',
               'a corrupted head field is compiled through the corrupted predicate itself or its '
               'functor-made copy, not through a caller: a head variable of a single-rule '
               'predicate is a parameter that the calling rule may bind or ignore (the idiom '
               'of function-like predicates, `P(a, b) :- R(a)` called as P(x, 3) or P(x) is '
               'legal), so the rule is invalid as a table, not as a callee; a fresh '
               'variable is put into a combine only if the value of the combine provably '
               'reaches the SQL (an assignment to a variable used nowhere is dropped by the '
               'compiler together with its right-hand side; not claimed either way)',
               'K6: when the only rule of the observer reads the emptied component the observer '
               'is itself "proven to be empty"; the compiler names an arbitrary one of the '
               'empty predicates (set order), naming the observer is accepted',
               'dialect-library parse memoised per process (filled by the real parser)']

OPS = ('K1', 'K2', 'K3', 'K4', 'K5', 'K6', 'K7', 'K8', 'K9', 'K10')
ANNOTATIONS = ('@OrderBy', '@Limit', '@NoInject', '@With', '@NoWith', '@CompileAsTvf',
               '@CompileAsUdf')
CMP_OPS = ('<', '<=', '>', '>=', '!=')
OPEN, CLOSE = '([{', ')]}'

# program sizes are kept small: the Python parser is quadratic in the statement length and
# every evaluation re-parses the whole corrupted text
CORE = dict(p_colnames=0.0, p_two_rules=0.5, p_named=0.4, n_idb=(1, 2), p_if=0.06, p_or=0.2,
            max_rows=4)
AGG = dict(p_colnames=0.0, p_neg=0.3, p_agg=0.4, p_distinct=0.6, p_sibling_reuse=0.4,
           p_feed_sibling=0.4, p_multi_combine=0.1, p_or=0.12, p_fcall=0.05, p_if=0.06,
           p_named=0.7, p_two_rules=0.45, n_idb=(1, 2), nest_depth=1, max_rows=4,
           agg_ops=('Sum', 'Min', 'Max', 'Count', '+', 'List'),
           pred_agg_ops_n=('Sum', 'Min', 'Max', 'Count', '+', 'List', 'ArgMax'),
           pred_agg_ops_s=('Min', 'Max', 'List', 'Count'))
FUN = dict(p_colnames=0.0, p_two_rules=0.4, p_named=0.3, n_idb=(2, 2), n_inj=(0, 1),
           p_neg=0.1, p_agg=0.1, p_if=0.06, p_or=0.15, max_rows=3)
# `inject`: chains of single-rule predicates calling each other (injected into their callers)
INJ = dict(p_colnames=0.0, p_two_rules=0.12, p_named=0.4, n_idb=(2, 3), p_if=0.06, p_or=0.15,
           p_neg=0.2, p_call_idb=0.8, max_rows=4)
OPS_PER_PROGRAM = 6
PROFILES = ('core', 'agg', 'agg', 'rec', 'rec', 'functor', 'inject', 'inject')
P_CAPTURE = 0.65          # share of caller-capturable sites given a caller's variable name
P_OBSERVER = 0.5          # recursive programs extended with a predicate reading a member


def _finding_open(key, env):
    """Exclusion of a known-finding class: on unless known_findings.json lists the key as
    `fixed` (then its repro is a regression case); env var =0 / =1 forces off / on."""
    v = os.environ.get(env, '')
    if v != '':
        return v != '0'
    try:
        return not any(e.get('key') == key and e.get('status') == 'fixed'
                       for e in core.load_known(ID))
    except Exception:       # pylint: disable=broad-exception-caught
        return True


# N1: functors.RemoveRulesProvenToBeNil raises "proven to be empty" only for names without
# '_': a user predicate `My_Rec(x) :- My_Rec(x)` read under a negation / next to another
# rule is silently replaced by `nil` and SQL is produced.  While open: no underscore names
# for a component compiled through such a reader.
N1_BUCKET = 'accepted_invalid:K6:underscore_named_component_observed'
EXCLUDE_N1 = _finding_open(N1_BUCKET, 'VERIF_C19_EXCLUDE_N1')
# N2: an equality whose two sides are variables nothing binds (`y == z`, `y == z + 1`) is
# dropped by ElliminateInternalVariables without a diagnostic.
N2_BUCKET = 'accepted_invalid:K2:eq_free'
EXCLUDE_N2 = _finding_open(N2_BUCKET, 'VERIF_C19_EXCLUDE_N2')


# ------------------------------------------------------------------ base programs

def injectable_callees(prog):
    """Predicates the compiler injects into their callers (exactly one rule, with a body,
    not distinct / aggregating) that have a direct caller."""
    by = {}
    for r in prog['rules']:
        by.setdefault(r['pred'], []).append(r)
    out = []
    for pred, rs in by.items():
        r = rs[0]
        if len(rs) == 1 and r['body'] and not r.get('distinct') and keyword_distinct(r) and \
                not any(h[0] == 'AGG' for _, h in r['head']) and direct_callers(prog, pred):
            out.append(pred)
    return out


def add_observer(rng, prog):
    """Recursive program + a predicate `Ob` outside the component that reads one member:
    under a negation, next to another rule, or as its only rule."""
    m = rng.choice(list(prog['names']))
    fields, _ = fields_of(prog, m)
    if not fields or prog['depth'] > 20 or prog.get('explicit_iter'):
        return
    args = tuple((f, ('var', v)) for f, v in zip(fields, ('x', 'y', 'z')))
    call = ('call', m, args, ())
    src = ('call', 'V', ((0, ('var', 'x')),), ())
    how = rng.choice(['neg', 'neg', 'two_rules', 'two_rules', 'only_rule'])
    head = ((0, ('var', 'x')),)
    if how == 'neg':
        rules = [model.mk_rule('Ob', head, (src, ('neg', (call,), 0)))]
    elif how == 'two_rules':
        rules = [model.mk_rule('Ob', head, (src,)), model.mk_rule('Ob', head, (call,))]
        rng.shuffle(rules)
    else:
        rules = [model.mk_rule('Ob', head, (call,))]
    at = rng.randint(0, len(prog['rules']))
    prog['rules'] = list(prog['rules'][:at]) + rules + list(prog['rules'][at:])
    prog['observer'] = [m, how]
    prog['labels'] = sorted(set(prog['labels']) | {'observer:' + how})


def gen_base(rng, tier='quick'):
    profile = rng.choice(PROFILES)
    if profile == 'core':
        prog = gen.gen_program(rng, **CORE)
    elif profile == 'agg':
        prog = gen.gen_program(rng, **AGG)
    elif profile == 'inject':
        prog = gen.gen_program(rng, **INJ)
    elif profile == 'rec':
        deep = rng.random() < (0.05 if tier == 'quick' else 0.15)
        # (kinds: without the two C03-specific shapes - a rule that reaches its component
        # only under a negation is itself a base case, and a member whose only live rule
        # needs the other member is dead code at small depths: K6 / K3 bookkeeping assumes
        # neither)
        prog = recgen.gen_rec(rng, allow_deep=deep, deep_only=deep, kinds=recgen.KINDS_BASIC)
        if rng.random() < P_OBSERVER:
            add_observer(rng, prog)
    else:
        prog = gen_functor(rng)
    prog['profile'] = profile
    if profile == 'rec':
        cands = list(prog['names'])
    else:
        cands = [p for p in prog['preds'] if p.startswith('I')]
        if prog.get('make') and rng.random() < 0.6:
            cands = [prog['make'][0][1]]
        inj = sorted(injectable_callees(prog))
        if inj and (profile == 'inject' or rng.random() < 0.5):
            cands = inj
    prog['focus'] = rng.choice(cands) if cands else None
    return prog


def fields_of(prog, pred):
    """Head fields (without the value) of a predicate, from its first rule."""
    for r in prog['rules']:
        if r['pred'] == pred:
            return [f for f, _ in r['head']], r.get('value') is not None
    return None, False


def gen_functor(rng):
    """Core program + `G0 := F(A: B0)`: A a concrete predicate in F's dependency closure,
    B0 a fresh table of A's signature."""
    for _ in range(6):
        prog = gen.gen_program(rng, **FUN)
        idbs = [p for p in prog['preds'] if p.startswith('I')]
        rng.shuffle(idbs)
        for f in idbs:
            _, seen = common.closure_rules(prog, f)
            args = sorted(a for a in seen if a != f and a in prog['sig'])
            if args:
                break
        else:
            continue
        a = rng.choice(args)
        s = prog['sig'][a]
        types = [t for _, t in s['fields']] + ([s['value']] if s['value'] else [])
        g = gen.Gen(rng)
        for _ in range(rng.randint(1, 3)):
            row = [g.lit_of(t) for t in types]
            head = tuple((fl[0], v) for fl, v in zip(s['fields'], row))
            prog['rules'].append(model.mk_rule('B0', head, (),
                                               value=row[-1] if s['value'] else None))
        prog['sig']['B0'] = s
        prog['make'] = [['G0', f, [[a, ['pred', 'B0']]]]]
        prog['labels'] = sorted(set(prog['labels']) | {'functor_application'})
        return prog
    prog['make'] = []
    return prog


def print_make(mk):
    return '%s := %s(%s);' % (mk[0], mk[1], ', '.join('%s: %s' % (a, v[1]) for a, v in mk[2]))


def render(prog, extra=None):
    """-> list of (statement id, line).  extra = (position, line) of an inserted statement."""
    out = [(['engine', 0], '@Engine("sqlite");')]
    for i, a in enumerate(prog.get('ann', [])):
        out.append((['ann', i], a))
    for name, d in prog.get('inj', {}).items():
        out.append((['inj', name], model.print_inj(name, d)))
    for i, r in enumerate(prog['rules']):
        out.append((['rule', i], model.print_rule(r)))
    for i, mk in enumerate(prog.get('make') or ()):
        out.append((['make', i], print_make(mk)))
    if extra is not None:
        pos, line = extra
        out.insert(1 + pos % len(out), (['extra', 0], line))
    return out


def text_of(lines):
    return '\n'.join(l for _, l in lines) + '\n'


def is_iterative(prog, pred):
    if prog.get('profile') != 'rec' or not prog.get('ann_pred'):
        return False
    comps, dd = recgen.components(prog)
    comp = next((c for c in comps if prog['ann_pred'] in c), None)
    if comp is None or pred not in comp:      # recgen: only members depend on members
        return False
    return prog['depth'] > 20 or bool(prog.get('explicit_iter'))


def run_base(prog, text, pred, rules=None, rename=None):
    """-> 'ok' | 'rejected:<..>' | 'internal:<..>' | 'sqlite_budget' | 'sqlite_error'
    rename: {name: new name} applied to the text (pred is given in new names)."""
    orig = pred
    if rename:
        text, rules = rename_text(text, rename), None
        orig = {b: a for a, b in rename.items()}.get(pred, pred)
    try:
        if is_iterative(prog, orig):
            drive.run_concertina(text, [pred], max_calls=4000)
        else:
            drive.run(text, pred, rules=rules)
    except drive.Interrupted:
        return 'sqlite_budget'
    except drive.DIAGNOSTICS as e:
        return 'rejected:' + type(e).__name__
    except Exception as e:
        if type(e).__module__.startswith('sqlite3'):
            return 'sqlite_error'
        return 'internal:' + drive.exc_frame(e)
    return 'ok'


# ------------------------------------------------------------------ bookkeeping

class OutOfDomain(Exception):
    """A stored case whose site the catalogue does not (any longer) contain."""


def fresh_var(rng, rule, prog, avoid=()):
    used = model.rule_all_vars(rule) | set(avoid)
    # a name used as a local of an injectible callee is still fresh in this rule
    callee = set()
    for d in prog.get('inj', {}).values():
        callee |= set(d[1])
        if d[0] == 'rel':
            callee |= model.body_vars(d[2])
        else:
            callee |= model.expr_vars(d[2])
    cands = [v for v in gen.VARNAMES if v not in used]
    pref = [v for v in cands if v in callee]
    if pref and rng.random() < 0.3:
        return rng.choice(pref), True
    if cands:
        return rng.choice(cands), False
    n = 0
    while 'qq%d' % n in used:
        n += 1
    return 'qq%d' % n, False


def capture_names(prog, i):
    """{direct caller: [variables of a calling rule's own level that do not occur in rule
    i]}.  Such a name is as fresh in rule i as any other (variables are local to a rule),
    and it is bound in the rule the callee is merged into when it is injected."""
    r = prog['rules'][i]
    used = model.rule_all_vars(r)
    out = {}
    for c in direct_callers(prog, r['pred']):
        names = set()
        for cr in prog['rules']:
            if cr['pred'] == c and r['pred'] in own_calls(cr['body']):
                names |= model.own_vars(cr['body'])
        names = sorted(v for v in names - used if re.match(r'^[a-z][a-z0-9]*$', v))
        if names:
            out[c] = names
    return out


def maybe_capture(rng, prog, i, p):
    """With probability P_CAPTURE rename the fresh variable of a K2/K3 site to a variable
    of a calling rule and compile through that caller."""
    cap = capture_names(prog, i)
    if cap and rng.random() < P_CAPTURE:
        c = rng.choice(sorted(cap))
        p['var'] = rng.choice(cap[c])
        p['callee_name'] = False
        p['via'] = c
    return p['var']


def with_rule(prog, i, r2):
    p2 = dict(prog)
    p2['rules'] = list(prog['rules'])
    p2['rules'][i] = r2
    return p2


def rule_indices(prog, with_body=None):
    out = []
    dead_risk = _rules_calling_own_component(prog) if with_body else ()
    for i, r in enumerate(prog['rules']):
        if with_body is None or bool(r['body']) == with_body:
            if i in dead_risk:
                continue
            out.append(i)
    return out


def _rules_calling_own_component(prog):
    """Rule-level corruption sites (K1-K3) of recursive programs keep to rules that do not
    call their own recursive component: with a small @Recursive depth a rule that needs
    another member is provably empty in every unfolded generation, the compiler prunes it
    before looking at it, and nothing is (or need be) reported - the corruption would sit in
    dead code (seen at the thorough tier: @Recursive(Rc, 1) with Rc :- ..., Ra(x), Rb(x))."""
    if prog.get('profile') != 'rec':
        return ()
    comps, dd = recgen.components(prog)
    out = set()
    for i, r in enumerate(prog['rules']):
        comp = next((c for c in comps if r['pred'] in c), None)
        if comp is not None and (common.deps_of_rule(r) & set(comp)):
            out.add(i)
    return out


def pick_rule(rng, prog, cands):
    """Most rule-level sites of one program sit in one Hypothesis-drawn `focus`
    predicate, so that few distinct targets need a base run."""
    foc = [i for i in cands if prog['rules'][i]['pred'] == prog.get('focus')]
    if foc and rng.random() < 0.8:
        return rng.choice(foc)
    return rng.choice(cands)


def preds_in_order(prog):
    out = []
    for r in prog['rules']:
        if r['pred'] not in out:
            out.append(r['pred'])
    return out


def own_calls(body):
    """Predicates called positively at the own level of a body (through `|` groups)."""
    out = set()
    for l in body:
        if l[0] == 'call':
            out.add(l[1])
        elif l[0] == 'or':
            for b in l[1]:
                out |= own_calls(b)
    return out


def direct_callers(prog, pred):
    """Concrete predicates with an own-level positive call of `pred` in some rule and not
    mutually recursive with it: their SQL cannot be produced without compiling `pred`.
    (Inside a recursive component the bounded unfolding legitimately prunes rules: with
    @Recursive(Ra, 1) the SQL of Rb needs no rule of Ra.)"""
    comps, _ = recgen.components(prog)
    same = set()
    for c in comps:
        if pred in c:
            same |= c
    out = []
    for r in prog['rules']:
        if r['pred'] != pred and r['pred'] not in out and r['pred'] not in same and \
                pred in own_calls(r['body']):
            out.append(r['pred'])
    return out


def uses_outside_injectible(e, v, inj):
    """v occurs in expression e somewhere that is not an argument of a call to an
    injectible function (whose body may ignore its parameter)."""
    k = e[0]
    if k == 'var':
        return e[1] == v
    if k == 'lit' or k == 'aggx' or (k == 'fcall' and e[1] in inj):
        return False
    if k in ('bin', 'cmp'):
        subs = [e[2], e[3]]
    elif k in ('not', 'size', 'field'):
        subs = [e[1]]
    elif k == 'if':
        subs = [e[1], e[2], e[3]]
    elif k == 'list':
        subs = list(e[1])
    elif k == 'rec':
        subs = [x for _, x in e[1]]
    elif k in ('elem', 'inx', 'arrow'):
        subs = [e[1], e[2]]
    elif k == 'fcall':
        subs = [x for _, x in e[2]]
    else:
        return False
    return any(uses_outside_injectible(x, v, inj) for x in subs)


def var_is_live(rule, body_without, v, inj=()):
    """The value of v certainly reaches the SQL: v is used by the head, by a rule-level
    comparison or by an argument of a rule-level call of a concrete predicate, outside
    arguments of injectible calls.  (An assignment whose variable is used nowhere is
    dropped by the compiler together with whatever it contains.)"""
    for e in model.head_exprs(rule):
        if uses_outside_injectible(e, v, inj):
            return True
    for l in body_without:
        if l[0] == 'cmp' and l[1] != '==':
            if uses_outside_injectible(l[2], v, inj) or uses_outside_injectible(l[3], v, inj):
                return True
        elif l[0] == 'call' and l[1] not in inj:
            if any(uses_outside_injectible(x, v, inj) for _, x in l[2]):
                return True
    return False


def choose_target(rng, prog, pred, allow_made=True, allow_caller=True):
    """Which predicate to compile so that the corrupted rules of `pred` must be compiled.
    A caller is not enough for a corrupted *head* field: an injected callee contributes
    only the columns the caller asks for (errors are raised lazily), its body always."""
    opts = [('self', pred)]
    for c in (direct_callers(prog, pred) if allow_caller else ()):
        opts.append(('caller', c))
    if allow_made:
        for mk in prog.get('make') or ():
            if mk[1] == pred:
                opts.append(('made', mk[0]))
    if len(opts) > 1 and rng.random() < 0.35:
        return rng.choice(opts[1:])
    return opts[0]


# ------------------------------------------------------------------ choosing a site
# choose_Kn(rng, prog) -> params dict (JSON-able, fully determines the corruption) | None

def choose_K1(rng, prog):
    idx = rule_indices(prog, with_body=True)
    facts = rule_indices(prog, with_body=False)
    if not idx or (facts and rng.random() < 0.1):
        idx = facts
    if not idx:
        return None
    i = pick_rule(rng, prog, idx)
    r = prog['rules'][i]
    slots = list(range(len(r['head']))) + (['value'] if r.get('value') is not None else [])
    if not slots:
        return None
    q, clash = fresh_var(rng, r, prog)
    return {'rule': i, 'slot': rng.choice(slots), 'var': q, 'callee_name': clash,
            'mode': rng.choice(['replace', 'replace', 'wrap'])}


def apply_K1(prog, p):
    r = dict(prog['rules'][p['rule']])
    q = ('var', p['var'])

    def corrupt(h, t):
        if h[0] == 'AGG':
            arg = h[2]
            if arg[0] == 'arrow':
                return ('AGG', h[1], ('arrow', q, arg[2]))
            return ('AGG', h[1], corrupt(arg, t))
        if p['mode'] == 'wrap' and t in ('N', 'S'):
            return ('bin', '+' if t == 'N' else '++', h, q)
        return q
    s = (prog.get('sig') or {}).get(r['pred'])
    if p['slot'] == 'value':
        t = s['value'] if s else None
        r['value'] = corrupt(r['value'], t)
    else:
        k = p['slot']
        t = s['fields'][k][1] if s and k < len(s['fields']) else None
        if r['head'][k][1][0] == 'AGG':
            t = None
        head = list(r['head'])
        head[k] = (head[k][0], corrupt(head[k][1], t))
        r['head'] = tuple(head)
    return with_rule(prog, p['rule'], r), {'rule': p['rule'], 'vars': [p['var']],
                                            'preds': [r['pred']]}


def some_operand(rng, body):
    vs = sorted(model.own_vars(body))
    if vs and rng.random() < 0.8:
        return ('var', rng.choice(vs))
    return ('lit', rng.choice([0, 1, 2]))


def cmp_with(rng, q, other):
    a, b = ('var', q), other
    if rng.random() < 0.5:
        a, b = b, a
    return ('cmp', rng.choice(CMP_OPS), a, b)


def choose_K2(rng, prog):
    idx = rule_indices(prog, with_body=True)
    if not idx:
        return None
    i = pick_rule(rng, prog, idx)
    r = prog['rules'][i]
    body = r['body']
    q, clash = fresh_var(rng, r, prog)
    modes = ['insert']
    repl = [k for k, l in enumerate(body) if l[0] == 'cmp' and l[1] != '==']
    if repl:
        modes.append('replace')
    ors = [k for k, l in enumerate(body) if l[0] == 'or']
    if ors:
        modes.append('in_or')
    combs = [k for k, l in enumerate(body) if l[0] == 'agg' and
             var_is_live(r, body[:k] + body[k + 1:], l[1], prog.get('inj', {}))]
    if combs:
        modes += ['in_combine', 'in_combine']
    if not EXCLUDE_N2:
        modes.append('eq_free')
    mode = rng.choice(modes)
    p = {'rule': i, 'var': q, 'callee_name': clash, 'mode': mode}
    if mode != 'in_combine':
        q = maybe_capture(rng, prog, i, p)
    if mode == 'insert':
        p['at'] = rng.randint(0, len(body))
        p['lit'] = cmp_with(rng, q, some_operand(rng, body))
    elif mode == 'replace':
        p['at'] = rng.choice(repl)
        p['side'] = rng.choice([2, 3])
    elif mode == 'in_or':
        p['at'] = rng.choice(ors)
        p['branch'] = rng.randrange(len(body[p['at']][1]))
        p['lit'] = cmp_with(rng, q, some_operand(rng, body[p['at']][1][p['branch']]))
    elif mode == 'eq_free':
        q2, _ = fresh_var(rng, r, prog, avoid=[q])
        rhs = ('var', q2) if rng.random() < 0.5 else ('bin', '+', ('var', q2), ('lit', 1))
        p['at'] = rng.randint(0, len(body))
        p['var2'] = q2
        p['lit'] = ('cmp', '==', ('var', q), rhs)
    else:
        p['at'] = rng.choice(combs)
        p['lit'] = cmp_with(rng, q, some_operand(rng, body[p['at']][4]))
    return p


def apply_K2(prog, p):
    r = dict(prog['rules'][p['rule']])
    body = list(r['body'])
    k = p['at']
    fresh = [p['var']] + ([p['var2']] if p.get('var2') else [])
    assert not set(fresh) & model.rule_all_vars(r)
    if p['mode'] in ('insert', 'eq_free'):
        body.insert(k, model.tup(p['lit']))
    elif p['mode'] == 'replace':
        l = list(body[k])
        assert l[0] == 'cmp' and l[1] != '=='
        l[p['side']] = ('var', p['var'])
        body[k] = tuple(l)
    elif p['mode'] == 'in_or':
        l = body[k]
        br = list(l[1])
        br[p['branch']] = tuple(br[p['branch']]) + (model.tup(p['lit']),)
        body[k] = ('or', tuple(br))
    else:
        l = list(body[k])
        assert l[0] == 'agg'
        if not var_is_live(r, body[:k] + body[k + 1:], l[1], prog.get('inj', {})):
            raise OutOfDomain('the combine is dead code: its value is used nowhere')
        l[4] = tuple(l[4]) + (model.tup(p['lit']),)
        body[k] = tuple(l)
    r['body'] = tuple(body)
    return with_rule(prog, p['rule'], r), {'rule': p['rule'], 'vars': fresh,
                                            'preds': [r['pred']]}


def choose_K3(rng, prog):
    idx = rule_indices(prog, with_body=True)
    if not idx:
        return None
    withneg = [i for i in idx if any(l[0] == 'neg' for l in prog['rules'][i]['body'])]
    i = pick_rule(rng, prog, withneg) if withneg and rng.random() < 0.6 else \
        pick_rule(rng, prog, idx)
    r = prog['rules'][i]
    body = r['body']
    q, clash = fresh_var(rng, r, prog)
    negs = [k for k, l in enumerate(body) if l[0] == 'neg']
    p = {'rule': i, 'var': q, 'callee_name': clash}
    q = maybe_capture(rng, prog, i, p)
    if negs:
        p['mode'] = 'existing'
        p['at'] = rng.choice(negs)
        p['lit'] = cmp_with(rng, q, some_operand(rng, body[p['at']][1]))
        return p
    # synthesise ~(C(v..), v op q) over a concrete predicate; all its fields get locals
    cands = [c for c in preds_in_order(prog) if c not in prog.get('inj', {}) and
             r['pred'] not in common.closure_rules(prog, c)[1]]   # no new recursion
    if not cands:
        return None
    c = rng.choice(cands)
    fields, _ = fields_of(prog, c)
    if not fields:
        return None
    names = [q]
    args = []
    for f in fields:
        v, _ = fresh_var(rng, r, prog, avoid=names)
        names.append(v)
        args.append([f, ['var', v]])
    s = (prog.get('sig') or {}).get(c)
    atoms = [k for k in range(len(fields))
             if not s or k >= len(s['fields']) or s['fields'][k][1] in ('N', 'S')]
    k = rng.choice(atoms or list(range(len(fields))))
    p['mode'] = 'synth'
    p['at'] = rng.randint(0, len(body))
    p['neg'] = ['neg', [['call', c, args, []], cmp_with(rng, q, ('var', names[1 + k]))], 0]
    return p


def apply_K3(prog, p):
    r = dict(prog['rules'][p['rule']])
    body = list(r['body'])
    assert p['var'] not in model.rule_all_vars(r)
    if p['mode'] == 'existing':
        l = body[p['at']]
        assert l[0] == 'neg'
        body[p['at']] = ('neg', tuple(l[1]) + (model.tup(p['lit']),), 0)
    else:
        body.insert(p['at'], model.tup(p['neg']))
    r['body'] = tuple(body)
    return with_rule(prog, p['rule'], r), {'rule': p['rule'], 'vars': [p['var']],
                                            'preds': [r['pred']]}


def keyword_distinct(r):
    """Distinctness of the rule is decided by the `distinct` keyword alone (a value
    aggregation `P(..) Op= e` is distinct without it)."""
    v = r.get('value')
    return not (v is not None and v[0] == 'AGG')


def choose_K4(rng, prog):
    rem = [i for i, r in enumerate(prog['rules'])
           if r.get('distinct') and keyword_distinct(r) and
           any(h[0] == 'AGG' for _, h in r['head'])]
    add = [i for i, r in enumerate(prog['rules'])
           if not r.get('distinct') and keyword_distinct(r) and
           any(isinstance(f, str) and h[0] != 'AGG' for f, h in r['head'])]
    if rem and (not add or rng.random() < 0.8):
        return {'mode': 'remove_distinct', 'rule': pick_rule(rng, prog, rem)}
    if add:
        i = pick_rule(rng, prog, add)
        r = prog['rules'][i]
        k = rng.choice([k for k, (f, h) in enumerate(r['head'])
                        if isinstance(f, str) and h[0] != 'AGG'])
        return {'mode': 'add_aggregation', 'rule': i, 'slot': k,
                'op': rng.choice(['Max', 'Min', 'Count', 'List', '+'])}
    return None


def apply_K4(prog, p):
    r = dict(prog['rules'][p['rule']])
    assert keyword_distinct(r)
    if p['mode'] == 'remove_distinct':
        assert r['distinct'] and any(h[0] == 'AGG' for _, h in r['head'])
        r['distinct'] = False
    else:
        assert not r['distinct']
        head = list(r['head'])
        f, h = head[p['slot']]
        assert isinstance(f, str) and h[0] != 'AGG'
        head[p['slot']] = (f, ('AGG', p['op'], h))
        r['head'] = tuple(head)
    return with_rule(prog, p['rule'], r), {'rule': p['rule'], 'vars': [],
                                            'preds': [r['pred']]}


def choose_K5(rng, prog):
    by = {}
    for i, r in enumerate(prog['rules']):
        by.setdefault(r['pred'], []).append(i)
    cands = []
    for pred, ix in by.items():
        rs = [prog['rules'][i] for i in ix]
        if len(rs) < 2 or not all(keyword_distinct(r) for r in rs):
            continue
        if all(r.get('distinct') for r in rs):
            cands.append((pred, 'remove'))
        elif not any(r.get('distinct') for r in rs):
            cands.append((pred, 'add'))
    if not cands:
        return None
    # rules with a body are the interesting ones; fact tables are plentiful
    withbody = [c for c in cands if any(prog['rules'][i]['body'] for i in by[c[0]])]
    pred, mode = rng.choice(withbody) if withbody and rng.random() < 0.75 else \
        rng.choice(cands)
    return {'mode': mode, 'rule': rng.choice(by[pred])}


def apply_K5(prog, p):
    r = dict(prog['rules'][p['rule']])
    others = [x for i, x in enumerate(prog['rules'])
              if x['pred'] == r['pred'] and i != p['rule']]
    assert others and keyword_distinct(r) and all(keyword_distinct(x) for x in others)
    want = p['mode'] == 'remove'
    assert bool(r['distinct']) == want and all(bool(x['distinct']) == want for x in others)
    r['distinct'] = not want
    return with_rule(prog, p['rule'], r), {'rule': p['rule'], 'vars': [],
                                            'preds': [r['pred']],
                                            'any_rule_of': r['pred']}


def underscore_name(n):
    return n[0] + '_' + n[1:]


def rename_text(text, mapping):
    for a, b in sorted(mapping.items()):
        text = re.sub(r'(?<![A-Za-z0-9_])%s(?![A-Za-z0-9_])' % re.escape(a), b, text)
    return text


def k6_mapping(params):
    if not params.get('underscore'):
        return {}
    return {n: underscore_name(n) for n in params['component']}


def choose_K6(rng, prog):
    comps, dd = recgen.components(prog)
    if not comps:
        return None
    comp = sorted(rng.choice([sorted(c) for c in comps]))
    p = {'component': comp, 'target': rng.choice(comp), 'tkind': 'self',
         'underscore': rng.random() < 0.4}
    ob = prog.get('observer')
    if ob and ob[0] in comp and rng.random() < 0.7:
        p['target'], p['tkind'] = 'Ob', 'caller'
    if n1_class(prog, p) and EXCLUDE_N1:
        p['underscore'] = False
        p['excluded'] = 'N1_underscore_named_component_read_by_live_observer'
    if p['underscore'] and p['tkind'] == 'self':
        p['target'] = underscore_name(p['target'])
    return p


def n1_class(prog, p):
    """Known finding N1: members named with '_' are never reported as proven empty; an
    outside predicate reading one under a negation / next to another rule compiles."""
    ob = prog.get('observer')
    return bool(p.get('underscore') and ob and ob[0] in p['component'] and
                ob[1] != 'only_rule' and p['tkind'] == 'caller')


def apply_K6(prog, p):
    comp = set(p['component'])
    comps, dd = recgen.components(prog)
    assert comp in comps
    keep = [r for r in prog['rules']
            if not (r['pred'] in comp and not (common.deps_of_rule(r) & comp))]
    assert len(keep) < len(prog['rules'])
    p2 = dict(prog)
    p2['rules'] = keep
    # by construction no member can ever hold a row
    assert not any(r['pred'] in comp and not (common.deps_of_rule(r) & comp) for r in keep)
    m = k6_mapping(p)
    return p2, {'rule': None, 'vars': [], 'preds': sorted(m.get(n, n) for n in comp),
                'n_deleted': len(prog['rules']) - len(keep), 'rename': m,
                'component': sorted(comp)}


def choose_K7(rng, prog):
    makes = prog.get('make') or ()
    if not makes:
        return None
    k = rng.randrange(len(makes))
    f = makes[k][1]
    _, seen = common.closure_rules(prog, f)
    defined = preds_in_order(prog) + list(prog.get('inj', {}))
    outside = [x for x in defined if x not in seen and x != f]
    if not outside:
        return None
    # 'chained': the bad argument is given to a functor that is itself MADE by `:=`
    # (Gq1 := G0(Unrelated: V) after G0 := F(A: B)): values bound earlier are in G0's closure
    vals = set()
    for a, v in makes[k][2]:
        if v[0] == 'pred':
            vals |= common.closure_rules(prog, v[1])[1] | {v[1]}
    outside_chained = [x for x in outside if x not in vals and x != makes[k][0]]
    modes = ['replace', 'replace', 'add'] + (['chained', 'chained'] if outside_chained else [])
    mode = rng.choice(modes)
    return {'make': k, 'bad_arg': rng.choice(outside_chained if mode == 'chained' else outside),
            'mode': mode}


def apply_K7(prog, p):
    makes = [list(m) for m in prog['make']]
    mk = makes[p['make']]
    f = mk[1]
    _, seen = common.closure_rules(prog, f)
    assert p['bad_arg'] not in seen and p['bad_arg'] != f
    args = [list(a) for a in mk[2]]
    if p['mode'] == 'chained':
        new = ['Gq1', mk[0], [[p['bad_arg'], args[0][1]]]]
        makes.append(new)
        p2 = dict(prog)
        p2['make'] = makes
        return p2, {'rule': None, 'stmt': ['make', len(makes) - 1], 'vars': [],
                    'preds': [p['bad_arg']], 'functor': ['Gq1', mk[0]]}
    if p['mode'] == 'replace':
        args[0] = [p['bad_arg'], args[0][1]]
    else:
        args.append([p['bad_arg'], args[0][1]])
    mk[2] = args
    p2 = dict(prog)
    p2['make'] = makes
    return p2, {'rule': None, 'stmt': ['make', p['make']], 'vars': [],
                'preds': [p['bad_arg']], 'functor': [mk[0], f]}


def choose_K8(rng, prog):
    defined = set(preds_in_order(prog)) | set(prog.get('inj', {})) | \
        set(m[0] for m in prog.get('make') or ())
    style = rng.choice(['fresh', 'fresh', 'typo', 'fresh_underscore', 'typo_underscore',
                        'typo_underscore'])
    if style == 'fresh':
        name = rng.choice(['Zq', 'Missing', 'Qx9'])
    elif style == 'fresh_underscore':
        name = rng.choice(['Zq_x', 'Missing_Pred', 'Nothing_Like_It', 'Qx_9'])
    elif style == 'typo':
        name = rng.choice(sorted(defined)) + rng.choice(['x', 'Z', '2'])
    else:
        # never the name of a predicate the compiler makes (P_r1, P_f2, P_recursive_head,
        # P_MultBodyAggAux, ...): those exist
        d = rng.choice(sorted(defined))
        if len(d) > 1 and '_' not in d and rng.random() < 0.5:
            k = rng.randint(1, len(d) - 1)
            name = d[:k] + '_' + d[k:]
        else:
            name = d + rng.choice(['_x', '_Z', '_2', '_old'])
    while name in defined:
        name += 'q'
    a = rng.choice(ANNOTATIONS)
    extra = {'@OrderBy': ', "col0"', '@Limit': ', %d' % rng.randint(1, 3)}.get(a, '')
    return {'annotation': a, 'name': name, 'style': style,
            'line': '%s(%s%s);' % (a, name, extra), 'pos': rng.randrange(64)}


def choose_text_site(rng, prog, kind):
    lines = render(prog)
    sites = []
    for n, (sid, line) in enumerate(lines):
        inside = False
        for c, ch in enumerate(line):
            if ch == '"':
                if kind == 'quote' and inside:
                    sites.append((n, c))
                inside = not inside
            elif not inside and kind == 'bracket' and ch in OPEN + CLOSE:
                sites.append((n, c))
        assert not inside
    return lines, sites


def choose_K9(rng, prog):
    lines, sites = choose_text_site(rng, prog, 'bracket')
    if rng.random() < 0.5 and sites:
        n, c = rng.choice(sites)
        return {'mode': 'delete', 'stmt': lines[n][0], 'col': c, 'ch': lines[n][1][c]}
    # insertion: any position of any statement outside string literals
    n = rng.randrange(len(lines))
    if rng.random() < 0.8:
        body_lines = [k for k, (sid, _) in enumerate(lines) if sid[0] in ('rule', 'inj')]
        if body_lines:
            n = rng.choice(body_lines)
    line = lines[n][1]
    outside = []
    inside = False
    for c, ch in enumerate(line):
        if not inside:
            outside.append(c)
        if ch == '"':
            inside = not inside
    outside.append(len(line))
    return {'mode': 'insert', 'stmt': lines[n][0], 'col': rng.choice(outside),
            'ch': rng.choice(OPEN + CLOSE)}


def choose_K10(rng, prog):
    lines, sites = choose_text_site(rng, prog, 'quote')
    rest = [s for s in sites if lines[s[0]][0][0] != 'engine']
    if rest and rng.random() < 0.85:
        sites = rest
    n, c = rng.choice(sites)
    return {'mode': 'delete_closing_quote', 'stmt': lines[n][0], 'col': c, 'ch': '"'}


def apply_text(prog, p):
    lines = render(prog)
    n = next(k for k, (sid, _) in enumerate(lines) if list(sid) == list(p['stmt']))
    line = lines[n][1]
    c = p['col']
    if p['mode'] == 'insert':
        assert line[:c].count('"') % 2 == 0
        line2 = line[:c] + p['ch'] + line[c:]
    else:
        assert line[c] == p['ch'] and line[:c].count('"') % 2 == (1 if p['ch'] == '"' else 0)
        line2 = line[:c] + line[c + 1:]
    lines[n] = (lines[n][0], line2)
    return lines, n


CHOOSERS = {'K1': choose_K1, 'K2': choose_K2, 'K3': choose_K3, 'K4': choose_K4,
            'K5': choose_K5, 'K6': choose_K6, 'K7': choose_K7, 'K8': choose_K8,
            'K9': choose_K9, 'K10': choose_K10}
APPLIERS = {'K1': apply_K1, 'K2': apply_K2, 'K3': apply_K3, 'K4': apply_K4,
            'K5': apply_K5, 'K6': apply_K6, 'K7': apply_K7}


def corrupt(prog, op, params):
    """-> (lines of the corrupted program, index of the corrupted statement | None,
    identification hints)."""
    if op in APPLIERS:
        p2, hint = APPLIERS[op](prog, params)
        lines = render(p2)
        if hint.get('rename'):
            lines = [(sid, rename_text(l, hint['rename'])) for sid, l in lines]
        bad = None
        sid = ['rule', hint['rule']] if hint.get('rule') is not None else hint.get('stmt')
        if sid is not None:
            bad = next(k for k, (s, _) in enumerate(lines) if list(s) == list(sid))
        return lines, bad, hint
    if op == 'K8':
        lines = render(prog, extra=(params['pos'], params['line']))
        bad = next(k for k, (s, _) in enumerate(lines) if s[0] == 'extra')
        return lines, bad, {'vars': [], 'preds': [params['name']]}
    lines, bad = apply_text(prog, params)
    # what the parser sees as the offending statement: the corrupted line, or the
    # inserted bracket alone when it was put after the closing `;`
    base_line = next(l for sid, l in render(prog) if list(sid) == list(params['stmt']))
    seg = lines[bad][1]
    if params['mode'] == 'insert' and params['col'] == len(base_line):
        seg = params['ch']
    return lines, bad, {'vars': [], 'preds': [], 'textual': True, 'segment': seg}


def default_target(prog, op, params, hint, rng=None):
    """The predicate to compile (the one whose definition contains the corruption)."""
    preds = preds_in_order(prog)
    if op == 'K6':
        return params.get('tkind', 'self'), params['target']
    if op == 'K7':
        return 'made', prog['make'][params['make']][0]
    if op in ('K1', 'K2', 'K3', 'K4', 'K5'):
        pred = prog['rules'][params['rule']]['pred']
        if params.get('via'):
            return 'caller', params['via']
        if rng is not None:
            # a head field / the value of a combine reaches a caller only if the caller
            # asks for that column; body constraints always do
            # a head variable of a single-rule predicate is a parameter its caller may
            # bind (`Q(x) :- P(x, 3)` with `P(a, b) :- R(a)` is legal): K1 is decided on
            # the predicate itself; so is the value of a combine (reaches a caller only
            # through the head).  Body constraints are compiled into every caller.
            lazy = op == 'K1' or (op == 'K2' and params.get('mode') == 'in_combine')
            return choose_target(rng, prog, pred, allow_caller=not lazy)
        return 'self', pred
    if op in ('K9', 'K10') and params['stmt'][0] == 'rule':
        return 'self', prog['rules'][params['stmt'][1]]['pred']
    if op in ('K9', 'K10') and params['stmt'][0] == 'make':
        return 'made', prog['make'][params['stmt'][1]][0]
    last = [p for p in preds if p not in ('E', 'V', 'Bb', 'B0')]
    return 'any', (last or preds)[-1]


# ------------------------------------------------------------------ oracle

ANSI = re.compile(r'\x1b\[[0-9;]*m')


def norm(s):
    return re.sub(r'\s+', ' ', ANSI.sub('', str(s))).strip().rstrip(';').strip()


def word_in(w, s):
    return re.search(r'(?<![A-Za-z0-9_@])%s(?![A-Za-z0-9_])' % re.escape(w), s) is not None


def identify(e, lines, bad, hint, prog, target=None, tkind='self'):
    """Which of {variable, predicate, rule, statement, location} the diagnostic
    identifies (the statement asks for the offending rule, variable or predicate)."""
    found = set()
    msg = ANSI.sub('', str(e))
    ctx = ''
    for attr in ('rule_str', 'functor_name'):
        if getattr(e, attr, None) is not None:
            ctx = ANSI.sub('', str(getattr(e, attr)))
    loc = getattr(e, 'location', None)
    for v in hint.get('vars', ()):
        if word_in(v, msg):
            found.add('variable')
    names = list(hint.get('preds', ()))
    for p in names + list(hint.get('functor', ())):
        if word_in(p, msg) or (hasattr(e, 'functor_name') and word_in(p, ctx)):
            found.add('predicate')
    ob = prog.get('observer')
    if hint.get('n_deleted') and ob and ob[1] == 'only_rule' and \
            ob[0] in hint.get('component', ()) and isinstance(e, drive.DIAGNOSTICS[2]) and \
            word_in('Ob', msg):
        # the only rule of the observer reads the emptied component: it is itself one of
        # the predicates "proven to be empty", the compiler names an arbitrary one of them
        found.add('dependent_empty_predicate')
    stmts = []
    if bad is not None:
        stmts.append(lines[bad][1])
    if hint.get('any_rule_of'):
        # inconsistent `distinct`: any rule of the predicate shows the inconsistency
        stmts.extend(l for (sid, l) in lines if sid[0] == 'rule' and
                     l.startswith(hint['any_rule_of'] + '('))
    texts = [norm(ctx)] if ctx else []
    if loc is not None:
        texts.append(norm(loc))
    for t in texts:
        if len(t) >= 3 and any(t in norm(s) for s in stmts):
            found.add('rule')
    if tkind in ('caller', 'made') and target and not found:
        # the corrupted rule was compiled inside a rule of the requested predicate
        # (injection / functor copy): the diagnostic may name that rule instead
        outer = [l for (sid, l) in lines if sid[0] == 'rule' and l.startswith(target + '(')]
        for t in texts:
            if len(t) >= 3 and any(t in norm(s) for s in outer):
                found.add('enclosing_rule')
        if word_in(target, msg):
            found.add('enclosing_predicate')
    if loc is not None and bad is not None:
        text = text_of(lines)
        start = sum(len(l) + 1 for _, l in lines[:bad])
        her = getattr(loc, 'heritage', None)
        if her == text and start <= getattr(loc, 'start', -1) <= \
                getattr(loc, 'stop', -1) <= len(text):
            found.add('location')
        elif her and norm(her) in norm(text) and (
                (len(norm(lines[bad][1])) >= 3 and norm(lines[bad][1]) in norm(her)) or
                (hint.get('segment') and norm(her).startswith(norm(hint['segment'])))):
            # the parser works statement by statement: the statement it complains about
            # is (or, with an unclosed bracket, begins with) the corrupted one
            found.add('statement')
    return found


def show_message(e):
    """logica.py reports a diagnostic with e.ShowMessage(); it must not crash."""
    buf = io.StringIO()
    try:
        with contextlib.redirect_stderr(buf), contextlib.redirect_stdout(buf):
            try:
                e.ShowMessage(stream=buf)
            except TypeError:
                e.ShowMessage()
    except Exception as x:        # noqa
        return 'ShowMessage raised %s: %s' % (type(x).__name__, x)
    return None


def judge(prog, op, params, kind_target=None):
    res = judge0(prog, op, params, kind_target)
    if op == 'K6' and res['status'] == 'fail' and n1_class(prog, params) and \
            res['bucket'].startswith('accepted_invalid:'):
        res['bucket'] = N1_BUCKET

    return res


def judge0(prog, op, params, kind_target=None):
    """Apply the corruption and compile.  -> dict(status ok|fail, bucket, detail, labels,
    text, target)"""
    lines, bad, hint = corrupt(prog, op, params)
    text = text_of(lines)
    tkind, target = kind_target or default_target(prog, op, params, hint)
    labels = ['op:' + op, 'target:' + tkind]
    if params.get('mode'):
        labels.append('%s:%s' % (op, params['mode']))
    if params.get('callee_name'):
        labels.append('fresh_var_named_like_callee_local')
    if params.get('via'):
        labels.append('fresh_var_named_like_caller_variable')
        if prog['rules'][params['rule']]['pred'] in injectable_callees(prog):
            labels.append('captured_in_injected_callee:' + op)
    if op == 'K8':
        labels.append('K8:' + params['annotation'])
        labels.append('K8:name_' + params.get('style', 'fresh'))
    if op == 'K6' and params.get('underscore'):
        labels.append('K6:underscore_names')
    if op == 'K6' and tkind == 'caller':
        labels.append('K6:observer_' + (prog.get('observer') or [0, '?'])[1])
    if op == 'K6':
        labels.append('K6:deleted_%s' % ('1' if hint['n_deleted'] == 1 else 'many'))
        labels.append('K6:component_%d' % len(params['component']))
    if op in ('K9', 'K10'):
        labels.append('%s:in_%s' % (op, params['stmt'][0]))
        if op == 'K9':
            labels.append('K9:%s_%s' % (params['mode'],
                                        'open' if params['ch'] in OPEN else 'close'))
    res = {'text': text, 'target': target, 'labels': labels}
    head = 'operator %s %s\ntarget %s\n--- corrupted program\n%s' % (
        op, {k: v for k, v in params.items()}, target, text)
    try:
        _, sql = drive.compile_program(text, target)
    except drive.DIAGNOSTICS as e:
        labels.append('diag:%s:%s' % (op, type(e).__name__))
        found = identify(e, lines, bad, hint, prog, target, tkind)
        for f in sorted(found):
            labels.append('ident:%s:%s' % (op, f))
        crash = show_message(e)
        if crash:
            res.update(status='fail', bucket='show_message_crash:%s:%s' % (op, type(e).__name__),
                       detail='%s\n%s' % (crash, head))
            return res
        if not found:
            res.update(status='fail',
                       bucket='unidentified:%s:%s:%s' % (op, type(e).__name__,
                                                         common.msg_class(common.first_line(e))),
                       detail='diagnostic names neither the offending rule, variable nor '
                              'predicate (%r): %s: %s | context %r\n%s' % (
                                  hint, type(e).__name__, ANSI.sub('', str(e))[:300],
                                  str(getattr(e, 'rule_str', getattr(e, 'location', getattr(
                                      e, 'functor_name', None))))[:200], head))
            return res
        res.update(status='ok', bucket=None, detail='',
                   diag='%s: %s' % (type(e).__name__, common.first_line(e)))
        return res
    except RecursionError as e:
        res.update(status='fail', bucket='internal:%s:RecursionError' % op,
                   detail='RecursionError\n' + head)
        return res
    except SystemExit as e:
        res.update(status='fail', bucket='internal:%s:SystemExit' % op,
                   detail='the compiler called sys.exit()\n' + head)
        return res
    except Exception as e:
        res.update(status='fail', bucket='internal:%s:%s' % (op, drive.exc_frame(e)),
                   detail='%s\n%s' % (traceback.format_exc()[-1500:], head))
        return res
    sub = ':' + params['mode'] if params.get('mode') else ''
    res.update(status='fail', bucket='accepted_invalid:%s%s' % (op, sub),
        detail='SQL was produced for an invalid program (%d chars)\n%s\n--- SQL\n%s' % (
            len(sql), head, sql[:1500]))
    return res


# ------------------------------------------------------------------ runner

def case_json(prog, op, params, tkind, target):
    return {'prog': model.prog_to_json(prog), 'op': op, 'params': params,
            'target': [tkind, target]}


def shard(ctx, col):
    drive.enable_library_cache()

    def one(rng):
        prog = gen_base(rng, ctx.tier)
        col.label('profile:' + prog['profile'])
        for k, v in (prog.get('excluded') or {}).items():
            col.excluded[k] += v
        base_text = text_of(render(prog))
        base_status = {}
        try:
            base_rules = drive.parse_rules(base_text)
        except Exception:
            base_rules = None           # classified by run_base
        ops = list(OPS)
        rng.shuffle(ops)
        # the profile-specific operators first, then a Hypothesis-drawn subset
        ops.sort(key=lambda o: 0 if (o, prog['profile']) in (('K6', 'rec'), ('K7', 'functor'))
                 else 1)
        done = 0
        for op in ops:
            if done >= OPS_PER_PROGRAM:
                break
            params = CHOOSERS[op](rng, prog)
            if params is None:
                col.label('no_site:%s:%s' % (op, prog['profile']))
                continue
            done += 1
            params = model.prog_to_json(params)
            tkind, target = default_target(prog, op, params, None, rng)
            if params.get('excluded'):
                col.exclude(params.pop('excluded'))
            ren = k6_mapping(params) if op == 'K6' else {}
            bkey = (target, bool(ren))
            if bkey not in base_status:
                base_status[bkey] = run_base(prog, base_text, target, base_rules, ren)
            bs = base_status[bkey]
            if bs.startswith('rejected') or bs.startswith('internal') or bs == 'sqlite_error':
                # the base is not accepted by the compiler: other properties' business
                col.exclude('base_' + bs.split('@')[0])
                continue
            res = judge(prog, op, params, (tkind, target))
            labels = res['labels'] + ['profile_op:%s:%s' % (prog['profile'], op)]
            if bs != 'ok':
                labels.append('base_' + bs)
            key = (base_text, op, params, target)
            if res['status'] == 'ok':
                col.case(key, bs == 'ok', labels,
                         sample={'operator': op, 'params': params, 'target': target,
                                 'diagnostic': res.get('diag'), 'program': res['text']})
            else:
                col.case(key, False, labels + ['failed'])
                col.fail(res['bucket'], case_json(prog, op, params, tkind, target),
                         res['detail'])
    core.hyp_run(one, common.strategy(), ctx.budget, ctx.hyp_seed)


def evidence_extra(col):
    per_op = {op: col.labels.get('op:' + op, 0) for op in OPS}
    return {'evaluations_per_operator': per_op,
            'operators_not_exercised': [op for op in OPS if not per_op[op]],
            'diagnostic_types_per_operator': {
                op: {k.split(':')[2]: v for k, v in sorted(col.labels.items())
                     if k.startswith('diag:%s:' % op)} for op in OPS}}


def prog_of_case(case):
    prog = model.prog_from_json(case['prog'])
    for k in ('names', 'ann_pred', 'depth', 'explicit_iter', 'kind', 'distinct', 'profile',
              'make', 'sig', 'observer'):
        if k in case['prog']:
            prog[k] = case['prog'][k]
    return prog


def check_case(case):
    drive.enable_library_cache()
    prog = prog_of_case(case)
    if case['target'][0] == 'caller' and not _caller_ok(prog, case):
        return []                       # not a target the catalogue would choose
    try:
        res = judge(prog, case['op'], case['params'], tuple(case['target']))
    except OutOfDomain:
        return []
    return [(res['bucket'], res['detail'])] if res['status'] == 'fail' else []


def _caller_ok(prog, case):
    """The requested predicate is a direct caller of the corrupted predicate (K6: of a
    member of the emptied component, from outside of it)."""
    t = case['target'][1]
    if case['op'] == 'K6':
        comp = set(case['params']['component'])
        return t not in comp and any(r['pred'] == t and common.deps_of_rule(r) & comp
                                     for r in prog['rules'])
    site = _site_rule(case['params'])
    return site is not None and t in direct_callers(prog, prog['rules'][site]['pred'])


def _site_rule(params):
    r = params.get('rule')
    if r is None and isinstance(params.get('stmt'), list) and params['stmt'][0] == 'rule':
        r = params['stmt'][1]
    return r


def _still_fails(c2, bucket):
    try:
        prog2 = prog_of_case(c2)
        defined = set(preds_in_order(prog2)) | set(prog2.get('inj', {}))
        closed = all(common.deps_of_rule(r) <= defined for r in prog2['rules'])
        if c2['target'][0] == 'caller':
            closed = closed and _caller_ok(prog2, c2)
        ren = k6_mapping(c2['params']) if c2['op'] == 'K6' else {}
        return closed and any(b == bucket for b, _ in check_case(c2)) and \
            run_base(prog2, text_of(render(prog2)), c2['target'][1], None, ren) == 'ok'
    except Exception:
        return False


def minimise(case, bucket):
    """Drop rules, then body literals, that are not needed for the same failure; the
    uncorrupted program must stay closed and keep compiling and running for the target."""
    cur = case
    tests = 0
    j = len(case['prog']['rules']) - 1
    while j >= 0 and tests < 80:
        cp = cur['params']
        r_now = _site_rule(cp)
        if j == r_now:
            j -= 1
            continue
        c2 = dict(cur)
        c2['prog'] = dict(cur['prog'])
        c2['prog']['rules'] = cur['prog']['rules'][:j] + cur['prog']['rules'][j + 1:]
        p2 = dict(cp)
        if r_now is not None and j < r_now:
            if p2.get('rule') is not None:
                p2['rule'] = r_now - 1
            else:
                p2['stmt'] = ['rule', r_now - 1]
        c2['params'] = p2
        tests += 1
        if _still_fails(c2, bucket):
            cur = c2
        j -= 1
    # body literals (the corrupted rule only when the site does not index its body / text)
    site = _site_rule(cur['params'])
    for i in range(len(cur['prog']['rules'])):
        if i == site and cur['op'] in ('K2', 'K3', 'K9', 'K10'):
            continue
        k = len(cur['prog']['rules'][i].get('body') or ()) - 1
        while k >= 0 and tests < 140:
            body = list(cur['prog']['rules'][i]['body'])
            if len(body) < 2:
                break
            c2 = dict(cur)
            c2['prog'] = dict(cur['prog'])
            rules = list(cur['prog']['rules'])
            r2 = dict(rules[i])
            r2['body'] = body[:k] + body[k + 1:]
            rules[i] = r2
            c2['prog']['rules'] = rules
            tests += 1
            if _still_fails(c2, bucket):
                cur = c2
            k -= 1
    return cur
