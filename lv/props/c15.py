"""C15: layout, comments and string contents never change what is parsed; spans are literal."""
import json

from lv import core, noise, parsers, syntaxgen, syntaximport

ID = 'C15'
BUDGET = {'quick': 6000, 'thorough': 60000}     # generated programs; 4 parses each
WALL = {'quick': 1800, 'thorough': 7200}     # safety net only (=> inconclusive shards)
RULE = ('programs of the syntactic grammar generator lv/syntaxgen.py, printed twice: base '
        'text and a noisy text with whitespace / newlines / tabs / # and /* */ comments '
        'inserted at token boundaries (only bare /* */ inside glued tokens), redundant '
        'parentheses around whole expressions and propositions, trailing ; toggled. Under '
        'each parser (PY, CPP): (a) base accepted => noisy accepted and the trees are equal '
        'after dropping expression_heritage/full_text, and corresponding heritage texts are '
        'equal modulo whitespace and parentheses outside literals; (b) every '
        'HeritageAwareString h of every tree has h.heritage[h.start:h.stop] == h and '
        'h.heritage is the comment-free text of a statement (known by construction), and '
        'the span of a variable / predicate / boolean / null atom reads exactly that atom; '
        '(c) the set of the_string values equals the set of generated literal contents '
        '(three literal forms; separators, brackets, comment markers, keywords, quotes, '
        'non-ASCII). Non-trivial: base text accepted by both parsers, >= 3 noise insertions of '
        'which >= 1 comment, or a literal containing syntax characters; distinct by hash of '
        'the noisy text. Input classes of open findings are kept out by construction '
        '(excluded_by_construction counts them; VERIF_SYNTAX_EXCLUDE_<NAME>=0 lets one in).')
ASSUMPTIONS = ['comment-free statement texts are computed from the generator\'s own token '
               'stream, not by the parser\'s RemoveComments',
               'shared object built by lv/cppbuild.py from the current logica_parse.cpp']

# FINDING cpp_array_subscript_heritage (C15 and C06, C++ parser only): the array
# expression of `l[i]` gets a heritage of its own (the text `l`, span 0..1) instead of
# its span in the statement (ParseArraySub builds a fresh SpanString from the name).
# While the exclusion is on (VERIF_SYNTAX_EXCLUDE_ARRAYSUB_SPAN=0 switches it off), the
# span checks skip exactly that node of C++ trees (counted); `l[i]` itself stays in the
# generated programs.
EXCLUDE_ARRAYSUB_SPAN = syntaxgen.excluded('ARRAYSUB_SPAN')
KEY_ARRAYSUB = 'cpp_array_subscript_heritage'


def norm_layout(s):
    """s without whitespace and parentheses outside string literals / backticks."""
    out = []
    i, n = 0, len(s)
    while i < n:
        c = s[i]
        if s.startswith('"""', i):
            j = s.find('"""', i + 3)
            j = n if j < 0 else j + 3
            out.append(s[i:j])
            i = j
        elif c == '"' or c == '`':
            j = s.find(c, i + 1)
            j = n if j < 0 else j + 1
            out.append(s[i:j])
            i = j
        elif c == "'":
            j = i + 1
            while j < n and s[j] != "'":
                j += 2 if s[j] == '\\' else 1
            j = min(n, j + 1)
            out.append(s[i:j])
            i = j
        elif c.isspace() or c in '()':
            i += 1
        else:
            out.append(c)
            i += 1
    return ''.join(out)


def heritage_pairs(a, b, out, path=''):
    """corresponding (path, heritage in a, heritage in b) of two structurally equal trees."""
    if isinstance(a, dict) and isinstance(b, dict):
        for k in a:
            if k in b:
                if k in ('expression_heritage', 'full_text'):
                    out.append((path + '/' + k, a[k], b[k]))
                else:
                    heritage_pairs(a[k], b[k], out, path + '/' + str(k))
    elif isinstance(a, list) and isinstance(b, list):
        for i, (x, y) in enumerate(zip(a, b)):
            heritage_pairs(x, y, out, path + '/%d' % i)
    return out


def atom_nodes(n, out, path=''):
    """expression nodes that are a variable / predicate / boolean / null literal."""
    if isinstance(n, dict):
        if 'expression_heritage' in n and ('variable' in n or 'literal' in n):
            out.append((path, n))
        for k, v in n.items():
            atom_nodes(v, out, path + '/' + str(k))
    elif isinstance(n, list):
        for i, v in enumerate(n):
            atom_nodes(v, out, path + '/%d' % i)
    return out


def atom_text(node):
    """the source text an atom node must have come from (None: not determined)."""
    if 'variable' in node:
        return str(node['variable']['var_name'])
    lit = node['literal']
    if 'the_predicate' in lit:
        return str(lit['the_predicate']['predicate_name'])
    if 'the_bool' in lit:
        return str(lit['the_bool']['the_bool'])
    if 'the_null' in lit:
        return 'null'
    return None


def check_tree(tree, mode, which, allowed, strings, text, excluded=None, renamed=False):
    """(b) and (c) on one accepted tree.  renamed: the tree comes from a file tree, where
    imported / file-local predicate names are rewritten (`P` -> `Util_P`) while their
    spans keep reading the source: predicate atoms are not compared with their spans."""
    fails = []
    seen = set()
    for path, h in parsers.heritage_strings(tree, []):
        key = path.rsplit('/', 1)[-1]
        if mode == 'CPP' and key == 'expression_heritage' and h.heritage == str(h) and \
                h.heritage not in allowed and parsers.is_array_operand(tree, path):
            # the input class of finding cpp_array_subscript_heritage
            if EXCLUDE_ARRAYSUB_SPAN:
                if excluded is not None and 'finding:' + KEY_ARRAYSUB not in excluded:
                    excluded.append('finding:' + KEY_ARRAYSUB)        # once per case
            elif KEY_ARRAYSUB not in seen:
                seen.add(KEY_ARRAYSUB)
                fails.append((KEY_ARRAYSUB, '%s %s text, node %s = %r: its heritage is %r, '
                              'not the statement it stands in\ntext:\n%s' % (
                                  mode, which, path, str(h), h.heritage, text)))
            continue
        if h.heritage[h.start:h.stop] != str(h):
            b = 'span_not_literal:%s:%s' % (mode, parsers.path_class(path))
            if b not in seen:
                seen.add(b)
                fails.append((b, '%s %s text, node %s: span [%d:%d] of its heritage is %r '
                              'but the node text is %r\nheritage: %r\ntext:\n%s' % (
                                  mode, which, path, h.start, h.stop,
                                  h.heritage[h.start:h.stop], str(h), h.heritage, text)))
        elif key in ('expression_heritage', 'full_text') and h.heritage not in allowed:
            b = 'span_heritage_not_statement:%s:%s' % (mode, parsers.path_class(path))
            if b not in seen:
                seen.add(b)
                fails.append((b, '%s %s text, node %s = %r: its heritage %r is not the text '
                              'of a statement\ntext:\n%s' % (mode, which, path, str(h),
                                                             h.heritage, text)))
    for path, node in atom_nodes(tree, []):
        h = node['expression_heritage']
        want = atom_text(node)
        if renamed and 'literal' in node and 'the_predicate' in node['literal']:
            continue
        if want is not None and norm_layout(str(h)) != want:
            b = 'span_wrong_text:%s:%s' % (mode, parsers.path_class(path))
            if b not in seen:
                seen.add(b)
                fails.append((b, '%s %s text, node %s is the atom %r but its source span '
                              'reads %r\ntext:\n%s' % (mode, which, path, want, str(h),
                                                        text)))
    got = set(parsers.the_strings(tree, []))
    exp = set(strings)
    if got != exp:
        fails.append(('string_content:%s' % mode,
                      '%s %s text: literal contents differ\n  only in tree: %s\n  only '
                      'generated: %s\ntext:\n%s' % (
                          mode, which, json.dumps(sorted(got - exp)),
                          json.dumps(sorted(exp - got)), text)))
    return fails


# Open known finding: `bar > 1!=p` / `bar > "a"!=p` (a compact `!=` right after a literal
# or a closing bracket, as the right operand of another comparison) is rejected by both
# parsers, `bar > 1 !=p` is accepted: a blank between two tokens decides.  While it is
# open syntaxgen prints no compact `!=` (VERIF_SYNTAX_EXCLUDE_COMPACT_NEQ=0 re-derives it).
KEY_COMPACT_NEQ = 'compact_neq_after_literal'


def compact_neq_after_atom(case):
    import re
    text = case.get('base_neutral') or case['base']
    noisy = case['noisy']
    pat = re.compile(r'["\'0-9)\]]!=')
    return bool(pat.search(text)) and len(pat.findall(noisy)) < len(pat.findall(text))


def evaluate_pair(case):
    """-> (fails, info) for the texts case['base'] / case['noisy']."""
    fails = []
    info = {'excluded': []}
    strings = case['strings']
    root = syntaximport.write_tree(case['files']) if case.get('files') else None
    for mode in ('PY', 'CPP'):
        sb, tb = parsers.parse_one(case['base'], mode, root)
        sn, tn = parsers.parse_one(case['noisy'], mode, root)
        info[mode] = (sb, sn)
        if sb != 'ok':
            info[mode + '_base_msg'] = tb
            # (c) the generator's programs are acceptable; if this one is not, but the
            # same text with every literal's content replaced by plain letters is, then
            # characters inside a literal were treated as syntax
            if sn == 'ok':
                what = '%s:%s' % (sb, tb)
                if compact_neq_after_atom(case):
                    what = KEY_COMPACT_NEQ      # open known finding (see below)
                fails.append(('noise_accepted_base_rejected:%s:%s' % (mode, what),
                              '%s parser rejects the base text (%s: %s) but accepts its '
                              'layout variant\nbase:\n%s\nnoisy:\n%s' % (
                                  mode, sb, tb, case['base'], case['noisy'])))
            if case.get('base_neutral') is not None:
                sx, _ = parsers.parse_one(case['base_neutral'], mode, root)
                if sx == 'ok':
                    fails.append(('literal_content_rejected:%s:%s:%s' % (mode, sb, tb),
                                  '%s parser rejects the base text (%s: %s) but accepts it '
                                  'with the contents of its string literals replaced by '
                                  'letters\nbase:\n%s\nneutral:\n%s' % (
                                      mode, sb, tb, case['base'], case['base_neutral'])))
            continue
        fails += check_tree(tb, mode, 'base', set(case['allowed_base']), strings,
                            case['base'], info['excluded'], root is not None)
        if sn != 'ok':
            fails.append(('noise_rejected:%s:%s:%s' % (mode, sn, tn),
                          '%s parser accepts the base text but the layout variant is: %s '
                          '(%s)\nbase:\n%s\nnoisy:\n%s' % (mode, sn, tn, case['base'],
                                                            case['noisy'])))
            continue
        a, b = parsers.strip_heritage(tb), parsers.strip_heritage(tn)
        if a != b:
            d = parsers.first_diff(a, b)
            fails.append(('tree_changed:%s:%s' % (mode, parsers.path_class(d[0])),
                          '%s parser: layout changed the tree at %s\n  base : %s\n  noisy: '
                          '%s\nbase:\n%s\nnoisy:\n%s' % (
                              mode, d[0], json.dumps(d[1], default=str)[:500],
                              json.dumps(d[2], default=str)[:500], case['base'],
                              case['noisy'])))
        else:
            for path, x, y in heritage_pairs(tb, tn, []):
                if norm_layout(str(x)) != norm_layout(str(y)):
                    fails.append((
                        'heritage_text_changed:%s:%s' % (mode, parsers.path_class(path)),
                        '%s parser, node %s: heritage text differs beyond layout\n  base : '
                        '%r\n  noisy: %r\nbase:\n%s\nnoisy:\n%s' % (
                            mode, path, str(x), str(y), case['base'], case['noisy'])))
                    break
        fails += check_tree(tn, mode, 'noisy', set(case['allowed_noisy']), strings,
                            case['noisy'], info['excluded'], root is not None)
    if root is not None:
        syntaximport.remove_tree(root)
    return fails, info


def evaluate(case):
    """-> (fails, info).  A case whose noisy text contains the input class of a layout
    finding (only generated with that finding's exclusion switched off, or written by
    hand as a repro) carries `alt`: {finding key or 'a+b': {'noisy', 'allowed_noisy'}},
    the same noisy text without that layout.  Failures that disappear there are the
    finding's: they are reported under its key (several keys: 'layout:quirk:a+b')."""
    fails, info = evaluate_pair(case)
    layout_fails = [f for f in fails if f[0] != KEY_ARRAYSUB]
    if layout_fails and case.get('alt'):
        for key in sorted(case['alt'], key=lambda k: (k.count('+'), k)):
            c2 = dict(case)
            c2.update(case['alt'][key])
            f2, _ = evaluate_pair(c2)
            if not [f for f in f2 if f[0] != KEY_ARRAYSUB]:
                bucket = key if '+' not in key else 'layout:quirk:' + key
                fails = [f for f in fails if f[0] == KEY_ARRAYSUB] + [
                    (bucket, 'fails only with the layout of %s (%s):\n%s' % (
                        key, ', '.join(sorted(set(b for b, _ in layout_fails))),
                        layout_fails[0][1]))]
                break
    return fails, info


IMPORT_SHARE = 6            # roughly one case in ten is the main file of an import tree


def make_case(rng):
    files, file_allowed = None, set()
    if rng.randrange(IMPORT_SHARE) == 0:
        tree = syntaximport.gen_tree(rng)
        files, file_allowed = syntaximport.render_modules(tree, rng)
        stmts = tree['mods'][0]['stmts']
        strings = [x for i in tree['reachable'] for x in tree['mods'][i]['strings']]
        feats = set(tree['feats'])
        excl = {}
        if syntaximport.EXCLUDE_IMPORT_LAYOUT:
            excl['finding:' + syntaximport.RISK_IMPORT] = sum(
                1 for x in tree['mods'][0]['is_import'] if x)
    else:
        stmts, strings, feats, excl = syntaxgen.generate(rng)
    t0 = rng.random() < 0.5
    base = noise.render(stmts, trailing=t0)
    noisy = noise.render(stmts, rng, p_noise=[0.1, 0.3, 0.6][rng.randrange(3)],
                         p_paren=[0.0, 0.15, 0.4][rng.randrange(3)],
                         trailing=(not t0) if rng.random() < 0.7 else t0)
    excluded = dict(excl)
    if noisy.stats.get('excluded_den_paren'):
        excluded['finding:' + noise.RISK_DEN] = noisy.stats['excluded_den_paren']
    case = {'base': base.text, 'noisy': noisy.text, 'strings': strings,
            'allowed_base': sorted(base.allowed_heritage() | file_allowed),
            'allowed_noisy': sorted(noisy.allowed_heritage() | file_allowed)}
    if files is not None:
        case['files'] = files
    if strings:
        case['base_neutral'] = ''.join(
            c[0] + ('"s"' if c[2].kind == 'str' else c[2].text) for c in base.cells) + \
            base.tail[0]
    risks = noisy.risks()
    if risks:
        combos = [[r] for r in risks] + ([risks] if len(risks) > 1 else [])
        case['alt'] = {}
        for names in combos:
            r2 = noisy.without(names)
            case['alt']['+'.join(names)] = {
                'noisy': r2.text,
                'allowed_noisy': sorted(r2.allowed_heritage() | file_allowed)}
    stats = dict(noisy.stats)
    stats['trailing_toggled'] = int(base.text.rstrip().endswith(';') !=
                                    noisy.text_nocomment.rstrip().endswith(';'))
    return case, sorted(feats), excluded, stats


def shard(ctx, col):
    parsers.setup()
    from hypothesis import strategies as st

    def one(rng):
        case, feats, excluded, stats = make_case(rng)
        for k, v in excluded.items():
            for _ in range(v):
                col.exclude(k)
        fails, info = evaluate(case)
        for k in info['excluded']:
            col.exclude(k)
        labels = ['feat:' + f for f in feats]
        labels += ['noise:' + k for k, v in stats.items() if v and not k.startswith('excl')]
        for mode in ('PY', 'CPP'):
            sb, sn = info[mode]
            if sb != 'ok':
                labels.append('base_rejected:%s' % mode)
                if sn == 'ok':
                    labels.append('base_rejected_noisy_accepted:%s' % mode)
        ok = all(info[m] == ('ok', 'ok') for m in ('PY', 'CPP'))
        base_ok = all(info[m][0] == 'ok' for m in ('PY', 'CPP'))
        syn = any(any(ch in s for ch in ',;:|~()[]{}#') or '/*' in s
                  for s in case['strings'])
        if syn:
            labels.append('literal_with_syntax_chars')
        if any(ord(ch) > 127 for s in case['strings'] for ch in s):
            labels.append('literal_non_ascii')
        n_ins = stats.get('insertions', 0) + stats.get('paren_expr', 0) + \
            stats.get('paren_prop', 0)
        nt = base_ok and ((n_ins >= 3 and stats.get('comment', 0) >= 1) or syn)
        if ok:
            labels.append('accepted_both')
        if fails:
            labels.append('failed')
        col.case(case['noisy'], nt, labels,
                 sample={'base': case['base'], 'noisy': case['noisy'],
                         'strings': case['strings'], 'noise': stats})
        for bucket, detail in fails:
            col.fail(bucket, case, detail)
    try:
        core.hyp_run(one, st.randoms(use_true_random=True), ctx.budget, ctx.hyp_seed)
    finally:
        syntaximport.cleanup()


def check_case(case):
    """A stored case carries the statement texts known by construction
    (allowed_base / allowed_noisy).  A hand-written case may omit them: then the texts
    must be free of comments and of ';' inside literals, and statements are the stripped
    pieces between ';' (plus the `-->` rewrites)."""
    global EXCLUDE_ARRAYSUB_SPAN
    parsers.setup()
    case = dict(case)
    case.setdefault('strings', [])
    if 'noisy' not in case:
        case['noisy'] = case['base']
        if 'allowed_base' in case:
            case.setdefault('allowed_noisy', case['allowed_base'])
    for which in ('base', 'noisy'):
        if 'allowed_' + which not in case:
            case['allowed_' + which] = naive_statements(case[which])
    if case.get('alt'):
        case['alt'] = {k: dict(v) for k, v in case['alt'].items()}
        for v in case['alt'].values():
            if 'allowed_noisy' not in v:
                v['allowed_noisy'] = naive_statements(v['noisy'])
    # `with_findings`: [keys] switches the exclusions that act inside the oracle off for
    # this case (repro of an open finding)
    saved = EXCLUDE_ARRAYSUB_SPAN
    if KEY_ARRAYSUB in (case.get('with_findings') or ()):
        EXCLUDE_ARRAYSUB_SPAN = False
    try:
        fails, _ = evaluate(case)
    finally:
        EXCLUDE_ARRAYSUB_SPAN = saved
        syntaximport.cleanup()
    return fails


def naive_statements(text):
    out = set()
    for st in text.split(';'):
        st = st.strip()
        if not st:
            continue
        out.add(st)
        if '-->' in st:
            i = st.index('-->')
            out.add(st[:i] + ' = ' + st[i + 3:])
            out.add('@CompileAsUdf(%s)' % st[:st.index('(')].strip())
    return sorted(out)


def minimise(case, bucket):
    """Drop whole statements (pieces separated by ';' at the same index in base and
    noisy text are not aligned in general, so only the cheap reduction is done: keep the
    case, but try the base text alone when the failure does not need the noisy one)."""
    parsers.setup()
    alone = dict(case)
    alone['noisy'] = case['base']
    alone['allowed_noisy'] = case['allowed_base']
    try:
        if any(b == bucket for b, _ in evaluate(alone)[0]):
            return alone
    except Exception:  # pylint: disable=broad-exception-caught
        pass
    return case


def known_match(entry, bucket):
    """An open finding's key names the root cause; the bucket prefixes it with the oracle
    branch and the parser (PY / CPP)."""
    return bucket == entry['key'] or bucket.endswith(':' + entry['key'])
