"""C07: results do not depend on the textual order or naming used in a program."""
from lv import core, model, gen, drive, xform
from lv.props import common

ID = 'C07'
BUDGET = {'quick': 320, 'thorough': 8000}
RULE = ('programs from the typed generator (core + aggregation + negation + injection '
        'profile); per program up to 3 variants drawn from: permutation of statements, '
        'facts, conjuncts (also inside combines / negations) and disjuncts; consistent '
        'renaming of the variables of every rule and of injectible predicates (names may '
        'collide across rules); bijective renaming of predicates that changes their '
        'lexicographic order. Oracle: every intensional predicate of the variant, run on '
        'SQLite, equals the reference value of the original (List as multiset, Set as '
        'set, ArgMin/ArgMax any valid tie), which the original text is checked against '
        'too. Non-trivial = variant text differs, emitted SQL differs from the '
        'original\'s and the result is non-empty; distinct by (variant text, predicate).')
ASSUMPTIONS = ['reference evaluator lv/ref.py arbitrates', 'CPython sqlite3',
               'recursion / functor programs are covered by C03 / C04 variants']
OPTS = dict(p_colnames=0.0, p_head_perm=0.2, p_spread_edb=0.35, p_neg=0.25, p_agg=0.35, p_distinct=0.4, p_null_fact=0.03,
            p_or=0.3, p_fcall=0.1, p_sibling_reuse=0.4, p_feed_sibling=0.3,
            agg_ops=('Sum', 'Min', 'Max', '+', 'List', 'Set', 'ArgMin', 'ArgMax', 'ArgMax2',
                     'ArgMin2'),
            pred_agg_ops_n=('Sum', 'Min', 'Max', 'Count', '+', 'List', 'Set', 'ArgMin',
                            'ArgMax', 'ArgMax2', 'ArgMin2', 'ArgMax3'),
            pred_agg_ops_s=('Min', 'Max', 'List', 'Set', 'ArgMax', 'Count', 'ArgMin2'),
            n_idb=(2, 3), nest_depth=2, n_inj=(0, 2))
KINDS = ('permute', 'alpha', 'preds', 'all')


def make_variant(prog, kind, rng):
    m = None
    p = prog
    if kind in ('permute', 'all'):
        p = xform.permute(p, rng)
    if kind in ('alpha', 'all'):
        p = xform.alpha_rename(p, rng)
    if kind in ('preds', 'all'):
        p, m = xform.rename_preds(p, rng)
    return p, m


def check_variant(prog, variant, m, text0=None):
    res = []
    text0 = text0 or model.print_program(prog)
    text2 = model.print_program(variant)
    try:
        rules0 = drive.parse_rules(text0)
    except Exception:
        rules0 = None
    try:
        rules2 = drive.parse_rules(text2)
    except Exception:
        rules2 = None
    for pred in [p for p in prog['preds'] if p.startswith('I')]:
        pred2 = m.get(pred, pred) if m else pred
        st, cols, exp, info = common.reference(prog, pred)
        if st != 'ok':
            res.append(('inconclusive', st, '', pred, []))
            continue
        i0 = {}
        st0, b0, d0 = common.compiled_vs(cols, exp, text0, pred, rules0, quirk_prog=prog,
                                         info=i0)
        i2 = {}
        if st0 != 'ok':
            # the original itself disagrees with the reference.  If the variant agrees
            # with it, the result depends on order / naming: C07's business.  If both
            # disagree (or the deviation is a recorded engine quirk) it is C01/C02's.
            if st0 == 'fail' and ':quirk:' not in (b0 or '') and \
                    not (b0 or '').startswith('rejected_valid'):   # a refusal is C01's (D11)
                st2, b2, d2 = common.compiled_vs(cols, exp, text2, pred2, rules2,
                                                 quirk_prog=None, cols_any_order=True,
                                                 info=i2)
                if st2 == 'ok':
                    res.append(('fail', 'original_differs_from_variant:' + b0,
                                'the variant agrees with the reference, the original does '
                                'not:\n%s\n--- variant\n%s' % (d0, text2), pred, []))
                    continue
            res.append(('inconclusive', 'base_' + (b0 or st0).split(':')[0], '', pred, []))
            continue
        st2, b2, d2 = common.compiled_vs(cols, exp, text2, pred2, rules2, quirk_prog=None,
                                         cols_any_order=True,
                                         info=i2)
        labels = []
        sql_differs = i0.get('sql') != i2.get('sql')
        if sql_differs:
            labels.append('sql_differs')
        if st2 == 'ok':
            nt = bool(exp) and sql_differs and text0 != text2
            res.append(('ok', None, '', pred, labels + (['nontrivial'] if nt else [])))
        elif st2 == 'inconclusive':
            res.append(('inconclusive', b2, '', pred, labels))
        else:
            res.append(('fail', b2, 'original (agrees with reference):\n%s\nvariant: %s'
                        % (text0, d2), pred, labels))
    return res


def shard(ctx, col):
    drive.enable_library_cache()

    def one(rng):
        prog = gen.gen_program(rng, **OPTS)
        text0 = model.print_program(prog)
        kinds = rng.sample(KINDS, 3)
        for kind in kinds:
            variant, m = make_variant(prog, kind, rng)
            text2 = model.print_program(variant)
            for st, bucket, detail, pred, labels in check_variant(prog, variant, m, text0):
                if st == 'inconclusive':
                    col.inconc(bucket)
                    continue
                labels = labels + ['kind:' + kind]
                if st == 'ok':
                    col.case((text2, pred), 'nontrivial' in labels, labels,
                             sample={'kind': kind, 'predicate': pred, 'original': text0,
                                     'variant': text2})
                else:
                    col.case((text2, pred), False, labels + ['failed'])
                    col.fail(bucket,
                             {'prog': model.prog_to_json(prog),
                              'variant': model.prog_to_json(variant),
                              'map': m, 'pred': pred}, detail)
    core.hyp_run(one, common.strategy(), ctx.budget, ctx.hyp_seed)


def check_case(case):
    drive.enable_library_cache()
    prog = model.prog_from_json(case['prog'])
    variant = model.prog_from_json(case['variant'])
    prog['preds'] = [case['pred']]
    out = []
    for st, bucket, detail, pred, labels in check_variant(prog, variant, case.get('map')):
        if st == 'fail':
            out.append((bucket, detail))
    return out
