"""C08: plan-selecting annotations never change results; injection = body substitution."""
from lv import core, model, gen, drive, xform, ref
from lv.props import common

ID = 'C08'
BUDGET = {'quick': 130, 'thorough': 5000}
RULE = ('programs from the typed generator (2-4 intermediate concrete predicates, '
        'injectible-only predicates whose parameter/local names clash with caller '
        'variables, aggregation and negation); per program up to 6 assignments of '
        '{none, @NoInject, @With, @NoWith, @NoInject+@NoWith, @NoInject+@With, @Ground} to '
        'every concrete predicate (always all-none, all-@NoInject, all-@Ground, then drawn '
        'mixes); every intensional predicate under every assignment is run on SQLite and '
        'compared with the reference evaluator, in which a call to an injectible '
        'predicate is its body with the arguments substituted. Non-trivial = the SQL '
        'text differs from the unannotated compile and the predicate has >= 1 row; '
        'distinct by (annotated text, predicate).')
ASSUMPTIONS = ['reference evaluator lv/ref.py is the oracle', 'CPython sqlite3',
               '@Ground uses the in-memory logica_test database SQLite attaches by default',
               'composite values compared after JSON canonicalisation (double encoding '
               'across table boundaries is a rendering difference)']
OPTS = dict(p_colnames=0.0, p_neg=0.2, p_agg=0.3, p_distinct=0.35, p_null_fact=0.03,
            p_or=0.25, p_fcall=0.12, p_sibling_reuse=0.3, p_feed_sibling=0.2,
            agg_ops=('Sum', 'Min', 'Max', '+'), n_idb=(3, 4), n_inj=(1, 3),
            nest_depth=2, p_two_rules=0.25)
CHOICES = ((), ('@NoInject',), ('@With',), ('@NoWith',), ('@NoInject', '@NoWith'),
           ('@NoInject', '@With'), ('@Ground',))


def assignments(prog, rng, k=6):
    preds = list(prog['preds'])
    out = [('none', {}), ('all_noinject', {p: ('@NoInject',) for p in preds}),
           ('all_ground', {p: ('@Ground',) for p in preds})]
    while len(out) < k:
        out.append(('mix', {p: rng.choice(CHOICES) for p in preds}))
    return out


def annotate(prog, asg):
    p = dict(prog)
    ann = list(prog.get('ann', []))
    for pred in sorted(asg):
        for a in asg[pred]:
            ann.append('%s(%s);' % (a, pred))
    p['ann'] = ann
    return p


def check_assignment(prog, asg, base_sql=None):
    res = []
    p2 = annotate(prog, asg)
    text = model.print_program(p2)
    try:
        rules = drive.parse_rules(text)
    except Exception:
        rules = None
    for pred in [p for p in prog['preds'] if p.startswith('I')]:
        st, cols, exp, info = common.reference(prog, pred)
        if st != 'ok':
            res.append(('inconclusive', st, '', pred, [], None))
            continue
        i2 = {}
        st2, b2, d2 = common.compiled_vs(cols, exp, text, pred, rules, quirk_prog=prog,
                                         info=i2)
        res.append((st2, b2, d2, pred, [], (i2.get('sql'), len(exp))))
    return res, text


def shard(ctx, col):
    drive.enable_library_cache()

    def one(rng):
        prog = gen.gen_program(rng, **OPTS)
        for l in prog['labels']:
            col.label('prog:' + l)
        base = {}
        for name, asg in assignments(prog, rng):
            res, text = check_assignment(prog, asg)
            used = sorted(set(a for v in asg.values() for a in v))
            for st, bucket, detail, pred, labels, extra in res:
                if st == 'inconclusive':
                    col.inconc(bucket)
                    continue
                labels = ['asg:' + name] + ['ann:' + a for a in used]
                if st == 'ok':
                    sql, n = extra
                    if name == 'none':
                        base[pred] = sql
                    changed = name != 'none' and sql != base.get(pred)
                    if changed:
                        labels.append('plan_changed')
                    col.case((text, pred), changed and n > 0, labels,
                             sample={'assignment': {k: list(v) for k, v in asg.items() if v},
                                     'predicate': pred, 'program': text})
                else:
                    col.case((text, pred), False, labels + ['failed'])
                    col.fail(bucket, {'prog': model.prog_to_json(prog), 'asg': asg,
                                      'pred': pred}, detail)
    core.hyp_run(one, common.strategy(), ctx.budget, ctx.hyp_seed)


def check_case(case):
    drive.enable_library_cache()
    prog = model.prog_from_json(case['prog'])
    prog['preds'] = [p for p in case['asg']] if case.get('asg') else prog.get('preds', [])
    asg = {k: tuple(v) for k, v in case['asg'].items()}
    allp = []
    for r in prog['rules']:
        if r['pred'] not in allp:
            allp.append(r['pred'])
    asg = {k: v for k, v in asg.items() if k in allp}
    prog['preds'] = [case['pred']]
    res, text = check_assignment(prog, asg)
    return [(b, d) for st, b, d, pred, labels, extra in res if st == 'fail']


def minimise(case, bucket):
    return common.minimise_program(case, bucket, check_case)
