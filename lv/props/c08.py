"""C08: plan-selecting annotations never change results; injection = body substitution.

Per generated program: the reference rows of every intensional predicate (lv/ref.py, in
which a call of an injectible predicate IS its body with the arguments substituted,
capture-avoiding), then per annotation assignment (a) every intensional predicate compiled
from a FRESH LogicaProgram and run on SQLite, (b) a history: the same predicates compiled
one after another from ONE LogicaProgram object in a drawn order (what a notebook / a test
harness / `logica.py f.l run P,Q` does), each run on SQLite.  Every result must equal the
reference rows, hence each other.
"""
import copy
import traceback

from lv import core, model, gen, drive, canon
from lv.props import common

ID = 'C08'
BUDGET = {'quick': 160, 'thorough': 3000}
RULE = ('programs from the typed generator: 3-4 intermediate concrete predicates, half of them '
        'drawn by the general rule generator (joins, aggregation, negation, aggregating '
        'expressions, disjunction ...), half of them small rules built around injection '
        '(`I(x, a, b) :- E(x), a == F(x), b == F(a), J(b, lo, hi)`: 1-3 calls of injectibles, '
        'the same one twice, nested F(F(x)), the output of one call feeding the next, reading '
        'an earlier such predicate that is itself injected unless annotated; or `I(k, lo, hi) '
        ':- E(k), lo = Min{y :- T(k, y)}, hi = Max{y :- T(y, k)}, ~T(k, y)`: sibling scopes '
        'sharing a local name, nested scopes reading the enclosing local), over fact tables '
        'of which about half are dense (closed 3-value domain, so F(F(x)) stays defined); '
        'injectible-only predicates and functions, 60 % of them with combines / negations in '
        'their bodies (`F(x) = Sum{y :- E(x, y)}`, `J(x, lo, hi) :- lo = Min{y :- E(x, y)}, hi '
        '= Max{y :- E(y, x)}, ~E(x, x)`); caller variables named like the callees\' parameters '
        'and (shared) locals; 4 programs in 10 with one @OrderBy (total) + @Limit predicate '
        'that other rules read (never injectable); per program 5 assignments of {none, '
        '@NoInject, @With, @NoWith, @NoInject+@NoWith, @NoInject+@With, @Ground} to every '
        'concrete predicate (always all-none, all-@NoInject, all-@Ground, then two drawn '
        'mixes).  Under every assignment every intensional predicate is compiled from a fresh '
        'program object and run on SQLite, and (all-none and the mixes) additionally all of '
        'them are compiled one after another from ONE program object in a drawn order, '
        'sometimes one of them twice (history), each run on SQLite; every result is compared '
        'with the reference evaluator, in which a call to an injectible predicate is its body '
        'with the arguments substituted (capture-avoiding).  One evaluation = (annotated text, '
        'predicate) fresh, or (annotated text, order) for a history.  Non-trivial = the SQL '
        'text differs from the unannotated compile and the predicate has >= 1 row (fresh), or '
        'a history of >= 2 predicates with >= 1 non-empty result; distinct by that key.  '
        'Labels prog:shape:* count the programs that contain each hazard shape.')
ASSUMPTIONS = ['reference evaluator lv/ref.py is the oracle', 'CPython sqlite3',
               '@Ground uses the in-memory logica_test database SQLite attaches by default',
               'composite values compared after JSON canonicalisation (double encoding '
               'across table boundaries is a rendering difference)',
               'a history re-uses one LogicaProgram object; each predicate of it is executed '
               'on its own fresh SQLite connection']
OPTS = dict(p_colnames=0.0, p_neg=0.2, p_agg=0.25, p_distinct=0.3, p_null_fact=0.0,
            p_or=0.15, p_fcall=0.1, p_sibling_reuse=0.4, p_feed_sibling=0.2,
            p_sibling_reuse_neg=0.5,
            agg_ops=('Sum', 'Min', 'Max', '+'), n_idb=(3, 4), n_inj=(1, 3),
            nest_depth=2, p_two_rules=0.2,
            p_aggx=0.03, p_aggx_nobody=0.3, p_agg_nobody=0.04,
            p_inj_combine=0.6, p_inj_extra=0.35, p_fcall_nest=0.35, p_name_clash=0.4,
            p_call_idb=0.2, p_reuse_pick=0.6, p_inj_feed=0.5, p_hazard_rule=0.5,
            p_graph_edb=0.7, p_prop=0.08, null_in_single_fact=False, inj_distinct_args=True)
CHOICES = ((), ('@NoInject',), ('@With',), ('@NoWith',), ('@NoInject', '@NoWith'),
           ('@NoInject', '@With'), ('@Ground',))
N_ASSIGNMENTS = 5
P_LIMITED = 0.4          # share of programs with one @OrderBy + @Limit predicate
HISTORY_FOR = ('none', 'mix')        # assignments whose predicates are also compiled as a history


def assignments(prog, rng, k=N_ASSIGNMENTS):
    preds = list(prog['preds'])
    out = [('none', {}), ('all_noinject', {p: ('@NoInject',) for p in preds}),
           ('all_ground', {p: ('@Ground',) for p in preds})]
    while len(out) < k:
        out.append(('mix', {p: rng.choice(CHOICES) for p in preds}))
    return out


def annotate(prog, asg):
    p = dict(prog)
    ann = list(prog.get('ann', []))
    for pred in sorted(asg):
        for a in asg[pred]:
            ann.append('%s(%s);' % (a, pred))
    p['ann'] = ann
    return p


def add_limited(prog, refs, rng):
    """One single-rule, non-distinct intensional predicate that other rules read gets
    `@OrderBy(T, <every column>)` (a total order up to identical rows) and `@Limit(T, k)`,
    0 < k < number of its rows: such a predicate must never be injected, whatever plan
    annotations say.  -> (program, labels); the maps order_by / limit are what the
    reference evaluator reads."""
    count, reads = {}, {}
    for r in prog['rules']:
        count[r['pred']] = count.get(r['pred'], 0) + 1
        for l in common.walk_lits(r['body']):
            if l[0] == 'call' and l[1] != r['pred']:
                reads[l[1]] = reads.get(l[1], 0) + 1
    cands = []
    for r in prog['rules']:
        p = r['pred']
        if not p.startswith('I') or count[p] != 1 or r.get('distinct') or not reads.get(p):
            continue
        if r.get('value') is not None or any(h[0] == 'AGG' for _, h in r['head']):
            continue
        st, cols, rows = refs.get(p, ('none', None, None))
        if st != 'ok' or len(rows) < 2 or len(set(map(repr, rows))) < 2:
            continue
        if any(v is None or isinstance(v, (list, dict)) for row in rows for v in row):
            continue
        cands.append((p, r, rows))
    if not cands:
        return prog, []
    p, r, rows = rng.choice(cands)
    keys = [(f, rng.random() < 0.4) for f, _ in r['head']]
    rng.shuffle(keys)
    k = rng.randint(1, len(rows) - 1)
    spell = ['"%s%s"' % ('col%d' % f if isinstance(f, int) else f, ' desc' if d else '')
             for f, d in keys]
    p2 = dict(prog)
    p2['ann'] = list(prog.get('ann', [])) + ['@OrderBy(%s, %s);' % (p, ', '.join(spell)),
                                             '@Limit(%s, %d);' % (p, k)]
    p2['order_by'] = {p: [[f, d] for f, d in keys]}
    p2['limit'] = {p: k}
    labels = ['limited_predicate']
    if reads[p] >= 2:
        labels.append('limited_predicate_read_twice')
    return p2, labels


def targets(prog):
    return [p for p in prog['preds'] if p.startswith('I')]


def references(prog, preds):
    """{pred: (status, cols, rows)} -- once per program, every assignment shares it."""
    return {p: common.reference(prog, p)[:3] for p in preds}


class Splicer(object):
    """The parse of an annotated text = parse of the annotation lines spliced into the
    parse of the program (one real parse per program instead of one per assignment; the
    first programs of every shard verify the splice against the real parse)."""

    def __init__(self, verify=3):
        self.verify = verify
        self.key = None

    def rules(self, prog, asg, text):
        base_text = model.print_program(prog)
        if self.key != base_text:
            self.key = base_text
            self.base = drive.parse_rules(base_text)
            if self.verify > 0:
                self.verify -= 1
                self.checking = True
            else:
                self.checking = False
        n0 = 1 + len(prog.get('ann', []))
        lines = ['%s(%s);' % (a, pred) for pred in sorted(asg) for a in asg[pred]]
        mid = drive.parse_rules('\n'.join(lines) + '\n') if lines else []
        rules = self.base[:n0] + mid + self.base[n0:]     # consumers deep-copy
        if self.checking:
            import json
            dump = lambda rs: json.dumps(rs, sort_keys=True, default=str)
            if dump(drive.parse_rules(text)) != dump(rules):
                raise AssertionError('spliced parse differs from the real parse')
        return rules


def check_assignment(prog, asg, refs=None, preds=None, splicer=None):
    """Fresh program object per predicate.  -> ([(status, bucket, detail, pred, sql, n)],
    text, rules)."""
    res = []
    p2 = annotate(prog, asg)
    text = model.print_program(p2)
    preds = targets(prog) if preds is None else preds
    refs = refs if refs is not None else references(prog, preds)
    try:
        rules = splicer.rules(prog, asg, text) if splicer else drive.parse_rules(text)
    except AssertionError:
        raise
    except Exception:
        rules = None
    for pred in preds:
        st, cols, exp = refs[pred]
        if st != 'ok':
            res.append(('inconclusive', st, '', pred, None, 0))
            continue
        i2 = {}
        st2, b2, d2 = common.compiled_vs(cols, exp, text, pred, rules, quirk_prog=prog,
                                         info=i2)
        res.append((st2, b2, d2, pred, i2.get('sql'), len(exp)))
    return res, text, rules


def check_history(prog, text, rules, order, refs):
    """All of `order` compiled one after another from ONE LogicaProgram object; each
    executed (own connection) right after its compilation.
    -> [(status, bucket, detail, pred)]"""
    out = []
    try:
        if rules is None:
            rules = drive.parse_rules(text)
        with drive.quiet():
            lp = drive.universe.LogicaProgram(copy.deepcopy(rules), user_flags={})
    except Exception:
        return out                      # the fresh compilations report it
    for i, pred in enumerate(order):
        st, cols, exp = refs[pred]
        hdr = '--- history %s, predicate %s (compiled #%d from one program object)\n%s' % (
            ' '.join(order), pred, i + 1, text)
        try:
            with drive.quiet():
                lp.FormattedPredicateSql(pred)
            got_hdr, rows = drive.execute(lp)
        except drive.Interrupted:
            out.append(('inconclusive', 'sqlite_budget', '', pred))
            continue
        except drive.DIAGNOSTICS as e:
            out.append(('fail', 'history:rejected_valid:%s:%s' % (
                type(e).__name__, common.msg_class(common.first_line(e))),
                '%s\n%s' % (common.first_line(e), hdr), pred))
            continue
        except Exception as e:
            b = 'history:internal:' + drive.exc_frame(e)
            if type(e).__module__ == 'sqlite3':
                b = 'history:internal:%s:%s' % (type(e).__name__,
                                                common.sqlite_msg_class(str(e)))
            out.append(('fail', b, '%s\n%s' % (traceback.format_exc()[-1500:], hdr), pred))
            continue
        if st != 'ok':
            out.append(('inconclusive', st, '', pred))
            continue
        if got_hdr != cols and not (not cols and len(got_hdr) == 1):
            out.append(('fail', 'history:columns_differ',
                        'expected columns %r got %r\n%s' % (cols, got_hdr, hdr), pred))
            continue
        if not cols:
            rows = [() for _ in rows]
        d = canon.rows_match(exp, rows)
        if d is not None:
            out.append(('fail', 'history:rows_differ', '%s\nexpected %r\nactual   %r\n%s' % (
                d, sorted(map(repr, exp))[:12], sorted(map(repr, rows))[:12], hdr), pred))
        else:
            out.append(('ok', None, '', pred))
    return out


def _scope_locals(lit, own):
    if lit[0] == 'agg':
        return (model.body_vars(lit[4]) | model.expr_vars(lit[3])) - own
    if lit[0] == 'neg':
        return model.body_vars(lit[1]) - own
    return set()


def shared_sibling_locals(body, own):
    """Names that are local to >= 2 sibling combines / negations of a body."""
    seen, shared = set(), set()
    for l in body:
        loc = _scope_locals(l, own)
        shared |= loc & seen
        seen |= loc
    return shared


def is_hot(d):
    return (d[0] == 'fun' and any(e[0] == 'aggx' for e in common.walk_exprs_of_expr(d[2]))) \
        or (d[0] == 'rel' and any(l[0] in ('agg', 'neg') for l in d[2]))


def inj_features(prog):
    """Labels: the hazard shapes of injection that the program contains."""
    labels = set()
    inj = prog.get('inj', {})
    hot = {n for n, d in inj.items() if is_hot(d)}
    # callees that may be injected and have sibling scopes sharing a local name
    shared = {}
    for n, d in inj.items():
        if d[0] == 'rel':
            sh = shared_sibling_locals(d[2], model.own_vars(d[2]) | set(d[1]))
            if sh:
                shared[n] = sh
    count = {}
    for r in prog['rules']:
        count[r['pred']] = count.get(r['pred'], 0) + 1
    for r in prog['rules']:
        if r['body'] and count[r['pred']] == 1 and not r.get('distinct') and not any(
                h[0] == 'AGG' for _, h in r['head']) and not (
                r.get('value') is not None and r['value'][0] == 'AGG'):
            sh = shared_sibling_locals(r['body'], model.rule_own_vars(r))
            if sh:
                shared[r['pred']] = sh
    if shared:
        labels.add('shape:callee_sibling_scopes_share_local')
    if hot:
        labels.add('inj_with_combine')
    for r in prog['rules']:
        if not r['body']:
            continue
        calls = []          # (callee, input vars, output vars)
        for l in common.walk_lits(r['body']):
            if l[0] == 'call':
                if l[1] in shared and shared[l[1]] & model.rule_all_vars(r):
                    labels.add('shape:caller_variable_named_like_shared_local')
                if l[1] in hot:
                    k_in = sum(1 for x in inj[l[1]][1]) if inj[l[1]][0] != 'rel' else None
                    d = inj[l[1]]
                    outs_params = {p for p in d[1] if any(
                        x[0] == 'agg' and x[1] == p for x in d[2])}
                    ins, outs = set(), set()
                    for (f, a) in l[2]:
                        if d[1][f] in outs_params and a[0] == 'var':
                            outs.add(a[1])
                        else:
                            ins |= model.expr_vars(a)
                    calls.append((l[1], ins, outs))
            elif l[0] == 'assign' and l[2][0] == 'fcall' and l[2][1] in hot:
                ins = set()
                for f, a in l[2][2]:
                    ins |= model.expr_vars(a)
                calls.append((l[2][1], ins, {l[1]}))
        n = len(calls)
        for e in common.rule_exprs(r):
            if e[0] == 'fcall' and e[1] in hot:
                if any(x[0] == 'fcall' and x[1] in hot
                       for f, a in e[2] for x in common.walk_exprs_of_expr(a)):
                    labels.add('shape:inj_with_combine_nested_call')
                n += 1
        for i, (c1, ins1, outs1) in enumerate(calls):
            for j, (c2, ins2, outs2) in enumerate(calls):
                if i != j and outs1 & ins2:
                    labels.add('shape:inj_with_combine_output_feeds_another')
        if n:
            labels.add('inj_with_combine_called')
        if n >= 2:
            labels.add('inj_with_combine_called_twice_in_rule')
    return labels


def shard(ctx, col):
    drive.enable_library_cache()
    splicer = Splicer()

    def one(rng):
        prog = gen.gen_program(rng, **OPTS)
        for k, v in prog.get('excluded', {}).items():
            col.excluded[k] += v
        for l in prog['labels']:
            col.label('prog:' + l)
        for l in inj_features(prog):
            col.label('prog:' + l)
        preds = targets(prog)
        refs = references(prog, preds)
        if rng.random() < P_LIMITED:
            prog, ll = add_limited(prog, refs, rng)
            if ll:
                refs = references(prog, preds)
            for l in ll:
                col.label('prog:' + l)
        base = {}
        for name, asg in assignments(prog, rng):
            res, text, rules = check_assignment(prog, asg, refs, preds, splicer)
            used = sorted(set(a for v in asg.values() for a in v))
            jasg = {k: list(v) for k, v in asg.items()}
            for st, bucket, detail, pred, sql, n in res:
                if st == 'inconclusive':
                    col.inconc(bucket)
                    continue
                labels = ['asg:' + name] + ['ann:' + a for a in used]
                if st == 'ok':
                    if name == 'none':
                        base[pred] = sql
                    changed = name != 'none' and sql != base.get(pred)
                    if changed:
                        labels.append('plan_changed')
                    col.case((text, pred), changed and n > 0, labels,
                             sample={'assignment': {k: v for k, v in jasg.items() if v},
                                     'predicate': pred, 'program': text})
                else:
                    col.case((text, pred), False, labels + ['failed'])
                    col.fail(bucket, {'prog': model.prog_to_json(prog), 'asg': jasg,
                                      'pred': pred}, detail)
            if name not in HISTORY_FOR:
                continue
            # history: one program object, drawn order
            order = list(preds)
            rng.shuffle(order)
            if rng.random() < 0.3 and order:
                order.append(order[0])          # a predicate compiled a second time
            hres = check_history(prog, text, rules, order, refs)
            nonempty = any(refs[p][0] == 'ok' and refs[p][2] for p in order)
            failed = False
            for st, bucket, detail, pred in hres:
                if st == 'inconclusive':
                    col.inconc('history:' + bucket)
                elif st == 'fail':
                    failed = True
                    col.fail(bucket, {'prog': model.prog_to_json(prog), 'asg': jasg,
                                      'pred': pred, 'order': order}, detail)
            col.case((text, tuple(order)), len(order) >= 2 and nonempty and not failed,
                     ['history', 'history:asg:' + name, 'history:len%d' % len(order)] +
                     (['history:failed'] if failed else []))
    core.hyp_run(one, common.strategy(), ctx.budget, ctx.hyp_seed)


def check_case(case):
    """case: {'prog', 'asg', 'pred'} (fresh compile of pred) or additionally 'order'
    (history on one program object; only the verdicts for 'pred' are reported)."""
    drive.enable_library_cache()
    prog = model.prog_from_json(case['prog'])
    allp = []
    for r in prog['rules']:
        if r['pred'] not in allp:
            allp.append(r['pred'])
    asg = {k: tuple(v) for k, v in (case.get('asg') or {}).items() if k in allp}
    if case.get('order'):
        order = [p for p in case['order'] if p in allp]
        refs = references(prog, sorted(set(order)))
        text = model.print_program(annotate(prog, asg))
        hres = check_history(prog, text, None, order, refs)
        return [(b, d) for st, b, d, pred in hres if st == 'fail' and pred == case['pred']]
    res, text, rules = check_assignment(prog, asg, preds=[case['pred']])
    return [(b, d) for st, b, d, pred, sql, n in res if st == 'fail']


def minimise(case, bucket):
    import os
    if os.environ.get('VERIF_C08_NOMIN'):       # triage: keep the generated program
        return case
    return common.minimise_program(case, bucket, check_case)
