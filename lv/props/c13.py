"""C13: compilation is a deterministic, history-free function of the program.

Variations of the configuration around the same program text / imports / flags:
  (a) fresh interpreters with different PYTHONHASHSEED (one subprocess per seed compiles
      the shard's whole batch; the alternative seed compiles it in the opposite order);
  (b1) the batch is a history itself: sampled members are compiled again alone in a fresh
      interpreter and compared with what the batch produced;
  (b2) in-process histories (Hypothesis RuleBasedStateMachine) compared with the batch
      baseline of the PYTHONHASHSEED=0 interpreter.
A difference seen in (b1)/(b2), or in (a) but not between two single compilations, is
CONFIRMED before it is reported: the recorded history (this state-machine run, the
worker's whole process log, the batch prefix - first their two-step reductions, then the
full list) is replayed in a fresh interpreter and compared with the target compiled
alone; only a difference that no recorded history reproduces stays inconclusive.
Oracle: byte equality of FormattedPredicateSql text, execution.table_to_export_map
(contents) and the set of execution.dependency_edges after masking logical_stop_<digits>.
"""
import json
import os

import hypothesis
from hypothesis import strategies as st
from hypothesis import settings, HealthCheck, Phase
from hypothesis.stateful import RuleBasedStateMachine, rule, precondition, \
    run_state_machine_as_test

from lv import core
from lv.props import c13_lib as L
from lv.props import c13_gen as G

ID = 'C13'
# budget unit = one generated program or one in-process history (half and half);
# the integration corpus is an enumerated sub-domain on top (split by index % shards)
BUDGET = {'quick': 16 * 10, 'thorough': 16 * 260}
WALL = {'quick': 1800, 'thorough': 7200}   # guards for an overloaded machine only
RULE = ('programs = every .l file under integration_tests (golden predicate of the '
        'repository runner; all predicates in the thorough tier; psql->duckdb variants) + '
        'generated programs (recursive components of 1-4 members in every unfolding mode '
        '(vertical, flat, @Recursive depth>20 iterative, mode iterative/diamond, stop:, '
        'satellites; every shard holds one vertically unfolded component of 3-4 members '
        'with two rules each, compiled under 3 (thorough 4) further hash seeds), functor '
        'chains with 1-3 arguments, explicit @Iteration, imports of '
        '1-3 files, user aggregations/functions, plain core-fragment programs, programs '
        'failing with each diagnostic type, programs with tight arithmetic, main files '
        'with the experimental-syntax incantation) on sqlite/duckdb/psql/clickhouse/'
        'default engines. Case kinds: "seeds" = one (program, predicate) compiled in fresh '
        'interpreters under PYTHONHASHSEED 0 and a drawn seed; non-trivial when the '
        'program has a multi-member recursion/iteration/functor/import/udf set or >= 2 '
        'exported tables. "history" = one state-machine run (parse, compile, '
        'compile_failing, compile_incantation, compile_sensitive, reuse_rules, '
        'engine_switch = a program of engine A then a built-in program of engine B != A, '
        'import_switch = two programs importing equally named modules from different '
        'roots) '
        'in the worker process, every produced text compared with the batch baseline; '
        'non-trivial when >= 2 compilations happened and a different program preceded the '
        'last target. "batch_history" = one (program, predicate) of the baseline batch '
        '(which compiled up to 40 programs of up to 9 engines before it) compiled again '
        'alone in a fresh interpreter; non-trivial when a different program preceded it '
        'in the batch. Built-in programs = 2-7 expressions over 40 built-in functions / '
        'infix operators and 0-3 of 12 aggregations whose SQL template is chosen per '
        'dialect, on 8 engines + default; every shard holds three of pairwise different '
        'engines. Budget unit = one generated program or 3 (thorough 2) histories. '
        'Distinct by hash of (program text, predicate, seed) resp. the step list resp. '
        '(texts compiled before, program text, predicate).')
ASSUMPTIONS = ['CPython string hashing is the only effect of PYTHONHASHSEED',
               'a fresh interpreter with PYTHONHASHSEED=0 compiling one program is the '
               'reference configuration (every reported history difference is against it; '
               'the batch baseline only detects)',
               'only logical_stop_<digits> is masked',
               'order of dict keys of table_to_export_map and order of the edge list are '
               'recorded as notes, not compared (consumers treat them as sets)',
               'diagnostic texts are not SQL: only the exception type is compared',
               'open finding D13 (a program object that gained record type definitions '
               'while compiling one predicate repeats them in the preamble of the next) '
               'is executed but not compared; the exclusions are counted']

# ---- the three analysed genuine defects D2, D2B, D3 were repaired in /repo (fix: commits
# 458d533, b8852c3, 916a49b); nothing is excluded any more.  VERIF_C13_EXCLUDE=D2,D2B,D3
# restores an exclusion (only useful to look past a regression of one of them).
_exc = set(x.strip().upper() for x in os.environ.get('VERIF_C13_EXCLUDE', '').split(',')
           if x.strip())
EXCLUDE_D2 = 'D2' in _exc     # statement order of iteration closure follows set order
EXCLUDE_D2B = 'D2B' in _exc   # order of >= 2 iterative components follows set order
EXCLUDE_D3 = 'D3' in _exc     # parse.TOO_MUCH stays on after an incantation main file
# D13 (open finding, 2026-09-24): LogicaProgram.required_type_definitions only grows, so a
# second FormattedPredicateSql on ONE program object (type-checked engines) repeats in its
# typing preamble the record types gathered while the first predicate was compiled.
# Excluded by construction = an 'again' step whose program object has gained type
# definitions since it was created is executed but not compared (counted).
# VERIF_C13_INCLUDE=D13 compares it again; the exclusion ends by itself once
# known_findings.json lists the key as fixed.
D13_KEY = 'history:reused_program_object:type_definitions_carried_over'
_inc = set(x.strip().upper() for x in os.environ.get('VERIF_C13_INCLUDE', '').split(',')
           if x.strip())
EXCLUDE_D13 = 'D13' not in _inc and not any(
    e.get('key') == D13_KEY and e.get('status') == 'fixed' for e in core.load_known('C13'))

# Static cost table (seconds of one golden-predicate compilation, measured once on the
# pinned tree) used ONLY to balance the corpus over shards and to keep slow files out of
# the quick tier / the in-process histories.  Not a timing decision at run time.
COST = {'corpus:psql_graph_coloring_test.l': 42, 'corpus-duck:psql_graph_coloring_test.l': 29,
        'corpus:psql_flow_test.l': 24, 'corpus:clingo_recursive_test.l': 23,
        'corpus:sqlite_shortest_path_test.l': 7.6, 'corpus:duckdb_smoothed_winmove_test.l': 6.2,
        'corpus:sqlite_winmove_test.l': 4.7, 'corpus:clingo_timeout_test.l': 3.8,
        'corpus:reachability_test.l': 3.8, 'corpus:psql_win_move_test.l': 3.6,
        'corpus:manual_coloring_first_test.l': 2.8, 'corpus:sqlite_flat_recursion_test.l': 1.8,
        'corpus-duck:psql_flow_test.l': 1.8, 'corpus:clingo_pipeline_test.l': 1.8,
        'corpus-duck:psql_purchase_test.l': 1.6,
        'corpus:dialects/clickhouse/shipping_funfacts_test.l': 1.6,
        'corpus:strategic_test.l': 1.6, 'corpus:dialects/presto/reachability_test.l': 1.4,
        'corpus:dialects/trino/reachability_test.l': 1.4,
        'corpus:manual_coloring_second_test.l': 1.2}
DEFAULT_COST = 0.6
HEAVY_COST = 10          # thorough tier only
HISTORY_MAX_COST = 2     # in-process histories use cheaper programs only

QUICK = dict(gen_frac=0.5, alt_seeds=1, corpus_extra_preds=0, steps=6, min_tests=8,
             hist_per_unit=3, singles=6, extra_seeds=3)
THOROUGH = dict(gen_frac=0.6, alt_seeds=3, corpus_extra_preds=99, steps=10, min_tests=40,
                hist_per_unit=2, singles=24, extra_seeds=4)
BATCH = 40               # items per batch subprocess


def params(tier):
    return THOROUGH if tier == 'thorough' else QUICK


# ------------------------------------------------------------------ buckets

def seed_bucket(what, oa=None, ob=None):
    """Root-cause class of a hash-seed difference, from what is measurable outside:
    * the plan's iterations were reached in a different order (>= 2 recursive components
      unfolded in the order of Functors.args_of, a dict filled while walking a set);
    * same order of iterations, and the plan closes over an iteration of >= 2 member
      predicates (PerformIterationClosure translates the members in set order, which
      moves statements and renumbers the allocator's aliases);
    * anything else: named by the component that differs."""
    if oa and ob and 'err' not in oa and 'err' not in ob:
        if L.iteration_order(oa) != L.iteration_order(ob):
            return 'hashseed:recursive_component_order'
        if is_d2_class(oa) or is_d2_class(ob):
            return 'hashseed:iteration_closure_order'
    return 'hashseed:' + what[0]


def history_bucket(what, base, obs):
    if (obs or {}).get('types_carried') and what[0] == 'sql_text':
        return D13_KEY
    sb = (base or {}).get('state') or {}
    so = (obs or {}).get('state') or {}
    if sb.get('too_much') is not None and so.get('too_much') is not None and \
            sb.get('too_much') != so.get('too_much'):
        return 'history:parser_switch_leak:TOO_MUCH=%s' % so.get('too_much')
    return 'history:' + what[0]


def is_d2b_class(obs):
    """Measured: the compiled plan contains at least two iterations (two iteratively
    unfolded recursive components)."""
    return len((obs or {}).get('iters', [])) >= 2


def is_d2_class(obs):
    """Measured from the baseline: the compiled plan closes over an iteration with at
    least two member predicates (PerformIterationClosure walks set(predicates))."""
    return any(n >= 2 for n in (obs or {}).get('iters', []))


# ------------------------------------------------------------------ check_case

def _last(xs):
    for x in reversed(xs):
        if isinstance(x, dict) and not x.get('skipped'):
            return x
    return None


def check_case(case):
    pool = case['pool']
    steps = case['steps']
    try:
        if case['kind'] == 'seeds':
            a, b = case['seeds']
            oa = _last(L.run_sub(pool, steps, hashseed=a))
            ob = _last(L.run_sub(pool, steps, hashseed=b))
            if oa and 'multi' in oa:
                pa, pb = [p for p, _ in oa['multi']], [p for p, _ in ob['multi']]
                if pa != pb:
                    return [('hashseed:predicate_list',
                             'defined predicates differ: %r vs %r' % (pa, pb))]
                pairs = [(x, y) for (_, x), (_, y) in zip(oa['multi'], ob['multi'])]
            else:
                pairs = [(oa, ob)]
            for xa, xb in pairs:
                d, notes = L.compare(xa, xb)
                if d:
                    return [(seed_bucket(d, xa, xb),
                             'PYTHONHASHSEED=%s vs %s, steps %s\n%s\n--- program\n%s' % (
                                 a, b, json.dumps(steps), d[1],
                                 pool[steps[-1][1]]['text']))]
            return []
        if case['kind'] == 'history':
            tgt = steps[-1]
            hs = case.get('hashseed', 0)
            oh = L.run_sub(pool, steps, hashseed=hs)[-1]
            if not isinstance(oh, dict) or oh.get('skipped'):
                return []
            ob = L.run_sub(pool, [['compile', tgt[1], tgt[2]]], hashseed=hs)[-1]
            d, notes = L.compare(ob, oh)
            if d:
                return [(history_bucket(d, ob, oh),
                         'history %s\nlast step differs from the same compilation in a '
                         'fresh interpreter: %s\n%s\n--- target program\n%s' % (
                             json.dumps(steps), d[0], d[1], pool[tgt[1]]['text']))]
            return []
    except L.SubTimeout:
        return []
    raise ValueError('unknown case kind %r' % case.get('kind'))


# ------------------------------------------------------------------ minimise

def _text_of_history(case):
    return case['pool'][case['steps'][-1][1]]['text']


MIN_TESTS = [14]


def minimise(case, bucket):
    def fails(c):
        return any(b == bucket for b, d in check_case(c))

    case = json.loads(json.dumps(case))
    # 1. shorten the step list (keep the last step = target); a two-step history is
    # already minimal (one step cannot differ from itself compiled alone)
    if len(case['steps']) > (2 if case.get('kind') == 'history' else 1):
        tgt = case['steps'][-1]
        short = dict(case)
        short['steps'] = [tgt]
        pair = None
        alone = fails(short)
        if not alone:
            # the commonest shape of a history dependence: ONE earlier compilation
            # (e.g. of another engine) changes the target's text
            seen = set()
            for st_ in reversed(case['steps'][:-1]):
                k = json.dumps(st_[:2] if st_[0] == 'parse' else st_)
                if k in seen or len(seen) >= MIN_TESTS[0]:
                    continue
                seen.add(k)
                if fails(dict(case, steps=[st_, tgt])):
                    pair = dict(case, steps=[st_, tgt])
                    break
        if alone:
            case = short
        elif pair is not None:
            case = pair
        else:
            head = core.ddmin(case['steps'][:-1],
                              lambda hs: fails(dict(case, steps=list(hs) + [tgt])),
                              max_tests=MIN_TESTS[0])
            case = dict(case, steps=list(head) + [tgt])
    used = set(s[1] for s in case['steps'] if len(s) > 1)
    case['pool'] = {k: v for k, v in case['pool'].items() if k in used}
    # 2. shrink the text of every program involved, statement by statement
    for pid in sorted(used):
        item = case['pool'][pid]
        if item.get('role') == 'corpus' and (len(item['text']) > 3000 or
                                             COST.get(pid, DEFAULT_COST) > 1):
            continue
        stmts = [s for s in item['text'].split(';\n')]
        if len(stmts) < 3:
            continue

        def with_text(ss, pid=pid):
            c2 = json.loads(json.dumps(case))
            c2['pool'][pid]['text'] = ';\n'.join(ss)
            return c2
        kept = core.ddmin(stmts, lambda ss: fails(with_text(ss)), max_tests=MIN_TESTS[0])
        if len(kept) < len(stmts):
            case = with_text(kept)
    return case


# ------------------------------------------------------------------ shard

def _draw_plan(ctx, k_alt):
    out = []
    strat = st.tuples(st.lists(st.integers(1, 2 ** 32 - 1), min_size=k_alt, max_size=k_alt,
                               unique=True),
                      st.integers(0, 10 ** 6))
    # Hypothesis' first examples are the simplest ones (seed 1, pick 0): take a later one
    core.hyp_run(out.append, strat, 6, ctx.hyp_seed)
    return out[-1]


def _slim(item):
    d = {k: item[k] for k in ('id', 'text', 'flags', 'import_root', 'files', 'role')
         if k in item}
    if is_builtins(item):
        d['shape'] = 'builtins'
    return d


def build_pool(ctx, col, prm):
    """-> ordered list of items (corpus share + generated), incantation items last."""
    items = []
    specs = [] if os.environ.get('VERIF_C13_CORPUS') == 'off' else L.corpus_specs()
    # longest-processing-time assignment over the static cost table (deterministic)
    load = [0.0] * ctx.n
    order = sorted(specs, key=lambda sp: (-COST.get(sp['id'], DEFAULT_COST), sp['id']))
    mine = set()
    for sp in order:
        c = COST.get(sp['id'], DEFAULT_COST)
        if c >= HEAVY_COST and ctx.tier != 'thorough':
            if sp['id'] not in mine and ctx.k == 0:
                col.exclude('quick_tier_skips_heavy_corpus_file')
            continue
        j = min(range(ctx.n), key=lambda q: (load[q], q))
        load[j] += c
        if j == ctx.k:
            mine.add(sp['id'])
    for sp in specs:
        if sp['id'] not in mine:
            continue
        sp['cost'] = COST.get(sp['id'], DEFAULT_COST)
        sp['labels'] = ['shape:corpus']
        sp['prefer'] = sp.pop('golden')
        if L.INCANTATION in sp['text']:
            sp['role'] = 'incantation'
        items.append(sp)
    n_gen = int(round(ctx.budget * prm['gen_frac']))
    gen = []
    core.hyp_run(gen.append, G.program_item(), n_gen, ctx.hyp_seed + 1)
    # every shard needs the special roles for its histories
    fixed = []
    core.hyp_run(fixed.append, st.tuples(G.failing_program(), G.incantation_program(),
                                         G.tight_program(), G.builtin_trio(),
                                         G.import_pair(),
                                         G.rec_program(vertical_multi=True),
                                         G.failing_incantation_program()),
                 6, ctx.hyp_seed + 2)
    # (a late example: the first ones are the simplest)
    gen += list(fixed[-1][:3]) + list(fixed[-1][3]) + list(fixed[-1][4]) + [fixed[-1][5],
                                                                           fixed[-1][6]]
    for j, it in enumerate(gen):
        it['id'] = 'gen:%d' % j
        it['prefer'] = it.pop('preds')
        items.append(it)
    items.sort(key=lambda it: it.get('role') == 'incantation')     # stable
    return items, n_gen


def run_batches(pool, items, hashseed, prm, pick, reverse=False, order_out=None):
    """One subprocess per BATCH items; -> {id: {'multi': [[pred, obs]..]}} or raises.
    reverse: the members of every batch are compiled in the opposite order (the batch is
    itself a history; two different orders make a history dependence visible as a
    difference).  order_out: dict filled with id -> ids of its batch in compile order."""
    res = {}
    normal = [it for it in items if it.get('role') != 'incantation']
    special = [it for it in items if it.get('role') == 'incantation']
    chunks = [normal[i:i + BATCH] for i in range(0, len(normal), BATCH)]
    if not EXCLUDE_D3:
        # no special handling: incantation files are ordinary members of the last batch
        if chunks:
            chunks[-1] = chunks[-1] + special
        else:
            chunks = [special]
        special = []
    for ch in chunks + [[it] for it in special]:
        if reverse:
            ch = list(reversed(ch))
        steps = []
        for it in ch:
            steps.append(batch_step(it, prm, pick))
        out = L.run_sub(pool, steps, hashseed=hashseed)
        for it, o in zip(ch, out):
            res[it['id']] = o
            if order_out is not None:
                order_out[it['id']] = [x['id'] for x in ch]
    return res


def batch_step(it, prm, pick):
    extra = prm['corpus_extra_preds'] if it.get('role') in ('corpus',) or \
        it['id'].startswith('corpus') else 0
    return ['compile_all', it['id'], it['prefer'], extra, pick]


def batch_history_steps(order, res, target_id, pred):
    """The parses and compilations a batch subprocess performed up to and including
    (target_id, pred), written as plain history steps (what compile_all does: one parse
    to discover the predicates, then a fresh parse + program per predicate)."""
    steps = []
    for iid in order:
        steps.append(['parse', iid])
        for p, _ in res[iid]['multi']:
            if p == '<parse>':
                continue
            steps.append(['compile', iid, p])
            if iid == target_id and p == pred:
                return steps
        if iid == target_id:
            break
    steps.append(['compile', target_id, pred])
    return steps


def history_case(pool, steps, hashseed):
    steps = [list(s) for s in steps]
    used = set(s[1] for s in steps if len(s) > 1)
    return {'kind': 'history', 'pool': {k: pool[k] for k in used}, 'steps': steps,
            'hashseed': hashseed}


CONFIRMED = set()        # history buckets already reported by this worker process
PAIR_TRIES = 8


def confirm_history(col, pool, step_lists, hashseed, guess, note=''):
    """Decide whether an observed difference is a function of a recorded history.
    step_lists: recorded histories (each ends with the target compilation), tried in
    order; of each one first the two-step histories [one earlier compilation, target]
    (the latest compilation per engine, at most PAIR_TRIES - cheap, and what most
    history dependences reduce to), then the full list.  Each candidate is replayed in a
    fresh interpreter and compared with the target compiled alone (check_case).
    -> 'reported' | 'known' (bucket already reported by this process) | None."""
    if guess in CONFIRMED:
        col._fail_count[guess] += 1
        return 'known'
    tried = set()
    for steps in step_lists:
        steps = [list(x) for x in steps]
        if not steps:
            continue
        tgt = steps[-1]
        cands = []
        engines = set()
        for x in reversed(steps[:-1]):
            if x[0] not in ('compile', 'compile_kept', 'again') or x[1] not in pool:
                continue
            e = engine_of(pool[x[1]])
            if e in engines or len(cands) >= PAIR_TRIES:
                continue
            engines.add(e)
            cands.append([['compile', x[1], x[2]], ['compile', tgt[1], tgt[2]]])
        if len(steps) > 2 or not cands:
            cands.append(steps)
        for c in cands:
            k = json.dumps(c)
            if k in tried:
                continue
            tried.add(k)
            case = history_case(pool, c, hashseed)
            r = check_case(case)
            if r:
                for bkt, det in r:
                    CONFIRMED.add(bkt)
                    col.fail(bkt, case, note + det)
                CONFIRMED.add(guess)
                return 'reported'
    return None


def confirm_batch_history(col, pool, order, res, target_id, pred, hashseed, guess):
    """A batch observation differs from another configuration: is it a function of the
    batch's own history?"""
    if target_id not in order:
        return None
    return confirm_history(
        col, pool, [batch_history_steps(order[target_id], res, target_id, pred)], hashseed,
        guess, 'the compilations of one batch subprocess, replayed:\n')


def item_multiset(item, obs_list):
    if item.get('multiset'):
        return True
    t = item['text']
    if ':=' in t or '@Make' in t or '@Iteration' in t or 'import ' in t:
        return True
    for o in obs_list:
        if 'err' in o:
            continue
        if len(o.get('exports', [])) >= 2 or any(n >= 2 for n in o.get('iters', [])):
            return True
    return False


def own_hashseed():
    v = os.environ.get('PYTHONHASHSEED', '')
    return int(v) if v.isdigit() else None


def _t(col, what, t0):
    if os.environ.get('VERIF_C13_TIMING'):
        import time
        t = os.times()
        col.notes.append('timing shard %s %.1fs wall, cpu %.1fs' % (
            what, time.time() - t0, t[0] + t[1] + t[2] + t[3]))


def shard(ctx, col):
    import time
    t_start = time.time()
    prm = params(ctx.tier)
    MIN_TESTS[0] = prm['min_tests']
    alt_seeds, pick = _draw_plan(ctx, prm['alt_seeds'] + prm['extra_seeds'])
    hs0 = own_hashseed()           # the runner starts workers with PYTHONHASHSEED=0
    if hs0 is None:
        col.inconc('worker_runs_with_random_hash_seed')
        return
    alt_seeds = [s if s != hs0 else s + 1 for s in alt_seeds]
    items, n_gen = build_pool(ctx, col, prm)
    pool = {it['id']: _slim(it) for it in items}
    by_id = {it['id']: it for it in items}

    # ---- (a) hash seeds -------------------------------------------------------
    base_order = {}
    try:
        base = run_batches(pool, items, hs0, prm, pick, order_out=base_order)
    except L.SubTimeout:
        col.inconc('baseline_batch_timeout')
        return
    _t(col, 'baseline_batch', t_start)
    baseline = {}                  # (id, pred) -> observation
    for it in items:
        for p, o in base[it['id']]['multi']:
            baseline[(it['id'], p)] = o
    n_known = [0]
    for si, hs in enumerate(alt_seeds):
        # the first alternative seed sees everything, further seeds the generated part,
        # the extra seeds only the programs whose unfolding walks a set of >= 2 names
        # (cheap, and each seed is one more drawn order of that set)
        sub_items = items if si == 0 else [it for it in items if it['id'].startswith('gen')]
        if si >= prm['alt_seeds']:
            sub_items = [it for it in items
                         if 'vertical_multi_member' in it.get('labels', [])]
            if not sub_items:
                continue
        alt_order = {}
        try:
            # the other hash seed compiles every batch in the opposite order
            alt = run_batches(pool, sub_items, hs, prm, pick, reverse=True,
                              order_out=alt_order)
        except L.SubTimeout:
            col.inconc('alt_seed_batch_timeout')
            continue
        for it in sub_items:
            a = base[it['id']]['multi']
            b = alt[it['id']]['multi']
            obs_list = [o for _, o in a]
            ms = item_multiset(it, obs_list)
            if [p for p, _ in a] != [p for p, _ in b]:
                # the set of predicates discovered by the parser differs
                case = {'kind': 'seeds', 'pool': {it['id']: pool[it['id']]},
                        'steps': [['compile_all', it['id'], it['prefer'], 0, pick]],
                        'seeds': [hs0, hs]}
                r = check_case(case)
                if r:
                    for bkt, det in r:
                        col.fail(bkt, case, det)
                    continue
                # not the hash seed: the two batches parsed the file differently
                tp = ([p for p, _ in a if p != '<parse>'] +
                      [p for p, _ in b if p != '<parse>'] + list(it['prefer']))[0]
                g = 'history:predicate_list'
                if not (confirm_batch_history(col, pool, base_order, base, it['id'], tp, hs0, g)
                        or confirm_batch_history(col, pool, alt_order, alt, it['id'], tp, hs,
                                                 g)):
                    col.inconc('seed_difference_only_inside_batch')
                    col.notes.append('predicate lists differ between the batches only: '
                                     '%s %r vs %r' % (it['id'], [p for p, _ in a],
                                                      [p for p, _ in b]))
                continue
            for (p, oa), (_, ob) in zip(a, b):
                labels = list(it.get('labels', [])) + ['kind:seeds']
                if 'err' in oa:
                    labels.append('outcome:' + oa['err'])
                else:
                    labels.append('outcome:compiled')
                    if is_d2_class(oa):
                        labels.append('iteration_closure_multi_member')
                    if is_d2b_class(oa):
                        labels.append('two_or_more_iterations')
                d, notes = L.compare(oa, ob)
                labels += notes
                key = ('seeds', it['text'], p, hs)
                nt = ms and 'err' not in oa
                if d and EXCLUDE_D2B and is_d2b_class(oa) and \
                        seed_bucket(d, oa, ob) == 'hashseed:recursive_component_order':
                    col.exclude('D2b:order_of_recursive_components_follows_hash_seed')
                    col.case(key, False, labels + ['excluded:D2b'])
                    continue
                if d and EXCLUDE_D2 and is_d2_class(oa) and \
                        seed_bucket(d, oa, ob) == 'hashseed:iteration_closure_order':
                    # known class D2 (see seed_bucket): not compared across hash seeds
                    col.exclude('D2:iteration_closure_order_follows_hash_seed')
                    col.case(key, False, labels + ['excluded:D2'])
                    continue
                col.case(key, nt, labels + (['multiset'] if ms else []),
                         sample={'kind': 'seeds', 'seeds': [hs0, hs], 'predicate': p,
                                 'program': it['text'][:1500]})
                if d and history_bucket(d, oa, ob) in CONFIRMED and n_known[0] >= 1:
                    # bounded work once a history dependence of this kind is established
                    col._fail_count[history_bucket(d, oa, ob)] += 1
                    continue
                if d:
                    single = {'kind': 'seeds', 'pool': {it['id']: pool[it['id']]},
                              'steps': [['compile', it['id'], p]], 'seeds': [hs0, hs]}
                    r = check_case(single)
                    if r:
                        for bkt, det in r:
                            col.fail(bkt, single, det)
                    elif confirm_batch_history(col, pool, base_order, base, it['id'], p,
                                               hs0, history_bucket(d, oa, ob)) or \
                            confirm_batch_history(col, pool, alt_order, alt, it['id'], p, hs,
                                                  history_bucket(d, oa, ob)):
                        # not the hash seed: one of the two batch subprocesses gives a
                        # text that depends on what it compiled before (reported there)
                        n_known[0] += 1
                    else:
                        # shows only inside the batches and is not reproduced from them
                        col.inconc('seed_difference_only_inside_batch')
                        col.notes.append('seed difference not reproduced alone: %s %s %s' % (
                            it['id'], p, d[0]))

    _t(col, 'all_batches', t_start)
    # ---- (b1) the baseline batch is a history too: sampled members compiled alone ----
    check_batch_singles(ctx, col, prm, items, pool, base, base_order, hs0, pick)
    _t(col, 'batch_singles', t_start)
    # ---- (b2) in-process histories -----------------------------------------------
    n_hist = max(0, ctx.budget - n_gen) * prm['hist_per_unit']
    if n_hist:
        run_histories(ctx, col, prm, items, pool, baseline, n_hist, hs0,
                      batch=(base_order, base))
    _t(col, 'histories_done', t_start)


# ------------------------------------------------------------------ batch members alone

def engine_of(item):
    import re
    m = re.search(r'@Engine\(\s*"(\w+)"', item['text'])
    return m.group(1) if m else 'default'


def is_builtins(item):
    return item.get('shape') == 'builtins' or 'shape:builtins' in item.get('labels', [])


def check_batch_singles(ctx, col, prm, items, pool, base, order, hs0, pick):
    """The baseline of an item comes from a batch subprocess that compiled the earlier
    items of the batch first.  A sample of items (built-in programs first, the rest
    rotated by the drawn pick) is compiled again alone in a fresh interpreter with the
    same hash seed; any difference is a dependence on the batch's history."""
    n = prm['singles']
    cands = [it for it in items if it.get('cost', DEFAULT_COST) <= HISTORY_MAX_COST and
             order.get(it['id'], [None])[0] != it['id']]
    if not cands or n <= 0:
        return
    def is_imp(it):
        return 'shape:imports' in it.get('labels', [])
    bi = [it for it in cands if is_builtins(it)]
    im = [it for it in cands if is_imp(it)]
    rest = [it for it in cands if not is_builtins(it) and not is_imp(it)]
    k = pick % len(rest) if rest else 0
    rest = rest[k:] + rest[:k]
    chosen = bi[:n // 2] + im[-1:]          # the last import program: one precedes it
    chosen += rest[:n - len(chosen)]
    for it in chosen:
        try:
            alone = L.run_sub(pool, [batch_step(it, prm, pick)], hashseed=hs0)[0]
        except L.SubTimeout:
            col.inconc('single_compilation_timeout')
            continue
        a = base[it['id']]['multi']
        b = alone['multi']
        ids = order[it['id']]
        before = ids[:ids.index(it['id'])]
        engines = sorted(set(engine_of(pool[q]) for q in before))
        for (p, oa), (q, ob) in zip(a, b):
            if p != q:
                break
            labels = list(it.get('labels', [])) + [
                'kind:batch_history', 'batch_prefix_len:%d' % (len(before) // 5 * 5),
                'batch_prefix_engines:%d' % len(engines)]
            if len([e for e in engines if e != engine_of(it)]) >= 1:
                labels.append('other_engine_compiled_before')
            d, notes = L.compare(ob, oa)
            col.case(('batch_history', tuple(pool[q]['text'] for q in before), it['text'], p),
                     bool(before) and 'err' not in ob, labels + notes,
                     sample={'kind': 'batch_history', 'compiled_before': before,
                             'predicate': p, 'program': it['text'][:1500]})
            if d and not confirm_batch_history(col, pool, order, base, it['id'], p, hs0,
                                               history_bucket(d, ob, oa)):
                col.inconc('batch_difference_not_reproduced_in_fresh_process')
                col.notes.append('batch vs alone difference (%s) of %s %s not reproduced' % (
                    d[0], it['id'], p))


# ------------------------------------------------------------------ histories

class Hist(object):
    """Book-keeping shared by all state-machine runs of this worker process."""

    def __init__(self, ctx, col, pool, baseline, by_role, hs0, batch=None):
        self.ctx, self.col, self.pool, self.baseline = ctx, col, pool, baseline
        self.hs0 = hs0
        self.batch = batch             # (order, observations) of the baseline batches
        self.roles_of = {k: v.get('role') for k, v in pool.items()}
        self.by_role = by_role
        self.process_log = []          # every step executed in this process so far
        self.steps = None
        self.session = None

    def begin(self):
        self.steps = []
        self.n_obs = 0
        self.programs_seen = []
        self.last_engine = None
        self.labels = set()
        self.nontrivial = False
        self.session = L.Session(self.pool)

    def end(self):
        if self.session is not None:
            self.session.close()
            self.session = None
        if self.steps:
            labels = sorted(self.labels) + ['kind:history',
                                            'history_len:%d' % min(len(self.steps), 12)]
            self.col.case(('history', self.steps), self.nontrivial, labels,
                          sample={'kind': 'history', 'steps': self.steps})
        self.steps = None

    def do(self, st_):
        if not self.session.applicable(st_):
            return
        self.steps.append(st_)
        self.process_log.append(st_)
        o = self.session.step(st_)
        if EXCLUDE_D3 and len(st_) > 1 and self.roles_of.get(st_[1]) == 'incantation':
            # known class D3: the parser switch stays on after an incantation main file;
            # the harness puts it back so that the search continues past this defect
            self.col.exclude('D3:parser_switch_reset_after_incantation_main_file')
            r = ['reset_too_much']
            self.steps.append(r)
            self.process_log.append(r)
            self.session.step(r)
        if not isinstance(o, dict):
            return
        pid, pred = st_[1], st_[2]
        self.n_obs += 1
        if self.n_obs >= 2 and any(q != pid for q in self.programs_seen):
            self.nontrivial = True
        self.programs_seen.append(pid)
        self.labels.add('step:' + st_[0])
        e = engine_of(self.pool[pid])
        if self.last_engine not in (None, e):
            self.labels.add('obs:engine_switch_in_history')
            if is_builtins(self.pool[pid]):
                self.labels.add('obs:builtins_program_after_other_engine')
        self.last_engine = e
        if o.get('rules_unchanged') is False:
            self.labels.add('obs:caller_rules_object_mutated')
            if not any('caller-owned rules' in n for n in self.col.notes):
                self.col.notes.append('caller-owned rules object changed by %s of %s\n%s' % (
                    st_[0], pid, self.pool[pid]['text'][:600]))
        b = self.baseline.get((pid, pred))
        d, notes = L.compare(b, o)
        for n in notes:
            self.labels.add(n)
        if o.get('types_carried'):
            self.labels.add('obs:program_object_carries_type_definitions')
            if EXCLUDE_D13:
                self.col.exclude('D13:second_predicate_on_program_object_that_gained_types')
                return
        if d:
            self.labels.add('history_mismatch')
            self.report(st_, b, o, d)

    def report(self, st_, b, o, d):
        # Two histories are involved in an in-process mismatch: the worker's own (this
        # state-machine run, preceded by every earlier run of the process) and the one
        # of the batch subprocess that produced the baseline text.  Each is replayed in
        # a fresh interpreter and compared with the target compiled alone.
        guess = history_bucket(d, b, o)
        lists = [self.steps, self.process_log]
        if self.batch is not None and len(st_) > 2 and st_[1] in self.batch[0]:
            lists.append(batch_history_steps(self.batch[0][st_[1]], self.batch[1],
                                             st_[1], st_[2]))
        if confirm_history(self.col, self.pool, lists, self.hs0, guess):
            return
        self.col.inconc('history_mismatch_not_reproduced_in_fresh_process')
        self.col.notes.append('in-process mismatch (%s) at %s not reproduced by replaying '
                              'the process log or the baseline batch in a fresh '
                              'interpreter' % (d[0], st_))


def run_histories(ctx, col, prm, items, pool, baseline, n_hist, hs0, batch=None):
    usable = []
    for it in items:
        preds = [p for (i, p) in baseline if i == it['id'] and p != '<parse>']
        if not preds and (it['id'], '<parse>') in baseline and it.get('prefer'):
            # a main file that fails to PARSE: compiling any predicate of it must end in
            # that same parse error (and must leave no parser state behind)
            q = list(it['prefer'])[0]
            baseline[(it['id'], q)] = baseline[(it['id'], '<parse>')]
            preds = [q]
        if not preds:
            continue
        if it.get('cost', 0) > HISTORY_MAX_COST:
            col.exclude('slow_corpus_file_not_in_histories')
            continue
        usable.append((it, preds))
    roles = {'any': usable,
             'failing': [u for u in usable if u[0].get('role') == 'failing' or any(
                 'err' in baseline[(u[0]['id'], p)] for p in u[1])],
             'incantation': [u for u in usable if u[0].get('role') == 'incantation'],
             'sensitive': [u for u in usable if u[0].get('parser_state_sensitive')],
             'multi': [u for u in usable if len(u[1]) >= 1 and
                       u[0].get('role') in ('gen', 'corpus')],
             'builtins': [u for u in usable if is_builtins(u[0])],
             'imports': [u for u in usable if 'shape:imports' in u[0].get('labels', [])]}
    eng = {u[0]['id']: engine_of(u[0]) for u in usable}
    if not usable:
        return
    H = Hist(ctx, col, pool, baseline, roles, hs0, batch)

    def pick(role, i, pi):
        lst = roles[role]
        it, preds = lst[i % len(lst)]
        return it, preds[pi % len(preds)]

    idx = st.integers(0, 10 ** 6)

    class Machine(RuleBasedStateMachine):
        def __init__(self):
            super().__init__()
            H.begin()

        @rule(i=idx)
        def parse(self, i):
            it, _ = pick('any', i, 0)
            H.do(['parse', it['id']])

        @rule(i=idx, pi=idx)
        def compile(self, i, pi):
            it, p = pick('any', i, pi)
            self._compile(it, p)

        def _compile(self, it, p):
            H.do(['compile', it['id'], p])

        @precondition(lambda self: bool(roles['failing']))
        @rule(j=idx, pi=idx)
        def compile_failing(self, j, pi):
            it, p = pick('failing', j, pi)
            H.labels.add('step:compile_failing')
            self._compile(it, p)

        @precondition(lambda self: bool(roles['incantation']))
        @rule(j=idx, pi=idx)
        def compile_incantation(self, j, pi):
            it, p = pick('incantation', j, pi)
            H.labels.add('step:compile_incantation')
            self._compile(it, p)

        @precondition(lambda self: bool(roles['sensitive']))
        @rule(j=idx, pi=idx)
        def compile_sensitive(self, j, pi):
            it, p = pick('sensitive', j, pi)
            H.labels.add('step:compile_sensitive')
            self._compile(it, p)

        @precondition(lambda self: len(set(eng[u[0]['id']] for u in roles['builtins'])) >= 2)
        @rule(i=idx, j=idx, pi=idx, pj=idx, first=st.sampled_from(['builtins', 'any']))
        def engine_switch(self, i, j, pi, pj, first):
            """A program of engine A, then a built-in program of another engine B."""
            a, p = pick(first, i, pi)
            lst = roles['builtins']
            others = [u for u in lst if eng[u[0]['id']] != eng[a['id']]]
            if not others:
                return
            b, preds = others[j % len(others)]
            H.labels.add('step:engine_switch')
            H.labels.add('switch_to:' + eng[b['id']])
            self._compile(a, p)
            self._compile(b, preds[pj % len(preds)])

        @precondition(lambda self: bool(roles['sensitive']) and (
            bool(roles['failing']) or bool(roles['incantation'])))
        @rule(i=idx, j=idx, pi=idx, pj=idx, first=st.sampled_from(['failing', 'incantation']))
        def parser_state_then_sensitive(self, i, j, pi, pj, first):
            """A failing (possibly incantation-carrying) or incantation program, and right
            after it a program whose text reads differently under the experimental
            syntax: parser state must not survive the earlier parse, failed or not."""
            if not roles[first]:
                first = 'failing' if roles['failing'] else 'incantation'
            a, p = pick(first, i, pi)
            b, q = pick('sensitive', j, pj)
            H.labels.add('step:parser_state_then_sensitive:' + first)
            self._compile(a, p)
            self._compile(b, q)

        @precondition(lambda self: len(roles['imports']) >= 2)
        @rule(i=idx, j=idx, pi=idx, pj=idx)
        def import_switch(self, i, j, pi, pj):
            """Two programs importing equally named modules from different roots."""
            lst = roles['imports']
            a, pa = lst[i % len(lst)]
            rest = [u for u in lst if u[0]['id'] != a['id']]
            b, pb = rest[j % len(rest)]
            H.labels.add('step:import_switch')
            self._compile(a, pa[pi % len(pa)])
            self._compile(b, pb[pj % len(pb)])

        @precondition(lambda self: bool(roles['multi']))
        @rule(i=idx, pi=idx, pj=idx, mode=st.sampled_from(['rules_twice', 'program_twice']))
        def reuse_rules(self, i, pi, pj, mode):
            it, p = pick('multi', i, pi)
            _, q = pick('multi', i, pj)
            if it.get('role') == 'incantation':
                return
            H.labels.add('step:reuse_rules:' + mode)
            if it['id'] not in H.session.kept_rules:
                H.do(['parse', it['id']])
            H.do(['compile_kept', it['id'], p])
            if mode == 'program_twice':        # FormattedPredicateSql again, one object
                H.do(['again', it['id'], q])
                if q != p:
                    H.do(['again', it['id'], p])
            else:                              # the same rules object, second program
                H.do(['compile_kept', it['id'], q])

        def teardown(self):
            H.end()

    core.deep_call(lambda: run_state_machine_as_test(
        hypothesis.seed(ctx.hyp_seed + 3)(Machine),
        settings=settings(max_examples=n_hist, stateful_step_count=prm['steps'],
                          database=None, deadline=None, phases=[Phase.generate],
                          derandomize=False, report_multiple_bugs=False,
                          suppress_health_check=list(HealthCheck))))
    if H.session is not None:
        H.session.close()


def evidence_extra(col):
    return {'exclusion_flags': {'EXCLUDE_D2': EXCLUDE_D2, 'EXCLUDE_D3': EXCLUDE_D3,
                                'EXCLUDE_D2B': EXCLUDE_D2B, 'EXCLUDE_D13': EXCLUDE_D13}}
