"""Dedicated generator for C13: recursion / functor / iteration / import / UDF shapes
whose compilation walks multi-member sets, plus programs sensitive to parser state.

Every choice is a Hypothesis draw.  A generated *item* is the JSON-able dict described
in c13_lib (text, files, import_root, preds, labels, role)."""
from hypothesis import strategies as st

NAMES = ['A', 'B', 'C', 'D', 'Aa', 'Ab', 'Reach', 'Tc', 'Walk', 'Node', 'Dist', 'Q',
         'Zed', 'Foo', 'Bar', 'Win', 'Lose', 'Up', 'Down', 'M', 'N', 'K', 'Hop', 'Even',
         'Odd', 'Lhs', 'Rhs', 'Big', 'Quux', 'Yak', 'Wave', 'Jot', 'Pq', 'Ox', 'Vim']
ENGINES_REC = ['sqlite', 'duckdb', 'psql', None]
ENGINES_ALL = ['sqlite', 'duckdb', 'psql', 'clickhouse', 'trino', 'presto', None]
INCANTATION = 'Signa inter verba conjugo, symbolum infixus evoco!'


def engine_line(e):
    return '@Engine("%s");\n' % e if e else ''


def draw_names(draw, n):
    perm = draw(st.permutations(NAMES))
    return list(perm[:n])


def edge_facts(draw, name):
    n = draw(st.integers(2, 5))
    out = []
    for _ in range(n):
        a, b = draw(st.integers(0, 4)), draw(st.integers(0, 4))
        out.append('%s(%d, %d);' % (name, a, b))
    return out


# ------------------------------------------------------------------ recursion

REC_MODES = ['default', 'shallow', 'deep_iterative', 'iterative_flag', 'mode_iterative',
             'not_iterative', 'diamond', 'stop', 'diamond_stop', 'infinite_stop',
             'satellites']


def rec_component(draw, names, edge, mode, distinct):
    """Rules of one recursive component over the members `names`."""
    k = len(names)
    dd = ' distinct' if distinct else ''
    rules = []
    rules.append('%s(x)%s :- %s(x, y);' % (names[0], dd, edge))
    for i in range(k):
        src, dst = names[i], names[(i + 1) % k]
        if k == 1:
            rules.append('%s(y)%s :- %s(x), %s(x, y);' % (dst, dd, src, edge))
        else:
            rules.append('%s(y)%s :- %s(x), %s(x, y);' % (dst, dd, src, edge))
    n_extra = draw(st.integers(0, 2)) if k > 1 else 0
    for _ in range(n_extra):
        i, j = draw(st.integers(0, k - 1)), draw(st.integers(0, k - 1))
        if i != j:
            rules.append('%s(x)%s :- %s(x), x > %d;' % (names[i], dd, names[j],
                                                       draw(st.integers(0, 3))))
    return rules


def rec_annotation(draw, mode, target, stop, sats):
    if mode == 'default':
        return []
    if mode == 'shallow':
        return ['@Recursive(%s, %d);' % (target, draw(st.integers(1, 3)))]
    if mode == 'deep_iterative':
        return ['@Recursive(%s, %d);' % (target, draw(st.integers(21, 40)))]
    if mode == 'iterative_flag':
        return ['@Recursive(%s, %d, iterative: true);' % (target, draw(st.integers(3, 9)))]
    if mode == 'mode_iterative':
        return ['@Recursive(%s, %d, mode: "iterative");' % (target,
                                                          draw(st.integers(4, 30)))]
    if mode == 'not_iterative':
        return ['@Recursive(%s, %d, iterative: false);' % (target,
                                                          draw(st.integers(2, 4)))]
    if mode == 'diamond':
        return ['@Recursive(%s, %d, mode: "diamond");' % (target,
                                                        draw(st.sampled_from([3, 10, -1])))]
    if mode == 'stop':
        return ['@Recursive(%s, %d, stop: %s);' % (target, draw(st.integers(21, 60)), stop)]
    if mode == 'diamond_stop':
        return ['@Recursive(%s, mode: "diamond", stop: %s);' % (target, stop)]
    if mode == 'infinite_stop':
        return ['@Recursive(%s, %s, mode: "iterative", stop: %s);' % (
            target, draw(st.sampled_from(['-1', '∞'])), stop)]
    if mode == 'satellites':
        return ['@Recursive(%s, %d, mode: "iterative", satellites: [%s]);' % (
            target, draw(st.integers(5, 40)), ', '.join(sats))]
    raise ValueError(mode)


VERTICAL_MODES = ['default', 'shallow', 'not_iterative']


@st.composite
def rec_program(draw, vertical_multi=False):
    """vertical_multi: one component of 3-4 members unfolded vertically, every member
    with a second rule (the unfolding then builds >= 2 renaming functors from a set)."""
    ncomp = 1 if vertical_multi else draw(st.sampled_from([1, 1, 1, 2]))
    modes = [draw(st.sampled_from(VERTICAL_MODES if vertical_multi else REC_MODES))
             for _ in range(ncomp)]
    if any(m in ('stop', 'diamond_stop', 'infinite_stop') for m in modes):
        engine = 'duckdb'          # stop signals (copy_to_file) exist on DuckDB only
    else:
        engine = draw(st.sampled_from(ENGINES_REC))
    names = draw_names(draw, 14)
    edge = names.pop()
    lines = [engine_line(engine).strip()] if engine else []
    lines += edge_facts(draw, edge)
    labels = ['shape:rec', 'engine:%s' % (engine or 'default')]
    if vertical_multi:
        labels.append('vertical_multi_member')
    tests = []
    max_cover = 0
    for c in range(ncomp):
        # sizes are bounded (total members <= 4): compile cost grows quickly with
        # the product of cover size and unfolding depth
        k = draw(st.integers(3, 4)) if vertical_multi else \
            draw(st.integers(1, 4 if ncomp == 1 else 2))
        members = [names.pop() for _ in range(k)]
        mode = modes[c]
        distinct = draw(st.booleans())
        rules = rec_component(draw, members, edge, mode, distinct)
        if vertical_multi:
            dd = ' distinct' if distinct else ''
            # the second rule uses the same predecessor: no cycle avoids members[0]
            for i in range(1, k):
                rules.append('%s(x)%s :- %s(x), x > %d;' % (
                    members[i], dd, members[i - 1], draw(st.integers(0, 3))))
        stop = names.pop()
        sats = []
        if mode in ('stop', 'diamond_stop', 'infinite_stop'):
            watched = draw(st.sampled_from(members))
            rules.append('%s() :- Sum{1 :- %s(x)} > %d;' % (
                stop, watched, draw(st.integers(2, 9))))
        if mode == 'satellites':
            ns = draw(st.integers(1, 2))
            for _ in range(ns):
                s = names.pop()
                sats.append(s)
                rules.append('%s(x) distinct :- %s(x), x < %d;' % (
                    s, draw(st.sampled_from(members)), draw(st.integers(2, 6))))
        target = draw(st.sampled_from(members))
        ann = rec_annotation(draw, mode, target, stop, sats)
        where = draw(st.sampled_from(['before', 'after']))
        lines += (ann + rules) if where == 'before' else (rules + ann)
        labels += ['rec_mode:' + mode, 'cover:%d' % (k + len(sats) + (
            1 if mode in ('stop', 'diamond_stop', 'infinite_stop') else 0))]
        max_cover = max(max_cover, k + len(sats))
        tests.append(members + sats)
    tname = 'Test'
    body = ', '.join('%s(x)' % g[0] for g in tests)
    lines.append('%s(x) :- %s;' % (tname, body))
    allm = [m for g in tests for m in g]
    extra_pred = draw(st.sampled_from(allm))
    if draw(st.booleans()):
        allm_perm = draw(st.permutations(lines))       # statement order is free
        lines = list(allm_perm)
        if engine:                                      # keep @Engine readable first
            lines.remove(engine_line(engine).strip())
            lines.insert(0, engine_line(engine).strip())
        labels.append('shuffled_statements')
    text = '\n'.join(lines) + '\n'
    preds = [tname] + ([extra_pred] if extra_pred != tname else [])
    if vertical_multi:
        preds = [tname] + tests[0][-2:]       # the members farthest from the root
    return {'text': text, 'preds': preds, 'labels': labels, 'role': 'gen',
            'multiset': max_cover >= 2 or ncomp >= 2}


# ------------------------------------------------------------------ functors

@st.composite
def functor_program(draw):
    engine = draw(st.sampled_from(['sqlite', 'duckdb', 'psql', None, 'clickhouse']))
    names = draw_names(draw, 16)
    lines = [engine_line(engine).strip()] if engine else []
    nbase = draw(st.integers(2, 4))
    base = [names.pop() for _ in range(nbase)]
    for i, b in enumerate(base):
        for v in range(draw(st.integers(1, 3))):
            lines.append('%s(%d);' % (b, draw(st.integers(0, 9))))
    nargs = draw(st.integers(1, 3))
    args = [names.pop() for _ in range(nargs)]
    for a in args:
        lines.append('%s(%d);' % (a, draw(st.integers(0, 9))))
    f = names.pop()
    helper = names.pop()
    # functor body: F depends on its arguments directly and through a helper
    lines.append('%s(x) :- %s(x), x >= 0;' % (helper, args[0]))
    conj = ', '.join(['%s(x)' % helper] + ['%s(y%d)' % (a, i) for i, a in
                                          enumerate(args[1:])])
    lines.append('%s(x) :- %s;' % (f, conj))
    recursive = draw(st.booleans())
    labels = ['shape:functor', 'engine:%s' % (engine or 'default'),
              'functor_args:%d' % nargs]
    if recursive:
        lines.append('%s(x + 1) :- %s(x), x < 5;' % (f, f))
        lines.append('@Recursive(%s, %d);' % (f, draw(st.sampled_from([2, 3, 25]))))
        labels.append('functor_over_recursive')
    made = []
    prev = f
    remaining = {f: list(args)}      # functor arguments not yet substituted
    nmake = draw(st.integers(1, 4))
    for i in range(nmake):
        g = names.pop()
        src = draw(st.sampled_from([f, prev]))
        if not remaining[src]:
            src = f
        chosen = [a for a in remaining[src] if draw(st.booleans())] or [remaining[src][0]]
        binding = ', '.join('%s: %s' % (a, draw(st.sampled_from(base))) for a in chosen)
        form = draw(st.sampled_from(['assign', 'make']))
        if form == 'assign':
            lines.append('%s := %s(%s);' % (g, src, binding))
        else:
            lines.append('@Make(%s, %s, {%s});' % (g, src, binding))
        remaining[g] = [a for a in remaining[src] if a not in chosen]
        made.append(g)
        prev = g
    lines.append('Test(x) :- %s;' % ', '.join('%s(x)' % g for g in made))
    if draw(st.booleans()):
        head = lines[:1] if engine else []
        rest = lines[1:] if engine else lines
        lines = head + list(draw(st.permutations(rest)))
        labels.append('shuffled_statements')
    preds = ['Test', draw(st.sampled_from(made))]
    return {'text': '\n'.join(lines) + '\n', 'preds': preds, 'labels': labels,
            'role': 'gen', 'multiset': nargs >= 2 or nmake >= 2}


# ------------------------------------------------------------------ explicit @Iteration

@st.composite
def iteration_program(draw):
    engine = draw(st.sampled_from(['sqlite', 'duckdb', 'psql']))
    names = draw_names(draw, 10)
    k = draw(st.integers(2, 4))
    ms = [names.pop() for _ in range(k)]
    seed = names.pop()
    lines = [engine_line(engine).strip()]
    lines.append('%s(%d);' % (seed, draw(st.integers(0, 5))))
    lines.append('@Ground(%s);' % seed)
    for i, m in enumerate(ms):
        lines.append('@Ground(%s);' % m)
        src = seed if i == 0 else ms[i - 1]
        lines.append('%s(x + %d) :- %s(x);' % (m, draw(st.integers(0, 3)), src))
    it = names.pop()
    listed = list(draw(st.permutations(ms)))
    nlisted = draw(st.integers(2, k))
    listed = listed[:nlisted]
    extra = ''
    if draw(st.booleans()):
        extra = ', stop_signal: "/tmp/lv_c13_never_written_%d"' % draw(st.integers(0, 9))
    lines.append('@Iteration(%s, predicates: [%s], repetitions: %d%s);' % (
        it, ', '.join(listed), draw(st.integers(1, 5)), extra))
    target = draw(st.sampled_from(ms))
    lines.append('Test(x) :- %s(x);' % target)
    return {'text': '\n'.join(lines) + '\n', 'preds': ['Test', draw(st.sampled_from(ms))],
            'labels': ['shape:iteration', 'engine:' + engine, 'iteration_members:%d' % nlisted],
            'role': 'gen', 'multiset': True}


# ------------------------------------------------------------------ imports

@st.composite
def import_program(draw):
    engine = draw(st.sampled_from(['sqlite', 'duckdb', 'psql', None]))
    names = draw_names(draw, 12)
    nfiles = draw(st.integers(1, 3))
    files = {}
    imports = []
    used = []
    modnames = ['alpha', 'beta', 'gamma']
    for i in range(nfiles):
        mod = modnames[i]
        p, hlp = names.pop(), names.pop()
        body = ['%s(%d);' % (hlp, draw(st.integers(0, 9))) for _ in range(
            draw(st.integers(1, 3)))]
        body.append('%s(x) :- %s(x);' % (p, hlp))
        if i > 0 and draw(st.booleans()):
            # a file importing an earlier file
            prev_mod, prev_p = used[i - 1][0], used[i - 1][1]
            body.insert(0, 'import lib.%s.%s;' % (prev_mod, prev_p))
            body.append('%s(x + 1) :- %s(x);' % (p, prev_p))
        files['lib/%s.l' % mod] = '\n'.join(body) + '\n'
        alias = None
        if draw(st.booleans()):
            alias = names.pop()
            imports.append('import lib.%s.%s as %s;' % (mod, p, alias))
        else:
            imports.append('import lib.%s.%s;' % (mod, p))
        used.append((mod, p, alias or p))
    lines = list(draw(st.permutations(imports)))
    if engine:
        lines.append(engine_line(engine).strip())
    lines.append('Test(x) :- %s;' % ', '.join('%s(x)' % u[2] for u in used))
    lines.append('Own(x) :- %s(x), x > 0;' % draw(st.sampled_from(used))[2])
    return {'text': '\n'.join(lines) + '\n', 'files': files, 'import_root': '$FILES',
            'preds': ['Test', 'Own'],
            'labels': ['shape:imports', 'engine:%s' % (engine or 'default'),
                       'imported_files:%d' % nfiles],
            'role': 'gen', 'multiset': nfiles >= 2}


# ------------------------------------------------------------------ UDFs / aggregations

@st.composite
def udf_program(draw):
    engine = draw(st.sampled_from([None, 'sqlite', 'psql', 'duckdb']))
    names = draw_names(draw, 10)
    t = names.pop()
    lines = [engine_line(engine).strip()] if engine else []
    for _ in range(draw(st.integers(2, 4))):
        lines.append('%s(k: %d, v: %d);' % (t, draw(st.integers(0, 3)),
                                           draw(st.integers(0, 9))))
    nagg = draw(st.integers(1, 3))
    aggs = []
    for i in range(nagg):
        a = names.pop()
        base = draw(st.sampled_from(['Sum', 'Max', 'Min', 'Count']))
        lines.append('%s(x) = %s(x + %d);' % (a, base, draw(st.integers(0, 3))))
        aggs.append(a)
    nfun = draw(st.integers(0, 3))
    funs = []
    for i in range(nfun):
        fn = names.pop()
        lines.append('%s(x) = x * %d + %d;' % (fn, draw(st.integers(1, 3)),
                                              draw(st.integers(0, 3))))
        funs.append(fn)
    heads = ', '.join('f%d? %s= %s' % (i, a, ('%s(v)' % funs[i % len(funs)]) if funs else 'v')
                      for i, a in enumerate(aggs))
    lines.append('Test(k:, %s) distinct :- %s(k:, v:);' % (heads, t))
    return {'text': '\n'.join(lines) + '\n', 'preds': ['Test'],
            'labels': ['shape:udf', 'engine:%s' % (engine or 'default'),
                       'user_aggregations:%d' % nagg, 'user_functions:%d' % nfun],
            'role': 'gen', 'multiset': nagg + nfun >= 2}


# ------------------------------------------------------------------ parser-state sensitive

TIGHT = ['x*(y+1)', 'x/(y+1)', 'x%(y+2)', 'x^(y)', '(x+1)*(y+2)', 'x*(y)', 'y/(x+3)',
         'x * (y + 1)', 'x*y', '(x)*(y+1)']


@st.composite
def tight_program(draw):
    """Arithmetic written without spaces next to parentheses: meaning depends on the
    parser's experimental-syntax switch (D3 class)."""
    engine = draw(st.sampled_from(['sqlite', 'duckdb', 'psql', None]))
    names = draw_names(draw, 4)
    t, p = names[0], names[1]
    lines = [engine_line(engine).strip()] if engine else []
    lines.append('%s(x: %d, y: %d);' % (t, draw(st.integers(1, 5)), draw(st.integers(1, 5))))
    e = draw(st.sampled_from(TIGHT))
    form = draw(st.sampled_from(['head', 'body', 'equiv']))
    if form == 'head':
        lines.append('%s(%s) :- %s(x:, y:);' % (p, e, t))
    elif form == 'body':
        lines.append('%s(x) :- %s(x:, y:), x < %s;' % (p, t, e))
    else:
        lines.append('%s(x) :- %s(x:, y:), (x > 1 <=> y > 1);' % (p, t))
    lines.append('Test(z) :- %s(z);' % p)
    return {'text': '\n'.join(lines) + '\n', 'preds': ['Test'],
            'labels': ['shape:tight_arith', 'engine:%s' % (engine or 'default'),
                       'tight_form:' + form],
            'role': 'gen', 'multiset': False, 'parser_state_sensitive': True}


@st.composite
def incantation_program(draw):
    """A main file that switches on experimental infix syntax."""
    engine = draw(st.sampled_from(['sqlite', 'duckdb', None]))
    names = draw_names(draw, 3)
    t = names[0]
    where = draw(st.sampled_from(['comment', 'string', 'block_comment']))
    lines = [engine_line(engine).strip()] if engine else []
    if where == 'comment':
        lines.append('# ' + INCANTATION)
    elif where == 'block_comment':
        lines.append('/* ' + INCANTATION + ' */')
    lines.append('%s(x: %d, y: %d);' % (t, draw(st.integers(1, 5)), draw(st.integers(1, 5))))
    use = draw(st.sampled_from(['none', 'userop', 'tight']))
    if use == 'userop':
        lines.append('---(left:, right:) = left * 10 + right;')
        lines.append('Test(x --- y) :- %s(x:, y:);' % t)
    elif use == 'tight':
        lines.append('Test(x * (y + 1)) :- %s(x:, y:);' % t)
    else:
        lines.append('Test(x + y) :- %s(x:, y:);' % t)
    if where == 'string':
        lines.append('%s("%s");' % (names[1], INCANTATION))
    return {'text': '\n'.join(lines) + '\n', 'preds': ['Test'],
            'labels': ['shape:incantation', 'incantation_in:' + where,
                       'incantation_use:' + use],
            'role': 'incantation', 'multiset': False}


# ------------------------------------------------------------------ failing programs

FAILING = [
    ('parse_unbalanced', '@Engine("sqlite");\nT(1);\nP(x :- T(x);\nTest(x) :- T(x);\n', 'Test'),
    ('unbound_variable', '@Engine("sqlite");\nT(1);\nP(x, y) :- T(x);\nOk(x) :- T(x);\n', 'P'),
    ('half_way', '@Engine("sqlite");\nT(1);\nGood(x) :- T(x);\nBad(x) :- Good(x), Undefined0(y) == z;\n'
                 'Test(x) :- Good(x), Bad(x);\n', 'Test'),
    ('stop_outside_component', '@Engine("duckdb");\nE(1, 2);\n@Recursive(R, 30, stop: Zed);\n'
                               'R(x) :- E(x, y);\nR(y) :- R(x), E(x, y);\nZed() :- E(1, 2);\n'
                               'Test(x) :- R(x);\n', 'Test'),
    ('missing_functor', '@Engine("sqlite");\nT(1);\nG := F(A: T);\nTest(x) :- G(x);\n', 'Test'),
    ('type_error_psql', '@Engine("psql");\nT(1);\nTest(x) :- T(y), x == y ++ "a";\n', 'Test'),
    ('type_error_duckdb', '@Engine("duckdb");\nT("a");\nTest(x) :- T(y), x == y + 1;\n', 'Test'),
    ('bad_recursive_mode', '@Engine("sqlite");\nE(1, 2);\n@Recursive(R, 3, mode: "spiral");\n'
                           'R(x) :- E(x, y);\nR(y) :- R(x), E(x, y);\nTest(x) :- R(x);\n', 'Test'),
    ('distinct_inconsistent', '@Engine("sqlite");\nT(1);\nP(x) distinct :- T(x);\nP(x) :- T(x);\n'
                              'Test(x) :- P(x);\n', 'Test'),
    ('unknown_engine', '@Engine("nosuch");\nT(1);\nTest(x) :- T(x);\n', 'Test'),
    ('undefined_flag', '@Engine("sqlite");\nT("${nope}", "${neither}");\nTest(x) :- T(x, y);\n',
     'Test'),
    ('empty_recursion', '@Engine("sqlite");\nR(x) :- R(x);\nTest(x) :- R(x);\n', 'Test'),
    ('iteration_no_predicates', '@Engine("sqlite");\nT(1);\n@Ground(P);\nP(x) :- T(x);\n'
                                '@Iteration(It, repetitions: 2);\nTest(x) :- P(x);\n', 'Test'),
]


@st.composite
def failing_incantation_program(draw):
    """A main file that carries the experimental-syntax incantation and then FAILS to
    parse: whatever the parser switched on must not outlive the failed parse."""
    where = draw(st.sampled_from(['comment', 'block_comment']))
    inc = '# ' + INCANTATION if where == 'comment' else '/* ' + INCANTATION + ' */'
    broken = draw(st.sampled_from(['P(x :- T(x);', 'P(x) :- T(x', 'P(x) :- T(x)) ;',
                                   'P("a) :- T(x);']))
    text = '@Engine("sqlite");\n%s\nT(%d);\n%s\nTest(x) :- T(x);\n' % (
        inc, draw(st.integers(0, 99)), broken)
    return {'text': text, 'preds': ['Test'],
            'labels': ['shape:failing', 'failing:incantation_then_parse_error'],
            'role': 'failing', 'multiset': False}


@st.composite
def failing_program(draw):
    name, text, pred = draw(st.sampled_from(FAILING))
    # make items distinct: a harmless extra fact with a drawn constant
    text = text + 'Pad%d(%d);\n' % (draw(st.integers(0, 3)), draw(st.integers(0, 99)))
    return {'text': text, 'preds': [pred], 'labels': ['shape:failing', 'failing:' + name],
            'role': 'failing', 'multiset': False}


# ------------------------------------------------------------------ plain programs

# ------------------------------------------------------------------ dialect-table sensitive

BUILTIN_EXPRS = ['x % y', 'x / y', 'x ^ y', 's ++ "z"', 'ArrayConcat(l, [3])', 'Size(l)',
                 'Split(s, ",")', 'Join(Split(s, ","), "+")', 'ToString(x)',
                 'Greatest(x, y)', 'Least(x, y)', 'Sort(l)', 'Range(y)', 'Element(l, 0)',
                 'ToInt64(ToString(x))', 'x * y - x', '(if x in l then 1 else 0)',
                 'Abs(x - y)', 'Length(s)', 'Upper(s)', 'Substr(s, 1, 2)',
                 # every further entry has a per-dialect SQL template too (measured from
                 # dialects.*.BuiltInFunctions / InfixOperators on the pinned tree)
                 'Log(x)', 'ToFloat64(x)', 'ToInt64(s)', 'Format("%d", x)', 'Like(s, "a%")',
                 'Replace(s, "a", "b")', 'RangeOf(l)', 'IsNull(x)', 'Join(l, "-")',
                 '(if x in Range(y) then 1 else 0)', 'DateAddDay("2020-01-01", x)',
                 'DateDiffDay("2020-01-02", "2020-01-01")', 'MagicalEntangle(x, y)',
                 'JsonExtract(s, "$")', 'Rand()', 'Least(x, y, 7)', 'Sort(Split(s, ","))',
                 'ArrayConcat(Range(y), l)', 'Size(Split(s, ","))']
BUILTIN_AGGS = ['AnyValue= x', 'Count= y', 'List= x', 'Set= y', 'StringAgg= s',
                'LogicalAnd= (x > y)', 'LogicalOr= (x > y)', 'Sum= x', 'Max= x',
                'Array= (x -> y)', 'ArgMax= (x -> y)', 'Avg= x']
ENGINES_8 = ['sqlite', 'duckdb', 'psql', 'bigquery', 'trino', 'presto', 'clickhouse',
             'databricks', None]


@st.composite
def builtin_program(draw, engine='<draw>'):
    """Infix operators, built-in functions and aggregations whose SQL template is chosen
    per dialect: the text compiled for one engine must not depend on which engines were
    compiled earlier in the process (class-level function / operator tables)."""
    if engine == '<draw>':
        engine = draw(st.sampled_from(ENGINES_8))
    names = draw_names(draw, 4)
    t, p, agg = names[0], names[1], names[2]
    lines = [engine_line(engine).strip()] if engine else []
    lines.append('%s(x: %d, y: %d, l: [1, 2], s: "a,b");' % (
        t, draw(st.integers(3, 9)), draw(st.integers(1, 3))))
    k = draw(st.integers(2, 7))
    exprs = draw(st.lists(st.sampled_from(BUILTIN_EXPRS), min_size=k, max_size=k, unique=True))
    fields = ', '.join('f%d: %s' % (i, e) for i, e in enumerate(exprs))
    body = '%s(x:, y:, l:, s:)' % t
    if draw(st.booleans()):
        body += ', x in l | %s, x > 0' % body
    lines.append('%s(%s) :- %s;' % (p, fields, body))
    lines.append('Test(%s) :- %s(%s);' % (', '.join('f%d:' % i for i in range(k)), p,
                                         ', '.join('f%d:' % i for i in range(k))))
    preds = ['Test']
    labels = ['shape:builtins', 'engine:%s' % (engine or 'default')]
    na = draw(st.integers(0, 3))
    if na:
        aggs = draw(st.lists(st.sampled_from(BUILTIN_AGGS), min_size=na, max_size=na,
                             unique=True))
        lines.append('%s(k: y, %s) distinct :- %s(x:, y:, l:, s:);' % (
            agg, ', '.join('a%d? %s' % (i, a) for i, a in enumerate(aggs)), t))
        preds.append(agg)
        labels.append('builtin_aggregations')
    return {'text': '\n'.join(lines) + '\n', 'preds': preds, 'labels': labels,
            'role': 'gen', 'multiset': False, 'engine': engine or 'default'}


@st.composite
def builtin_trio(draw):
    """Three built-in programs for pairwise different engines (every shard's histories
    need engine switches)."""
    engs = list(draw(st.permutations(ENGINES_8)))[:3]
    return tuple(draw(builtin_program(engine=e)) for e in engs)


@st.composite
def plain_program(draw):
    from lv import gen, model
    rng = draw(st.randoms(use_true_random=False))
    prog = gen.gen_program(rng, p_colnames=0.0)
    text = model.print_program(prog)
    preds = [p for p in prog['preds'] if p.startswith('I')][:2]
    if not preds:
        preds = list(prog['preds'])[:1]
    return {'text': text, 'preds': preds, 'labels': ['shape:plain', 'engine:sqlite'],
            'role': 'gen', 'multiset': False}


@st.composite
def import_pair(draw):
    """Two programs importing modules of the same names (lib.alpha, ...) with different
    contents from different roots: what one process parsed for the first program must
    not be served to the second."""
    return (draw(import_program()), draw(import_program()))


def program_item(exclude_d3=True):
    """Mixed strategy of generated items (role gen/failing/incantation)."""
    parts = [rec_program(), rec_program(), rec_program(), functor_program(),
             functor_program(), iteration_program(), import_program(), udf_program(),
             plain_program(), failing_program(), tight_program(), incantation_program(),
             builtin_program(), builtin_program(), builtin_program()]
    return st.one_of(parts)
