"""C18: order_by and limit select the first K rows in the given order.

A program of the typed generator gets one or two *ordered* predicates (an @OrderBy key
list that is a total order over the predicate's rows and/or a @Limit K, spelled as
annotations or as the `order_by(..) limit(..)` denotations) and deliberately shaped
consumers of them (join, predicate-level aggregation, negation, aggregating expression,
functional call, chain through an injectible pass-through, self-join), under the
plan-selecting annotations @With/@NoWith/@NoInject/@Ground.  Oracle = lv/ref.py:
sort by the key list, truncate; the ordered predicate as final target is compared as a
LIST of rows, a consumer as a multiset computed from exactly the first K rows.
"""
import collections
import os
import sqlite3
import traceback

from lv import core, model, gen, drive, ref, canon
from lv.model import mk_rule
from lv.props import common

ID = 'C18'
BUDGET = {'quick': 1600, 'thorough': 8000}          # generated programs
RULE = ('programs from the typed generator plus 1-2 ordered predicates (facts / single '
        'injectible-shaped rule / several rules / disjunction / distinct+aggregation / '
        'functional / constant rows / reading another ordered predicate / 25 %: a wide 5-10 '
        'column table or a rule permuting its columns, with many ties on the leading keys and '
        'mostly separate direction tokens, so that lists of >= 10 @OrderBy items occur in '
        'about one target in eight; key list = a '
        'permutation or a minimal total prefix of the columns, or none (limit only), with '
        'asc/desc spelled "c", "c asc", "c desc", "c DESC" or as a separate token "c","DESC" / '
        '"desc" / "asc" / "ASC"; K from 0 to n+2 or '
        'absent; @OrderBy/@Limit annotations before or after the rules or order_by()/'
        'limit() denotations on one rule; 25 % of the programs with type checking on so '
        'that CheckOrderByClause runs) and 1-3 consumers per program reading the ordered '
        'predicate by join, self-join, predicate-level aggregation, negation, aggregating '
        'expression, functional call, or through an injectible pass-through, under {none,'
        '@With,@NoWith,@NoInject,@Ground,@NoInject+@NoWith,@NoInject+@With} on every '
        'predicate. Every ordered predicate (rows as a LIST when it has keys) and every '
        'predicate depending on one (rows as a multiset) is run on SQLite and compared '
        'with the reference evaluator (sort by the keys, take the first K; for a limit '
        'without keys over non-identical rows: some choice of K rows must explain the '
        'result). Non-trivial = final target: keys, 0 < K < n and the requested order '
        'differs from the evaluation order of the rows; consumer: removing the limit(s) '
        'changes the consumer\'s reference result. Distinct by (program text, predicate).')
ASSUMPTIONS = ['reference evaluator lv/ref.py is the oracle (Evaluator.order_limit)',
               'CPython sqlite3; key columns are null-free ints or lowercase-ASCII strings '
               '(BINARY collation = code point order)',
               'answers are asserted only when unique: keys are total over the rows (tied '
               'rows identical) or the limit does not truncate; a limit without keys is '
               'checked existentially (<= 300 candidate truncations); otherwise inconclusive',
               '@Ground uses the in-memory logica_test database SQLite attaches by default',
               'only the documented/used key spellings "col", "col asc|desc|DESC" and the '
               'separate "DESC" token (used by the repository\'s own examples)',
               'under type checking any diagnostic other than CheckOrderByClause\'s is '
               'counted inconclusive (type inference is C05)',
               'st.randoms(use_true_random=True): one Hypothesis-drawn 64-bit seed per '
               'program (see strategy())']

# Known finding D5 (`@Limit(P, 0)` is ignored: LimitClause tests `if limit:`): the generator
# replaces K = 0 by a K in 1..n-1 and counts the exclusion; VERIF_C18_NO_EXCLUDE=1 re-derives it.
# D5 was repaired in /repo (fix: 6c90c71): nothing excluded unless VERIF_C18_EXCLUDE_D5=1.
EXCLUDE_D5 = bool(os.environ.get('VERIF_C18_EXCLUDE_D5'))
D5_QUIRK = 'D5_limit_zero_ignored'
# Finding D12 (type-checking engines only): CheckOrderByClause accepts the separate tokens
# "asc"/"desc" (lowercase) while OrderByClause understands only the separate token "DESC"
# (uppercase): `@OrderBy(P, "col0", "DESC")`, the spelling of the repository's own
# examples, is refused with "ordered by columns DESC which it lacks" as soon as type
# checking is on.  With the flag set, type-checked programs spell it "col0 DESC".
# D12 was repaired in /repo (fix: 7aa8b1c): nothing excluded unless VERIF_C18_EXCLUDE_D12=1.
EXCLUDE_D12 = bool(os.environ.get('VERIF_C18_EXCLUDE_D12'))
D12_QUIRK = 'D12_separate_DESC_token_refused_by_type_check'
TYPECHECK_PCT = 25
ENGINE_TC = '@Engine("sqlite", type_checking: true);'

OPTS = dict(p_colnames=0.0, p_composite_col=0.0, p_null_fact=0.0, p_neg=0.15, p_agg=0.2,
            p_distinct=0.2, p_or=0.15, p_fcall=0.08, p_two_rules=0.2, p_value=0.3,
            agg_ops=('Sum', 'Min', 'Max', '+'), n_edb=(2, 3), n_inj=(0, 1), max_rows=6,
            nest_depth=1)
PLANS = ((), ('@NoInject',), ('@With',), ('@NoWith',), ('@NoInject', '@NoWith'),
         ('@NoInject', '@With'), ('@Ground',))
PLANS_ORDERED = PLANS + ((), (), ('@NoWith',))
P_SHAPES = ('edb', 'single', 'single', 'single', 'single', 'const', 'const', 'multi',
            'or', 'distinct')
C_KINDS = ('join', 'join', 'agg', 'agg', 'neg', 'combine', 'combine', 'self2', 'chain',
           'gen', 'fcall')
KEY_MODES = ('all', 'all', 'all', 'all', 'prefix', 'prefix', 'prefix', 'none', 'none',
             'none')
STYLES = ('plain', 'plain', 'plain', 'asc', 'asc', 'desc', 'desc', 'desc', 'DESC', 'DESC',
          'sepDESC', 'sepDESC', 'sepdesc', 'sepasc', 'sepASC')
# wide ordered predicates (5-10 columns): mostly separate direction tokens, so that the
# @OrderBy / order_by(...) argument list regularly has 10 and more items
WIDE_STYLES = ('plain', 'sepDESC', 'sepDESC', 'sepdesc', 'sepdesc', 'sepasc', 'sepasc',
               'sepASC', 'desc', 'asc')
SEP_STYLES = {'sepDESC': 'DESC', 'sepdesc': 'desc', 'sepasc': 'asc', 'sepASC': 'ASC'}
DESC_STYLES = ('desc', 'DESC', 'sepDESC', 'sepdesc')
WIDE_PCT = 25


# ------------------------------------------------------------------ spec -> program

def colname(f):
    return 'col%d' % f if isinstance(f, int) else f


def key_strings(keys):
    out = []
    for f, style in keys:
        c = colname(f)
        if style == 'plain':
            out.append('"%s"' % c)
        elif style in SEP_STYLES:
            out.append('"%s"' % c)
            out.append('"%s"' % SEP_STYLES[style])
        else:
            out.append('"%s %s"' % (c, style))
    return out


def semantic(prog, drop_spec_of=None, drop_limits=False, limit0_ignored=False):
    """Program with order_by / limit maps for the reference evaluator."""
    p = dict(prog)
    ob, lim = {}, {}
    for name in sorted(prog.get('ospec', {})):
        s = prog['ospec'][name]
        if name == drop_spec_of:
            continue
        if s['keys']:
            ob[name] = [(f, style in DESC_STYLES) for f, style in s['keys']]
        k = s.get('limit')
        if k is not None and not drop_limits and not (limit0_ignored and k == 0):
            lim[name] = k
    p['order_by'], p['limit'] = ob, lim
    return p


def render(prog):
    """-> program text with the annotations / denotations of ospec and plan."""
    p = dict(prog)
    rules = [dict(r) for r in prog['rules']]
    for r in rules:
        r['denot'] = ()
    top, bottom = [], []
    defined = [r['pred'] for r in rules]
    for name in sorted(prog.get('ospec', {})):
        s = prog['ospec'][name]
        mine = [r for r in rules if r['pred'] == name]
        if not mine:
            continue
        tgt = mine[s.get('rule', 0) % len(mine)]
        sink = top if s.get('pos', 'top') == 'top' else bottom
        den = []
        if s['keys']:
            ks = ', '.join(key_strings(s['keys']))
            if s.get('oform') == 'denot':
                den.append('order_by(%s)' % ks)
            else:
                sink.append('@OrderBy(%s, %s);' % (name, ks))
        if s.get('limit') is not None:
            if s.get('lform') == 'denot':
                den.append('limit(%d)' % s['limit'])
            else:
                sink.append('@Limit(%s, %d);' % (name, s['limit']))
        tgt['denot'] = tuple(den)
    for name in sorted(prog.get('plan', {})):
        if name in defined:
            for a in prog['plan'][name]:
                top.append('%s(%s);' % (a, name))
    p['rules'] = rules
    p['ann'] = list(prog.get('ann', [])) + top
    text = model.print_program(p, ENGINE_TC) if prog.get('typecheck') else \
        model.print_program(p)
    if bottom:
        text += '\n'.join(bottom) + '\n'
    return text


# ------------------------------------------------------------------ generator

def pct(rng, p):
    """True with probability p/100 (integer draw: with st.randoms(use_true_random=False)
    the float draws behind rng.random() are skewed towards 0.0, see strategy())."""
    return rng.randint(0, 99) < p


class OGen(gen.Gen):
    """Typed generator + bodies that are forced to read a given predicate."""

    def __init__(self, rng, **opts):
        gen.Gen.__init__(self, rng, **opts)
        self._cons = None

    def focused(self, names, fn):
        saved = self.concrete
        self.concrete = list(names)
        try:
            return fn()
        finally:
            self.concrete = saved

    def with_opts(self, fn, **o):
        saved = dict(self.o)
        self.o.update(o)
        try:
            return fn()
        finally:
            self.o = saved

    def body(self, env, depth=1, nlit=None):
        if self._cons is None:
            return gen.Gen.body(self, env, depth, nlit)
        rng = self.rng
        P, kind = self._cons
        others = [n for n in self.concrete if n != P] or list(self.concrete)
        lits = []
        if kind == 'light':
            # few filters: the ordered predicate should have several rows
            lits.append(self.call(env))
            for _ in range(rng.choice((0, 1, 1))):
                lits.append(self.binding_literal(env, depth))
            for _ in range(rng.choice((0, 0, 1))):
                lits.append(self.filter_literal(env, depth))
        elif kind == 'pass':
            lits.append(self.call(env, name=P, fresh_only=True))
        elif kind in ('join', 'agg'):
            lits.append(self.call(env, name=P))
            for _ in range(rng.choice((0, 1, 1, 2))):
                lits.append(self.binding_literal(env, depth))
            for _ in range(rng.choice((0, 0, 1))):
                lits.append(self.filter_literal(env, depth))
        elif kind == 'self2':
            lits.append(self.call(env, name=P))
            lits.append(self.call(env, name=P))
            for _ in range(rng.choice((0, 0, 1))):
                lits.append(self.filter_literal(env, 0))
        elif kind == 'neg':
            lits.append(self.call(env, name=rng.choice(others)))
            if pct(rng, 30):
                lits.append(self.binding_literal(env, 0))
            lits.append(self.focused([P], lambda: self.negation(env, 1)))
        elif kind == 'combine':
            lits.append(self.call(env, name=rng.choice(others)))
            if pct(rng, 30):
                lits.append(self.binding_literal(env, 0))
            lits.append(self.focused([P], lambda: self.combine(env, 1)))
        elif kind == 'fcall':
            lits.append(self.call(env, name=rng.choice(others)))
            s = self.sig[P]
            fields = self.pick_fields(s, atoms_only=True)
            e = ('fcall', P, tuple((f, self.expr(ft, dict(env), 1, False))
                                   for f, ft in fields))
            v = self.newvar(env, s['value'])
            lits.append(('assign', v, e, '=='))
            self.labels.add('fcall')
        else:
            raise ValueError(kind)
        return lits

    def consumer(self, name, P, kind):
        self._cons = (P, kind)
        try:
            if kind == 'agg':
                self.with_opts(lambda: self.idb(name), p_distinct=1.0, p_or=0.0)
            elif kind == 'pass':
                self.with_opts(lambda: self.idb(name), p_distinct=0.0, p_or=0.0,
                               p_two_rules=0.0)
            else:
                self.idb(name)
        finally:
            self._cons = None

    def wide(self, name, as_rule):
        """A 5-10 column predicate whose leading columns tie a lot (small value
        domains): facts `W0`, optionally read by one rule `name` that permutes the
        columns.  Returns the name of the predicate to order."""
        rng = self.rng
        ncol = rng.choice((5, 6, 6, 7, 7, 8, 10))
        types = [rng.choice(('N', 'N', 'N', 'S')) for _ in range(ncol)]

        def layout():
            npos = rng.randint(0, ncol)
            return [i if i < npos else 'f%d' % i for i in range(ncol)]
        wname = 'W0'
        for k in [k for k in self.colvals if k[0] == wname]:
            del self.colvals[k]
        wf = layout()
        self.sig[wname] = {'fields': tuple(zip(wf, types)), 'value': None}
        doms = [(rng.sample((0, 1, 2, 3, 5), rng.randint(2, 3)) if t == 'N' else
                 rng.sample(('a', 'b', 'c', 'ab'), 2)) for t in types]
        for _ in range(rng.randint(5, 8)):
            row = [('lit', rng.choice(d)) for d in doms]
            for f, v in zip(wf, row):
                self.colvals.setdefault((wname, f), []).append(v)
            self.rules.append(mk_rule(wname, tuple(zip(wf, row))))
        self.concrete.append(wname)
        if not as_rule:
            return wname
        perm = rng.sample(range(ncol), ncol)
        pf = layout()
        vs = ['v%d' % i for i in range(ncol)]
        body = (('call', wname, tuple((wf[i], ('var', vs[i])) for i in range(ncol)), ()),)
        head = tuple((pf[j], ('var', vs[i])) for j, i in enumerate(perm))
        self.sig[name] = {'fields': tuple((pf[j], types[i]) for j, i in enumerate(perm)),
                          'value': None}
        self.rules.append(mk_rule(name, head, body))
        self.concrete.append(name)
        return name

    def biased(self, name, P):
        """Ordinary generated predicate whose calls prefer P."""
        self.focused([P, P, P] + [n for n in self.concrete if n != P],
                     lambda: self.idb(name))
        # idb appended the name to the temporary list
        self.concrete.append(name)


def rows_of(g, prog_extra, name, budget=60000):
    p = {'rules': g.rules, 'inj': g.inj}
    p.update(prog_extra)
    ev = ref.Evaluator(p, budget=budget)
    rows = ev.rows(name)
    fields = ev.fields(name)
    return fields, [tuple(r[f] for f in fields) for r in rows]


def atom_ok(v):
    return isinstance(v, (int, str)) and not isinstance(v, bool)


def total_prefix(rows, idx):
    """Is the projection on column indices idx injective on distinct rows?"""
    seen = {}
    for r in rows:
        k = tuple(r[i] for i in idx)
        if seen.setdefault(k, r) != r:
            return False
    return True


def deps_closure(rules, name):
    _, seen = common.closure_rules({'rules': rules}, name)
    return seen


def make_ordered(g, name, ospec, col, reads=None, typecheck=False):
    """Create (or pick) the ordered predicate and its spec.  Returns name or None."""
    rng = g.rng
    sem = semantic({'ospec': ospec})
    extra = {'order_by': sem['order_by'], 'limit': sem['limit']}
    shape = rng.choice(P_SHAPES)
    mode = rng.choice(KEY_MODES)
    if mode == 'none':
        # a limit without an order is the only case where OkInjection's LimitOf test
        # decides: favour the shapes that would otherwise be injected
        shape = rng.choice(('single', 'single', 'single', 'const', 'const', 'edb', 'multi'))
    if reads is not None:
        shape = rng.choice(('nested_join', 'nested_join', 'nested_agg'))
    elif mode != 'none' and 'W0' not in g.sig and pct(rng, WIDE_PCT):
        shape = rng.choice(('wide_facts', 'wide_rule', 'wide_rule'))
        mode = rng.choice(('all', 'all', 'all', 'all', 'all', 'all', 'all', 'prefix'))
    chosen = None
    for attempt in range(6):
        n_rules = len(g.rules)
        snap = (dict(g.sig), list(g.concrete))
        if shape == 'edb':
            cands = [n for n in g.concrete if n.startswith('E') and n not in ospec]
            if not cands:
                shape = 'single'
                continue
            big = [n for n in cands if sum(1 for r in g.rules if r['pred'] == n) >= 3]
            cand = rng.choice(big or cands)
        elif shape.startswith('wide'):
            cand = g.wide(name, shape == 'wide_rule')
        else:
            o = dict(p_two_rules=0.0, p_distinct=0.0, p_or=0.0)
            if shape == 'multi':
                o['p_two_rules'] = 1.0
            elif shape == 'or':
                o['p_or'] = 1.0
            elif shape == 'distinct':
                o['p_distinct'] = 1.0
            if shape == 'nested_join':
                g.with_opts(lambda: g.consumer(name, reads, 'join'), **o)
            elif shape == 'nested_agg':
                g.consumer(name, reads, 'agg')
            elif rng.choice((0, 1, 1)):
                g.with_opts(lambda: g.consumer(name, None, 'light'), **o)
            else:
                g.with_opts(lambda: g.idb(name), **o)
            cand = name
            if shape == 'const':
                consts = None
                for r in g.rules[n_rules:]:
                    s = g.sig[name]
                    if consts is None:
                        consts = [g.lit_of(t) for f, t in s['fields']]
                        cval = g.lit_of(s['value']) if s['value'] else None
                    r['head'] = tuple((f, c) for (f, t), c in zip(s['fields'], consts))
                    if s['value']:
                        r['value'] = cval
        try:
            fields, rows = rows_of(g, extra, cand)
        except Exception:
            rows = None
        ok = rows is not None and len(fields) > 0 and \
            all(atom_ok(v) for r in rows for v in r)
        if ok and (len(rows) >= 3 or (len(rows) == 2 and pct(rng, 50)) or
                   (len(rows) >= 1 and (attempt == 5 or pct(rng, 10)))):
            chosen = cand
            break
        if shape != 'edb':
            del g.rules[n_rules:]
            g.sig, g.concrete = snap
        if attempt == 3:
            shape = 'edb' if reads is None else shape
    if chosen is None:
        return None, None
    n = len(rows)
    ncol = len(fields)
    identical = len(set(rows)) <= 1
    # ---- keys
    perm = rng.sample(range(ncol), ncol)
    keys_idx = perm
    if mode == 'prefix':
        # minimal total prefix of the permutation
        for j in range(1, ncol + 1):
            if total_prefix(rows, perm[:j]):
                keys_idx = perm[:j]
                break
        col.label('keys:minimal_total_prefix')
    elif mode == 'none':
        keys_idx = []          # limit only
    else:
        col.label('keys:all_columns')
    styles = WIDE_STYLES if shape.startswith('wide') else STYLES
    keys = [[fields[i], rng.choice(styles)] for i in keys_idx]
    if EXCLUDE_D12:
        # (legacy, off by default) separate direction tokens only in the form both
        # functions understood before fix 7aa8b1c: none under type checking, "DESC" else
        for kk in keys:
            if kk[1] in SEP_STYLES and (typecheck or kk[1] != 'sepDESC'):
                kk[1] = 'desc' if kk[1] in DESC_STYLES else 'asc'
                col.exclude('D12_separate_direction_token')
    # ---- K
    r = rng.randint(0, 99) / 100.0
    if n >= 2 and r < 0.68:
        k = rng.randint(1, n - 1)
    elif r < 0.76:
        k = n
    elif r < 0.84:
        k = n + rng.randint(1, 2)
    elif r < 0.93:
        k = 0
    else:
        k = None if keys else n
    if k == 0 and EXCLUDE_D5:
        col.exclude('D5_limit_zero')
        k = rng.randint(1, max(1, n - 1))
    if not keys and k is not None and k < n and not identical:
        # a limit without an order: any K rows are right (existential oracle); keep the
        # number of candidate truncations small
        if n_choose(n, k) > MAX_CANDIDATES:
            k = n + rng.randint(0, 2)
            col.label('limit_only:not_truncating')
        else:
            col.label('limit_only:any_k_rows')
    spec = {'keys': keys, 'limit': k,
            'oform': rng.choice(('ann', 'denot')), 'lform': rng.choice(('ann', 'denot')),
            'rule': rng.randint(0, 5), 'pos': rng.choice(('top', 'top', 'bottom'))}
    return chosen, (spec, shape)


def gen_case(rng, col):
    g = OGen(rng, **OPTS)
    o = g.o
    for i in range(rng.randint(*o['n_edb'])):
        g.edb('E%d' % i)
    for i in range(rng.randint(*o['n_inj'])):
        g.make_inj('J%d' % i)
    for i in range(rng.choice((0, 0, 1, 2))):
        g.idb_nonempty('I%d' % i)
    ospec, shapes, ckind = {}, {}, {}
    typecheck = pct(rng, TYPECHECK_PCT)
    P, ss = make_ordered(g, 'P0', ospec, col, typecheck=typecheck)
    if P is None:
        return None
    ospec[P], shapes[P] = ss
    ordered = [P]

    for i in range(rng.randint(1, 3)):
        kind = rng.choice(C_KINDS)
        src = rng.choice(ordered)
        if kind == 'fcall' and not g.sig[src]['value']:
            kind = rng.choice(('join', 'agg', 'neg', 'combine'))
        if kind == 'chain':
            m = 'M%d' % i
            g.consumer(m, src, 'pass')
            ckind[m] = 'pass'
            k2 = rng.choice(('join', 'agg', 'neg', 'combine'))
            g.idb_nonempty('C%d' % i, maker=lambda nm: g.consumer(nm, m, k2))
            ckind['C%d' % i] = 'chain_' + k2
        elif kind == 'gen':
            g.idb_nonempty('C%d' % i, maker=lambda nm: g.biased(nm, src))
            ckind['C%d' % i] = 'gen'
        else:
            g.idb_nonempty('C%d' % i, maker=lambda nm: g.consumer(nm, src, kind))
            ckind['C%d' % i] = kind
        if i == 0 and pct(rng, 30):
            # a second ordered+limited predicate reading the first one
            P1, ss = make_ordered(g, 'P1', ospec, col, reads=P, typecheck=typecheck)
            if P1 is not None:
                ospec[P1], shapes[P1] = ss
                ordered.append(P1)
    plan = {}
    names = []
    for r in g.rules:
        if r['pred'] not in names:
            names.append(r['pred'])
    for nm in names:
        if nm in ospec and not ospec[nm]['keys']:
            pl = rng.choice(PLANS + ((), (), (), ('@NoWith',), ('@NoWith',), ('@NoWith',)))
        elif nm in ospec:
            pl = rng.choice(PLANS_ORDERED)
        else:
            pl = rng.choice(PLANS) if pct(rng, 25) else ()
        if pl:
            plan[nm] = list(pl)
    prog = g.result()
    prog['ospec'] = ospec
    prog['plan'] = plan
    prog['shapes'] = shapes
    prog['ckind'] = ckind
    prog['typecheck'] = typecheck
    return prog


def targets(prog):
    names = []
    for r in prog['rules']:
        if r['pred'] not in names:
            names.append(r['pred'])
    out = []
    for nm in names:
        if nm in prog['ospec']:
            out.append(nm)
            continue
        cl = deps_closure(prog['rules'], nm)
        if any(p in cl for p in prog['ospec']):
            out.append(nm)
    return out


# ------------------------------------------------------------------ oracle

MAX_CANDIDATES = 300


def ref_rows(prog, pred, overrides=None, **kw):
    ev = ref.Evaluator(semantic(prog, **kw), overrides=overrides, budget=150000)
    fields = ev.fields(pred)
    return fields, [tuple(r[f] for f in fields) for r in ev.rows(pred)]


def n_choose(n, k):
    r = 1
    for i in range(k):
        r = r * (n - i) // (i + 1)
    return r


def determinate(prog, pred):
    """-> (reason or None, pre, loose).  pre: ordered predicate in the closure of pred ->
    (fields, rows before ordering/truncation).  loose: the (at most one) predicate whose
    limit has no order to define "first" (no keys, truncating, rows not all identical):
    any K of its rows are a correct answer, the oracle becomes existential."""
    pre = {}
    loose = []
    cl = deps_closure(prog['rules'], pred)
    for q in sorted(prog['ospec']):
        if q not in cl:
            continue
        s = prog['ospec'][q]
        fields, rows = ref_rows(prog, q, drop_spec_of=q)
        pre[q] = (fields, rows)
        k = s.get('limit')
        truncating = k is not None and k < len(rows)
        idx = [fields.index(f) for f, style in s['keys']]
        if any(v is None for r in rows for v in r):
            return 'null_in_ordered_predicate', pre, loose
        total = total_prefix(rows, idx)
        if s['keys'] and not total and (q == pred or truncating):
            return 'order_not_total', pre, loose
        if truncating and not total:
            loose.append(q)
    if len(loose) > 1:
        return 'several_unordered_truncations', pre, loose
    if loose:
        q = loose[0]
        for q2 in pre:
            if q2 != q and q in deps_closure(prog['rules'], q2):
                # the totality of q2's keys was established for one choice of rows only
                return 'ordered_over_unordered_truncation', pre, loose
        if n_choose(len(pre[q][1]), prog['ospec'][q]['limit']) > MAX_CANDIDATES:
            return 'too_many_candidate_truncations', pre, loose
    return None, pre, loose


def candidates(prog, pred, pre, loose):
    """List of acceptable expected row lists for pred (one unless `loose`)."""
    import itertools
    if not loose:
        fields, exp = ref_rows(prog, pred)
        return fields, [exp]
    q = loose[0]
    qfields, rows = pre[q]
    k = prog['ospec'][q]['limit']
    seen, out, fields = set(), [], None
    for comb in itertools.combinations(range(len(rows)), k):
        sub = [rows[i] for i in comb]
        key = tuple(sorted(map(repr, sub)))
        if key in seen:
            continue
        seen.add(key)
        ov = {q: [collections.OrderedDict(zip(qfields, r)) for r in sub]}
        fields, exp = ref_rows(prog, pred, overrides=ov)
        out.append(exp)
    return fields, out


def actual(text, pred, rules):
    try:
        hdr, rows, sql = drive.run(text, pred, rules=rules)
    except drive.Interrupted:
        return 'inconclusive', 'sqlite_budget', '', None
    except drive.DIAGNOSTICS as e:
        msg = common.first_line(e)
        return 'fail', 'rejected_valid:%s:%s' % (type(e).__name__, common.msg_class(msg)), \
            'compiler refused a valid program: %s\n%s' % (type(e).__name__, msg), None
    except sqlite3.Error as e:
        # root cause class = the message without the offending identifier
        return 'fail', 'sqlite_error:%s:%s' % (
            type(e).__name__, str(e).split(':')[0].split('"')[0].strip()[:40]), \
            'SQLite refused the compiled SQL: %s' % e, None
    except Exception as e:
        return 'fail', 'internal:' + drive.exc_frame(e), traceback.format_exc()[-1500:], None
    return 'ok', None, sql, (hdr, rows)


def check_pred(prog, pred, text=None, rules=None):
    """-> (status, bucket, detail, info)."""
    info = {}
    text = text or render(prog)
    is_final = pred in prog['ospec']
    branch = 'final' if is_final else 'consumer'
    ordered = is_final and bool(prog['ospec'][pred]['keys'])
    try:
        why, pre, loose = determinate(prog, pred)
        if why:
            return 'inconclusive', why, '', info
        fields, exps = candidates(prog, pred, pre, loose)
    except ref.TooBig:
        return 'inconclusive', 'ref_too_big', '', info
    except ref.Ambiguous:
        return 'inconclusive', 'ref_ambiguous', '', info
    if max(len(e) for e in exps) > common.MAX_ROWS:
        return 'inconclusive', 'result_too_large', '', info
    cols = [colname(f) for f in fields]
    info['pre'] = pre
    info['loose'] = bool(loose)
    info['n_candidates'] = len(exps)
    info['exp'] = exps[0]
    info['n_exp'] = len(exps[0])
    if rules is None:
        try:
            rules = drive.parse_rules(text)
        except Exception:
            rules = None
    st, bucket, detail, res = actual(text, pred, rules)
    tail = '\n--- predicate %s (%s)\n%s' % (pred, branch, text)
    if st == 'inconclusive':
        return st, bucket, '', info
    if st == 'fail':
        if bucket.startswith('rejected_valid:') and 'which it lacks' in detail:
            # CheckOrderByClause: the one diagnostic of type checking that is about C18
            bucket = 'rejected_valid:order_by_column_check'
            if any(style in SEP_STYLES and SEP_STYLES[style] in
                   detail.split('which it lacks')[0] for s in prog['ospec'].values()
                   for f, style in s['keys']):
                bucket += ':quirk:' + D12_QUIRK
        elif prog.get('typecheck') and not bucket.startswith('sqlite_error:'):
            # anything else the type checker says about a generated program is C05's
            # business (the same program without type checking is the other 75 %)
            return 'inconclusive', 'type_checker:' + bucket.split(':')[0], '', info
        elif prog.get('ospec'):
            # differential attribution: a refusal / crash that is identical when every
            # @OrderBy/@Limit is replaced by @NoInject is not about ordering (C01's
            # business, e.g. the circular-`in` diagnostic D11); never hides a failure
            # that the annotations cause
            plan0 = {k: list(v) for k, v in prog.get('plan', {}).items()}
            for q in prog['ospec']:
                if '@NoInject' not in plan0.get(q, ()):
                    plan0[q] = list(plan0.get(q, ())) + ['@NoInject']   # still a table
            st0, bucket0, _, _ = actual(render(dict(prog, ospec={}, plan=plan0)), pred,
                                        None)
            if st0 == 'fail' and bucket0 == bucket:
                return 'inconclusive', 'fails_without_order_and_limit_too:' + \
                    bucket.split(':')[0], '', info
        return st, branch + ':' + bucket, detail + tail, info
    info['sql'] = detail
    hdr, rows = res
    if hdr != cols and not (not cols and len(hdr) == 1):
        return 'fail', branch + ':columns_differ', 'expected columns %r got %r%s' % (
            cols, hdr, tail), info
    if not cols:
        rows = [() for _ in rows]
    d = None
    for exp in exps:
        d1 = canon.rows_match(exp, rows, ordered=ordered)
        if d1 is None:
            info['exp'] = exp
            info['n_exp'] = len(exp)
            return 'ok', None, '', info
        d = d or d1
    exp = exps[0]
    bucket = 'rows_differ'
    if ordered and any(canon.rows_match(e, rows, ordered=False) is None for e in exps):
        bucket = 'order_differs'
    elif any(s.get('limit') == 0 for s in prog['ospec'].values()):
        # attribution to the recorded deviation D5 (never used to decide "pass")
        try:
            _, exp2 = ref_rows(prog, pred, limit0_ignored=True)
            if canon.rows_match(exp2, rows, ordered=ordered) is None:
                bucket = 'rows_differ:quirk:' + D5_QUIRK
        except Exception:
            pass
    show = (lambda rs: list(map(repr, rs))[:12]) if ordered else \
        (lambda rs: sorted(map(repr, rs))[:12])
    if len(exps) > 1:
        d = 'no choice of %d rows of %s (%d distinct choices) explains the result; ' \
            'first choice: %s' % (prog['ospec'][loose[0]]['limit'], loose[0], len(exps), d)
    return 'fail', branch + ':' + bucket, '%s\nexpected %s\nactual   %s%s' % (
        d, show(exp), show(rows), tail), info


def k_class(k, n):
    if k is None:
        return 'none'
    if k == 0:
        return '0'
    if k < n:
        return '1' if k == 1 else 'between'
    return 'n' if k == n else 'above_n'


def case_labels(prog, pred, info):
    labels = []
    cl = deps_closure(prog['rules'], pred)
    is_final = pred in prog['ospec']
    labels.append('branch:' + ('final' if is_final else 'consumer'))
    srcs = [q for q in sorted(prog['ospec']) if q in cl]
    for q in srcs:
        s = prog['ospec'][q]
        n = len(info['pre'][q][1]) if q in info['pre'] else 0
        labels.append('K:' + k_class(s.get('limit'), n))
        labels.append('shape:' + prog.get('shapes', {}).get(q, '?'))
        labels.append('nkeys:%d' % len(s['keys']))
        ni = len(key_strings(s['keys']))
        labels.append('orderby_items:' + ('0' if ni == 0 else '1-4' if ni < 5 else
                                          '5-9' if ni < 10 else '10+'))
        for f, style in s['keys']:
            labels.append('style:' + style)
        if s['keys']:
            labels.append('order_form:' + s['oform'] + ':' + s.get('pos', 'top')
                          if s['oform'] == 'ann' else 'order_form:denot')
        if s.get('limit') is not None:
            labels.append('limit_form:' + s['lform'])
        if not s['keys']:
            labels.append('limit_only')
        if s.get('limit') is None:
            labels.append('order_only')
        pl = prog.get('plan', {}).get(q, ())
        labels.append('plan_ordered:' + ('+'.join(pl) if pl else 'none'))
        if q != pred:
            rs = [r for r in prog['rules'] if r['pred'] == q]
            if len(rs) == 1 and not rs[0].get('distinct') and not (
                    rs[0].get('value') is not None and rs[0]['value'][0] == 'AGG') and \
                    not any(l[0] == 'or' for l in rs[0]['body']):
                labels.append('consumer_of_injectible_shaped')
                if not s['keys'] and 'K:' + k_class(s.get('limit'), n) in (
                        'K:0', 'K:1', 'K:between') and \
                        tuple(pl) in ((), ('@NoWith',)):
                    labels.append('consumer_of_limit_only_truncated_injectible_shaped')
    if len(srcs) > 1:
        labels.append('nested_ordered')
    labels.append('type_checking:' + ('on' if prog.get('typecheck') else 'off'))
    if info.get('loose'):
        labels.append('oracle:any_k_rows(%s)' % ('1' if info['n_candidates'] == 1 else
                                                 '2-9' if info['n_candidates'] < 10 else
                                                 '10+'))
    if not is_final:
        labels.append('kind:' + prog.get('ckind', {}).get(pred, 'organic'))
        pl = prog.get('plan', {}).get(pred, ())
        labels.append('plan_consumer:' + ('+'.join(pl) if pl else 'none'))
    return labels


def sort_rows(rows, fields, keys):
    """Stable multi-pass sort written for the non-triviality measure only."""
    for f, style in reversed(list(keys)):
        i = fields.index(f)
        rows = sorted(rows, key=lambda r, i=i: r[i], reverse=style in DESC_STYLES)
    return rows


def nontrivial(prog, pred, info):
    if pred in prog['ospec']:
        s = prog['ospec'][pred]
        fields, pre = info['pre'][pred]
        k = s.get('limit')
        if not s['keys'] or k is None or not (0 < k < len(pre)):
            return False
        return sort_rows(pre, fields, s['keys']) != pre
    try:
        _, unl = ref_rows(prog, pred, drop_limits=True)
    except Exception:
        return False
    return collections.Counter(map(repr, unl)) != collections.Counter(
        map(repr, info['exp']))


# ------------------------------------------------------------------ runner

def strategy():
    """Hypothesis' st.randoms with use_true_random=True: a random.Random whose 64-bit seed
    is the (only) Hypothesis draw, so a shard is still a pure function of
    (VERIF_SEED, shard, code).  Measured with the default use_true_random=False on this
    generator (thousands of draws per program): the first examples are paired with an
    all-"simplest" twin, then 4 of 5 examples are Hypothesis *mutations* (span copies) of
    an earlier example, ~15 % of the examples overrun the entropy buffer and are
    discarded half-built, and choice()/randint() land on their first alternative 2-3
    times more often than designed (e.g. shape `distinct`: 2 of 2600 targets).  Nothing
    is shrunk by the runner (phases=[generate], delta debugging instead), so the
    per-draw control buys nothing here."""
    from hypothesis import strategies as st
    return st.randoms(use_true_random=True)


def shard(ctx, col):
    drive.enable_library_cache()

    def one(rng):
        prog = gen_case(rng, col)
        if prog is None:
            col.inconc('no_orderable_predicate')
            return
        for k, v in prog.get('excluded', {}).items():
            col.excluded[k] += v
        text = render(prog)
        try:
            rules = drive.parse_rules(text)
        except Exception:
            rules = None
        for pred in targets(prog):
            st, bucket, detail, info = check_pred(prog, pred, text, rules)
            if st == 'inconclusive':
                col.inconc(bucket)
                continue
            if st == 'ok':
                labels = case_labels(prog, pred, info)
                nt = nontrivial(prog, pred, info)
                if nt:
                    labels.append('nontrivial:' + labels[0].split(':')[1])
                col.case((text, pred), nt, labels,
                         sample={'predicate': pred, 'expected_rows': info['n_exp'],
                                 'program': text})
            else:
                col.case((text, pred), False, ['failed'])
                col.fail(bucket, {'prog': model.prog_to_json(prog), 'pred': pred}, detail)
    core.hyp_run(one, strategy(), ctx.budget, ctx.hyp_seed)


def evidence_extra(col):
    lab = col.labels
    return {'summary': {
        'final_targets': lab.get('branch:final', 0),
        'consumer_targets': lab.get('branch:consumer', 0),
        'nontrivial_final': lab.get('nontrivial:final', 0),
        'nontrivial_consumer': lab.get('nontrivial:consumer', 0),
        'consumers_of_injectible_shaped_ordered_predicate':
            lab.get('consumer_of_injectible_shaped', 0),
        'consumers_where_only_the_limit_blocks_injection':
            lab.get('consumer_of_limit_only_truncated_injectible_shaped', 0),
        'targets_with_10_or_more_orderby_items': lab.get('orderby_items:10+', 0),
        'type_checked_targets': lab.get('type_checking:on', 0)}}


def check_case(case):
    drive.enable_library_cache()
    prog = model.prog_from_json(case['prog'])
    prog.setdefault('ospec', {})
    prog.setdefault('plan', {})
    # JSON turned (field, style) pairs into lists and kept int fields: nothing to fix
    st, bucket, detail, info = check_pred(prog, case['pred'])
    return [(bucket, detail)] if st == 'fail' else []


def minimise(case, bucket):
    c = common.minimise_program(case, bucket, check_case)

    def fails(c2):
        try:
            return any(b == bucket for b, d in check_case(c2))
        except Exception:
            return False
    # drop plan annotations, then whole specs, then single keys
    for nm in sorted(c['prog'].get('plan', {})):
        c2 = dict(c, prog=dict(c['prog'], plan={k: v for k, v in c['prog']['plan'].items()
                                                if k != nm}))
        if fails(c2):
            c = c2
    for nm in sorted(c['prog'].get('ospec', {})):
        c2 = dict(c, prog=dict(c['prog'], ospec={k: v for k, v in c['prog']['ospec'].items()
                                                 if k != nm}))
        if fails(c2):
            c = c2
    return c
