"""Replay / batch subprocess of C13: python -m lv.props.c13_sub <in.json> <out.json>
Runs the steps of in.json in this fresh interpreter (PYTHONHASHSEED set by the
caller) and writes the list of observations."""
import json
import sys

BIG_FRAME_FROM = 8       # steps


def main(argv):
    inp, outp = argv
    with open(inp) as f:
        job = json.load(f)
    from lv import core
    from lv.props import c13_lib
    # core.deep_call's big-frame trampoline costs seconds to build per process and pays
    # off only for long jobs (the batches); replays of a few steps call directly
    if len(job['steps']) > BIG_FRAME_FROM:
        res = core.deep_call(c13_lib.run_steps, job['pool'], job['steps'])
    else:
        res = c13_lib.run_steps(job['pool'], job['steps'])
    with open(outp, 'w') as f:
        json.dump(res, f)


if __name__ == '__main__':
    main(sys.argv[1:])
