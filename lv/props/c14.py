"""C14: execution runs each statement after its inputs, the prescribed number of times.

Domain A: synthetic compile-shaped plans handed to concertina_lib.ExecuteLogicaProgram
as fake execution objects.  Domain B: plans compiled by the real compiler from small
generated SQLite programs (several @Ground, deep recursion executed iteratively),
executed on a real connection.  Oracle: invariants over the sql_runner's call log
(lv/plans.py: check_log; lv/planprog.py: check_sql_order) and equality of the tables
of a multi-predicate run with the single-predicate runs."""
import copy
import json
import threading

from lv import core, drive, plans, planprog
from lv.props import common

ID = 'C14'
BUDGET = {'quick': 16000, 'thorough': 160000}     # cases, 1/20 of them domain B
B_SHARE = 20
WALL = {'quick': 900, 'thorough': 5400}
RULE = ('A: random compile-shaped workflow plans (<= 10 actions in a random DAG with '
        'random names, 0-2 data nodes, 0-2 iteration groups that are flat [upper half + '
        'lower half, lower members read upper members, external inputs of the lower half '
        'shared with the upper half] or diamond [declared list, forward reads]; with two '
        'groups, in 60% the later group reads members of the earlier one (its last member '
        'or 1-2 drawn ones; half of these with the groups next to each other, few plain '
        'actions and names in topological order, so that nothing sorts between them), '
        'repetitions 1-4, 1-3 requested predicates incl. one that is also an '
        'intermediate table of another, optional stop-signal file written by the '
        'recording runner during a drawn call / before the run / left empty); one case = '
        'one plan run through ExecuteLogicaProgram together and one predicate at a time. '
        'Oracle over the runner log: a statement, iterated or not, first runs after the '
        'LAST execution of every input outside its own iteration group. '
        'Non-trivial = an iteration group with R >= 2 that has a dependency into or out '
        'of the group. B: 70% generated SQLite programs (1-2 fact tables, 3-7 derived '
        'predicates: filters, joins, unions, swaps, @Ground on ~65%, up to 2 deep '
        'recursions @Recursive(P, 21..44), self or mutual, which compile to @Iteration '
        'groups of 2 or 4 statements with 9-21 repetitions), 1-4 requested predicates; '
        'in 45% of these programs a block of 2-3 grounded producers, one non-injectable '
        'not grounded helper over each (distinct / distinct self-join / two rules: a WITH '
        'table inside every statement reading it), 2-3 mostly grounded readers each reading '
        'two different helpers, and a sink over the readers (drawn names: a reader sorts '
        'before or after the producers behind its helpers); plan level: every table a '
        "statement's SQL reads is written by an ancestor in the recorded dependency edges; "
        '30% hand-written @Iteration programs: 1-3 counter loops over @Ground predicates '
        '(seed, 2 or 4 members in the default two-halves mode or 3 in mode "diamond", last '
        'member written back with @Ground(Last, Seed), repetitions 2-5), a later loop '
        'reading the result of an earlier one directly (85%) or through a plain grounded '
        'predicate, a final predicate over the results, requests incl. seeds / readers; '
        'compiled by the real compiler, executed on SQLite; additionally at SQL level: a '
        'statement reading <dataset>.T runs after the last write to T by any statement '
        'outside its own iteration group. Non-trivial = >= 2 grounded '
        'intermediate tables. Distinct by hash of the plan / (program, request).')
ASSUMPTIONS = [
    'the execution objects handed to ExecuteLogicaProgram are the specification of the '
    'plan: statements = table_to_export_map, inputs = dependency_edges between '
    'statements, iterations as declared (a requested predicate that is also an '
    'intermediate table of another request counts as two statements)',
    'domain A contains only iteration groups of the two shapes recursion_library emits '
    '(two-halves: outside inputs of the second half shared with the first half; diamond), '
    'which may read members of an earlier group',
    'B: hand-written two-halves @Iteration whose second half has an outside input of its '
    'own is a known class (Concertina schedules the group on its first member only) and '
    'is excluded by construction unless VERIF_C14_INCLUDE=lower_ext',
    'B: tables read/written by a statement are recognised textually '
    '(CREATE TABLE <db>.<t> AS / logica_test.<t>)',
    'B: the single-predicate run re-uses the execution object compiled for the '
    'multi-predicate run (RunMany and Run build them the same way)',
    'CPython sqlite3; row order of unordered results is not compared']


# ------------------------------------------------------------------ one case

def run_a(plan):
    fails, info = plans.run_plan_case(plan)
    if fails is None:
        raise AssertionError('generated plan outside the domain: %s\n%s' % (
            info['invalid'], json.dumps(plan)))
    return fails, info


def in_fresh_thread(fn, *args):
    """Speed only: see core.deep_call (big-frame trampoline against data-stack chunk
    thrash; the first remedy tried here was a new thread)."""
    return core.deep_call(fn, *args)


def dedupe(fails):
    seen, out = set(), []
    for b, d in fails:
        if b not in seen:
            seen.add(b)
            out.append((b, d))
    return out


def describe_plan(plan):
    return 'plan: ' + json.dumps(plan, sort_keys=True)


def shard(ctx, col):
    drive.enable_library_cache()
    n_b = ctx.budget // B_SHARE
    n_a = ctx.budget - n_b
    shown = {'A': 0, 'B': 0}        # two written-out samples per domain and shard

    def sample(dom, nt, value):
        if nt and shown[dom] < 2:
            shown[dom] += 1
            return value
        return None

    def one_a(rng):
        plan = plans.gen_plan(rng)
        fails, info = run_a(plan)
        labels = plans.plan_labels(plan, info)
        nt = plans.plan_nontrivial(info)
        if nt:
            labels.append('A:nontrivial')
        col.case(('A', json.dumps(plan, sort_keys=True)), nt and not fails,
                 labels + (['failed'] if fails else []),
                 sample=sample('A', nt and not fails, {
                     'domain': 'A', 'plan': plan, 'statement_calls': info['calls']}))
        for b, d in dedupe(fails):
            col.fail('A:' + b, {'dom': 'A', 'plan': plan}, d + '\n' + describe_plan(plan))

    def one_b(rng):
        case = planprog.gen_program(rng)
        for why in case.get('excluded', ()):
            col.exclude('B:' + why)
        o = in_fresh_thread(planprog.check_program, case['text'], case['request'])
        if o.inconclusive:
            col.inconc('B:' + o.inconclusive)
            return
        labels = planprog.program_labels(case, o)
        nt = planprog.program_nontrivial(o)
        if nt:
            labels.append('B:nontrivial')
        col.case(('B', case['text'], case['request']), nt and not o.fails,
                 labels + (['failed'] if o.fails else []),
                 sample=sample('B', nt and not o.fails, {
                     'domain': 'B', 'program': case['text'], 'request': case['request'],
                     'statement_calls': o.info['calls']}))
        for b, d in dedupe(o.fails):
            col.fail('B:' + b, {'dom': 'B', 'text': case['text'],
                                'request': case['request']},
                     '%s\n--- request %s\n%s' % (d, case['request'], case['text']))
    core.hyp_run(one_a, common.strategy(), n_a, ctx.hyp_seed)
    core.hyp_run(one_b, common.strategy(), n_b, ctx.hyp_seed + 500)


def check_case(case):
    drive.enable_library_cache()
    if case['dom'] == 'A':
        fails, info = plans.run_plan_case(case['plan'])
        if fails is None:
            return []           # outside the domain: nothing is claimed
        return [('A:' + b, d + '\n' + describe_plan(case['plan']))
                for b, d in dedupe(fails)]
    o = planprog.check_program(case['text'], case['request'])
    if o.inconclusive:
        return []
    return [('B:' + b, '%s\n--- request %s\n%s' % (d, case['request'], case['text']))
            for b, d in dedupe(o.fails)]


# ------------------------------------------------------------------ minimisation

def _fails(case, bucket):
    try:
        return any(b == bucket for b, d in check_case(case))
    except Exception:
        return False


def _plan_variants(plan):
    """Smaller plans (each must still pass plans.validate to be considered)."""
    members = {m for g in plan['groups'] for m in g['members']}
    for n in plan['nodes']:
        if n in members or n in plan['finals']:
            continue
        p = copy.deepcopy(plan)
        p['nodes'].remove(n)
        p['edges'] = [e for e in p['edges'] if n not in e]
        yield p
    for d in plan['data']:
        p = copy.deepcopy(plan)
        p['data'].remove(d)
        p['data_kind'].pop(d, None)
        p['edges'] = [e for e in p['edges'] if d not in e]
        yield p
    for gi, g in enumerate(plan['groups']):
        if plan.get('stop') and gi in plan['stop']['groups']:
            continue
        p = copy.deepcopy(plan)
        del p['groups'][gi]
        if p.get('stop'):
            p['stop']['groups'] = [x - (x > gi) for x in p['stop']['groups']]
        yield p
    if len(plan['finals']) > 1:
        for f in plan['finals']:
            p = copy.deepcopy(plan)
            p['finals'].remove(f)
            yield p
    for i in range(len(plan['edges'])):
        p = copy.deepcopy(plan)
        del p['edges'][i]
        yield p
    for gi, g in enumerate(plan['groups']):
        if g['R'] > 1:
            p = copy.deepcopy(plan)
            p['groups'][gi]['R'] -= 1
            yield p
    if plan.get('stop'):
        p = copy.deepcopy(plan)
        p['stop'] = None
        yield p
    for k in ('prefix', 'preamble'):
        if plan.get(k):
            p = copy.deepcopy(plan)
            p[k] = False
            yield p


def minimise(case, bucket):
    if case['dom'] == 'A':
        plan = case['plan']
        tests = 0
        progress = True
        while progress and tests < 400:
            progress = False
            for p in _plan_variants(plan):
                if plans.validate(p) is not None:
                    continue
                tests += 1
                if _fails({'dom': 'A', 'plan': p}, bucket):
                    plan = p
                    progress = True
                    break
        return {'dom': 'A', 'plan': plan}
    lines = case['text'].strip().split('\n')
    head, rest = lines[:1], lines[1:]
    request = list(case['request'])

    def mk(ls, req):
        return {'dom': 'B', 'text': '\n'.join(head + list(ls)) + '\n', 'request': req}
    for p in list(request):
        if len(request) > 1:
            req = [q for q in request if q != p]
            if _fails(mk(rest, req), bucket):
                request = req
    rest = core.ddmin(rest, lambda ls: _fails(mk(ls, request), bucket), max_tests=40)
    return mk(rest, request)
