"""C02: aggregation, distinct and negation follow the documented semantics."""
from lv import core, model, gen, drive
from lv.props import common

ID = 'C02'
BUDGET = {'quick': 640, 'thorough': 12000}
RULE = ('programs from the typed generator with the aggregation profile: predicate-level '
        'aggregation (+=, Sum, Min, Max, Count, List, Set, ArgMin, ArgMax; several '
        'aggregated arguments; 2-rule multi-body aggregation; functional P(k) Op= e), '
        'distinct, aggregating expressions in the four spellings correlated with outer '
        'variables, sibling combines re-using local names with one combine reading the '
        'result of another, negation of calls and of conjunctions, null facts; each '
        'intensional predicate compared with the reference evaluator (List as multiset, '
        'Set as set, ArgMin/ArgMax by validity under ties). Non-trivial = result '
        'non-empty and the definition uses aggregation, distinct or negation; distinct '
        'by (program text, predicate).')
ASSUMPTIONS = ['reference evaluator lv/ref.py is the oracle', 'CPython sqlite3',
               'grouping / equality only on atoms; ordering values of ArgMin/ArgMax null-free']
# Open known findings are kept out of the generated domain by construction (flags):
EXCLUDE_EMPTY_COUNT = False     # C02-count-of-nothing: Count{..} of no solution is 0
AGG_OPS = ('Sum', 'Min', 'Max', 'Count', '+', 'List', 'Set', 'ArgMin', 'ArgMax', 'ArgMin2',
           'ArgMax2', 'ArgMax3')
if EXCLUDE_EMPTY_COUNT:
    AGG_OPS = tuple(o for o in AGG_OPS if o != 'Count')
OPTS = dict(p_colnames=0.0, p_head_perm=0.2, p_spread_edb=0.4, p_neg=0.3, p_agg=0.45, p_distinct=0.5, p_sibling_reuse=0.7,
            p_feed_sibling=0.7, p_multi_combine=0.3, p_null_fact=0.06, p_or=0.15, p_fcall=0.05,
            agg_ops=AGG_OPS,
            pred_agg_ops_n=('Sum', 'Min', 'Max', 'Count', '+', 'List', 'Set', 'ArgMin',
                            'ArgMax', 'ArgMax2', 'ArgMin2', 'ArgMin3'),
            pred_agg_ops_s=('Min', 'Max', 'List', 'Set', 'ArgMin', 'ArgMax', 'Count',
                            'ArgMax2', 'ArgMin2'),
            n_idb=(2, 3), nest_depth=2)
NT = {'combine', 'negation', 'distinct', 'pred_aggregation'}


def shard(ctx, col):
    drive.enable_library_cache()

    def one(rng):
        prog = gen.gen_program(rng, **OPTS)
        text = model.print_program(prog)
        for k, v in prog.get('excluded', {}).items():
            col.excluded[k] += v
        for l in prog['labels']:
            col.label('prog:' + l)
        try:
            rules = drive.parse_rules(text)
        except Exception:
            rules = None
        for p in [p for p in prog['preds'] if p.startswith('I')]:
            st, bucket, detail, info = common.run_and_compare(prog, p, text, rules=rules)
            if st == 'inconclusive':
                col.inconc(bucket)
                continue
            feats = common.features(prog, p)
            labels = ['feat:' + f for f in feats]
            if st == 'ok':
                n = info.get('n_exp', 0)
                labels.append('result_empty' if n == 0 else 'result_nonempty')
                col.case((text, p), n > 0 and bool(feats & NT), labels,
                         sample={'predicate': p, 'rows': n, 'program': text})
            else:
                col.case((text, p), False, labels + ['failed'])
                col.fail(bucket, {'prog': model.prog_to_json(prog), 'pred': p}, detail)
    core.hyp_run(one, common.strategy(), ctx.budget, ctx.hyp_seed)


def check_case(case):
    drive.enable_library_cache()
    prog = model.prog_from_json(case['prog'])
    st, bucket, detail, info = common.run_and_compare(prog, case['pred'])
    return [(bucket, detail)] if st == 'fail' else []


def minimise(case, bucket):
    return common.minimise_program(case, bucket, check_case)
