"""C16: type unification (reference_algebra.Unify) is a symmetric idempotent meet;
a clash is reported iff the two types have no common instance; clash-free constraint
sets are order independent.

Three sub-domains: (1) exhaustive ordered pairs of small terms, (2) sampled pairs and
triples of terms at depth <= 3 (shared objects, reference chains), (3) sampled histories
of the constraint operations of the type inference (Unify, UnifyRecordField,
UnifyListElement, TypeReference.CloseRecord) over a pool of references that get aliased
by the earlier operations."""
import itertools
import json
import os
import subprocess
import sys
import traceback

from lv import core
from lv import typemeet as tm
from lv.typemeet import BOT

ID = 'C16'
# Hypothesis-sampled cases (pairs and triples at depth <= 3); IN ADDITION every run
# draws HIST_SHARE histories per sampled case and enumerates the exhaustive depth <= 2
# sub-domain (see evidence_extra).
BUDGET = {'quick': 24000, 'thorough': 200000}
WALL = {'quick': 900, 'thorough': 5400}
EXHAUSTIVE = None       # only the sub-domain described in evidence_extra is exhaustive

# ---- the exhaustively enumerated sub-domain -------------------------------------
# T = F1 u F2, all ORDERED pairs of T x T are unified.
#   F1: every term of nesting depth <= 2 with at most N1 nodes over the full alphabet
#       (7 atoms, fields a, b, 0; open and closed records)
#   F2: every term of nesting depth <= 2 with at most N2 nodes over a reduced alphabet
#       (wider/deeper shapes: two-field records with composite fields)
FULL_ATOMS = tm.ATOMS
FULL_FIELDS = ('a', 'b', 0)
EXH = {
    'quick': dict(n1=3, atoms2=('Any', 'Num', 'Str'), fields2=('a', 0), n2=4, width2=2),
    'thorough': dict(n1=3, atoms2=('Any', 'Singular', 'Sequential', 'Num', 'Str'),
                     fields2=('a', 0), n2=5, width2=2),
}
SAMPLE_FIELDS = ('a', 'b', 0, 1)
# Genuine defect of the unchanged tree (reported to the coordinator): when a composite
# sub-term is the same TypeReference object in two places and a clash occurs inside it,
# the second visit rebuilds the record without the BadType field, so neither side
# reports the clash.  The sampled generator stays away from exactly that class:
# (no common instance) and (a list/record object reachable along two paths).
# Repaired in /repo by fix: 0b4c870 (UnifyFriendlyRecords kept overwriting the BadType):
# the class is generated again; LV_C16_AVOID=1 restores the old exclusion.
AVOID_SHARED_COMPOSITE_CLASH = os.environ.get('LV_C16_AVOID') == '1'
K_SHARED_CLASH = 'clash_lost_in_shared_composite'
MAX_DEPTH = 3

RULE = ('(1) exhaustive: every ordered pair (a, b) of T x T, T = all type terms of '
        'nesting depth <= 2 with <= 3 nodes over {Any, Singular, Sequential, Num, Str, '
        'Bool, Time, [t], open/closed records over fields a, b, 0} united with all terms '
        'of depth <= 2 with <= 4 nodes (quick; <= 5 nodes and 5 atoms in thorough) over '
        '{Any, Num, Str, [t], open/closed records over fields a, 0, width <= 2} '
        '(itertools, split over shards by index); (2) Hypothesis-sampled pairs and '
        'triples of terms of depth <= 3 over fields a, b, 0, 1, the second/third term '
        'usually a perturbed copy of an earlier one, with sub-terms that are the same '
        'TypeReference object in several places, chains of references and bare concrete '
        'values inside lists/records. For each case fresh reference_algebra objects are '
        'built, Unify is called in every order/orientation of the constraints and '
        'VeryConcreteType of every root is compared with an independent meet; Unify is '
        'then repeated. Non-trivial = at least two of the terms are composite, or the '
        'meet is none of the input terms; distinct by hash of the terms and constraints. '
        '(3) Hypothesis-sampled HISTORIES of 1-9 (mostly 2-6) constraint operations as '
        'type_inference/research/infer.py issues them -- Unify(r, s), UnifyRecordField(r, '
        'f, s), UnifyListElement(l, e), r.CloseRecord() -- over a pool of 3-7 '
        'TypeReference objects (mostly Any; ground atoms, Singular/Sequential, small '
        'signature-like terms with shared sub-objects, reference chains, empty open '
        'records as record-literal partners) that become aliased by the earlier '
        'operations; CloseRecord only on a reference that denotes a record at that moment '
        '(record literal: unify with {...}, address the fields, close), histories end at '
        'the first clash, occurs-check histories are skipped. Oracle: a union-find model '
        'of the constraint set (closing applies to the whole unified class; addressing a '
        'field of an open record adds it, of a closed record requires it). After EVERY '
        'operation all pool references are observed with VeryConcreteType: references of '
        'one class denote the same type, nothing known before is lost, the pool equals '
        'the model, a BadType appears iff the model has no common instance; then every '
        'operation is repeated (also each twice in a row) and the history is re-run in '
        'up to 8 other orders (operations between two CloseRecord calls permuted, Unify '
        'arguments flipped) which must give the same types. History non-trivial = >= 2 '
        'operations and a later operation acts on a reference whose class an earlier '
        'operation touched; repeated histories are not counted.')
ASSUMPTIONS = [
    'oracle lv/typemeet.py: structural meet over tree terms and a union-find '
    'formulation for terms sharing nodes, cross-checked against each other on every '
    'case without sharing (a disagreement is a harness error)',
    'a TypeReference object occurring in several places is one unknown (as in '
    'types_of_builtins); cases whose unification would need an infinite type '
    '(occurs check) are skipped, the statement is silent about them',
    'Unify is always called with TypeReference arguments (as every caller in infer.py '
    'does); list elements / record fields may be references or bare concrete values',
    'after a clash nothing is asserted about later unifications (triples); clash = a '
    'BadType anywhere inside VeryConcreteType of a root',
    'workers run with PYTHONHASHSEED=0 (set iteration order inside UnifyFriendlyRecords)',
    'histories: UnifyListElement(l, e) is the constraint "e is a scalar (Singular) and l '
    'is a list of e" (its documented meaning: lists of lists are disallowed); '
    'CloseRecord is the constraint "the record has exactly the fields known now" on the '
    'type, i.e. on every reference unified with it so far; it is order dependent by '
    'nature, so CloseRecord calls are never moved across other operations',
    'histories: CloseRecord is only issued on a reference whose class is a record '
    'according to the model (infer.py calls it on record-literal nodes right after '
    'Unify(node, OpenRecord) and the UnifyRecordField calls; on a non-record it asserts); '
    'all operation arguments are TypeReference objects of the pool',
    'histories: a missed clash whose last operation reaches a list/record object along '
    'two paths is attributed to the known finding clash_lost_in_shared_composite',
]

_RA = [None]


def ra():
    if _RA[0] is None:
        core.setup_repo_imports()
        from type_inference.research import reference_algebra
        _RA[0] = reference_algebra
    return _RA[0]


class OracleBug(Exception):
    pass


# ------------------------------------------------------------------ observing

def norm(v):
    """VeryConcreteType value -> tree term; BOT if a BadType occurs anywhere."""
    R = ra()
    if isinstance(v, R.BadType):
        return BOT
    if isinstance(v, str):
        if v not in tm.ATOMS:
            raise ValueError('unknown atom %r' % (v,))
        return ('atom', v)
    if isinstance(v, list):
        if len(v) != 1:
            raise ValueError('list type with %d elements' % len(v))
        e = norm(v[0])
        return BOT if e == BOT else ('list', e)
    if isinstance(v, dict):
        kind = 'closed' if isinstance(v, R.ClosedRecord) else 'open'
        if not isinstance(v, (R.ClosedRecord, R.OpenRecord)):
            raise ValueError('plain dict in type')
        items = []
        for f, x in v.items():
            n = norm(x)
            if n == BOT:
                return BOT
            items.append((f, n))
        return (kind, tuple(sorted(items, key=lambda fv: tm.fkey(fv[0]))))
    raise ValueError('unexpected value in type: %r' % (type(v),))


def build(nodes, roots):
    """Fresh reference_algebra objects for the pool; returns the root references."""
    R = ra()
    u = tm.uses(nodes, roots)
    under_ref = set(n[1] for n in nodes if n[0] == 'ref')
    objs = {}

    def val(i, allow_raw):
        if i in objs:
            return objs[i]
        k, p, raw = nodes[i]
        if k == 'ref':
            o = R.TypeReference(val(p, False))
            objs[i] = o
            return o
        if k == 'atom':
            conc = p
        elif k == 'list':
            conc = [val(p, True)]
        else:
            cls = R.OpenRecord if k == 'open' else R.ClosedRecord
            conc = cls({f: val(c, True) for f, c in p})
        if allow_raw and raw and u[i] == 1 and i not in under_ref:
            return conc
        o = R.TypeReference(conc)
        objs[i] = o
        return o
    return [val(r, False) for r in roots]


def exc_sig(e):
    tb = traceback.extract_tb(e.__traceback__)
    rp = core.repo_path()
    fr = [f for f in tb if f.filename.startswith(rp)]
    if not fr:
        return type(e).__name__
    f = fr[-1]
    return '%s@%s:%s' % (type(e).__name__, os.path.relpath(f.filename, rp), f.name)


def observe(objs):
    R = ra()
    return [norm(R.VeryConcreteType(o)) for o in objs]


def render(objs):
    R = ra()
    return [R.RenderType(R.VeryConcreteType(o)) for o in objs]


# ------------------------------------------------------------------ the check

def oracle(case):
    """-> dict(skip) or dict(inputs, expected (None if clash), clash, shared)."""
    nodes, roots, ops = case['nodes'], case['roots'], case['ops']
    g0 = tm.Graph(nodes)
    inputs = [g0.expand(r) for r in roots]
    g = tm.Graph(nodes)
    for i, j in ops:
        g.unify(roots[i], roots[j])
    try:
        expanded = [g.expand(r) for r in roots]
    except tm.Cyclic:
        return {'skip': 'cyclic'}
    clash = g.clash is not None
    shared = tm.has_sharing(nodes, roots)
    if not shared:
        # cross-check with the tree formulation: fold the meet over each component
        comp = list(range(len(roots)))

        def find(x):
            while comp[x] != x:
                x = comp[x]
            return x
        for i, j in ops:
            comp[find(i)] = find(j)
        acc = {}
        for r in range(len(roots)):
            c = find(r)
            acc[c] = tm.meet(acc[c], inputs[r]) if c in acc else inputs[r]
        tclash = any(v == BOT for v in acc.values())
        if tclash != clash or (not clash and
                               [acc[find(r)] for r in range(len(roots))] != expanded):
            raise OracleBug('tree meet and graph unification disagree on %s: %s vs %s/%s'
                            % (json.dumps(case), acc, g.clash, expanded))
    return {'inputs': inputs, 'expected': None if clash else expanded, 'clash': clash,
            'why': g.clash, 'shared': shared,
            'shared_composite': shared and tm.has_sharing(nodes, roots, composite=True)}


def orders_of(ops):
    """Every order and orientation of the constraint list (deduplicated)."""
    seen = set()
    out = []
    idx = range(len(ops))
    for perm in itertools.permutations(idx):
        for mask in itertools.product((0, 1), repeat=len(ops)):
            seq = tuple((ops[p][1], ops[p][0]) if mask[n] else (ops[p][0], ops[p][1])
                        for n, p in enumerate(perm))
            if seq not in seen:
                seen.add(seq)
                out.append(seq)
    return out


def run_order(case, orc, seq):
    """One fresh build + the Unify calls in order `seq`.  -> (bucket|None, detail, obs)."""
    R = ra()
    nodes, roots, ops = case['nodes'], case['roots'], case['ops']
    single = len(ops) == 1
    try:
        objs = build(nodes, roots)
        for i, j in seq:
            R.Unify(objs[i], objs[j])
        obs = observe(objs)
        before = render(objs)
    except RecursionError as e:
        if orc['clash']:
            return None, 'recursion_after_clash', None
        return 'exc:' + exc_sig(e), 'RecursionError', None
    except Exception as e:
        return 'exc:' + exc_sig(e), traceback.format_exc()[-1500:], None
    seen_clash = any(o == BOT for o in obs)
    got = ' / '.join(before)
    if orc['clash']:
        if single and not seen_clash:
            b = K_SHARED_CLASH if orc['shared_composite'] else 'missed_clash'
            return b, ('no common instance (%s) but no BadType on either '
                                    'side: %s' % (orc['why'], got)), obs
    else:
        exp = orc['expected']
        if seen_clash:
            return 'spurious_clash', 'common instance %s exists, got %s' % (
                ' / '.join(tm.show(t) for t in exp), got), obs
        for i, j in ops:
            if obs[i] != obs[j]:
                return 'sides_differ', 'roots %d and %d were unified but denote %s' % (
                    i, j, got), obs
        for r in range(len(roots)):
            if not tm.leq(obs[r], orc['inputs'][r]):
                return 'lost_info', 'root %d was %s, now %s' % (
                    r, tm.show(orc['inputs'][r]), before[r]), obs
        for i, j in ops:
            for x, y in ((i, j), (j, i)):
                if not tm.leq(obs[x], orc['inputs'][y]):
                    return 'lost_info', 'root %d = %s does not keep what root %d knew: %s' % (
                        x, before[x], y, tm.show(orc['inputs'][y])), obs
        if obs != exp:
            return 'not_meet', 'expected %s got %s' % (
                ' / '.join(tm.show(t) for t in exp), got), obs
    # repeating the unifications changes nothing
    if single or not orc['clash']:
        try:
            for i, j in seq:
                R.Unify(objs[i], objs[j])
            for i, j in seq:
                R.Unify(objs[j], objs[i])
            after = render(objs)
        except Exception as e:
            return 'exc_repeat:' + exc_sig(e), traceback.format_exc()[-1500:], obs
        if after != before:
            return 'not_idempotent', 'after first pass %s, after repeating %s' % (
                got, ' / '.join(after)), obs
    return None, '', obs


def describe(case, orc):
    return 'terms: %s ; constraints %s' % (
        ' | '.join(tm.show(t) for t in orc['inputs']), case['ops'])


def prefix(case, orc):
    p = 'pair' if len(case['roots']) == 2 and len(case['ops']) == 1 else 'multi'
    return p + ('_shared' if orc['shared'] else '')


def eval_case(case):
    """-> dict(skip=...) or dict(fails=[(bucket, detail)], orc=..., notes=[...])."""
    orc = oracle(case)
    if 'skip' in orc:
        return orc
    fails = []
    seenb = set()
    notes = set()
    first_obs = None
    first_seq = None
    pre = prefix(case, orc)
    for seq in orders_of(case['ops']):
        b, d, obs = run_order(case, orc, seq)
        if b is None and d:
            notes.add(d)
        if b is not None:
            if b != K_SHARED_CLASH:
                b = pre + ':' + b
            if b not in seenb:
                seenb.add(b)
                fails.append((b, '%s\norder %s: %s' % (describe(case, orc), list(seq), d)))
            continue
        if obs is None:
            continue
        if first_obs is None:
            first_obs, first_seq = obs, seq
        elif obs != first_obs and (len(case['ops']) == 1 or not orc['clash']):
            b = pre + (':asymmetric' if len(case['ops']) == 1 else ':order_dependent')
            if b not in seenb:
                seenb.add(b)
                fails.append((b, '%s\norder %s gives %s\norder %s gives %s' % (
                    describe(case, orc), list(first_seq),
                    ' / '.join(tm.show(t) for t in first_obs), list(seq),
                    ' / '.join(tm.show(t) for t in obs))))
    return {'fails': fails, 'orc': orc, 'notes': sorted(notes)}


# ------------------------------------------------------------------ labels

def top_kind(t):
    return t[1] if t[0] == 'atom' else t[0]


def classify(case, orc):
    """-> (nontrivial, labels)."""
    ins = orc['inputs']
    labels = []
    n = len(ins)
    multi = not (n == 2 and len(case['ops']) == 1)
    labels.append('multi' if multi else 'pair')
    if multi:
        labels.append('multi:clash' if orc['clash'] else 'multi:clash_free')
    ncomp = sum(1 for t in ins if tm.is_composite(t))
    if orc['clash']:
        labels.append('meet:bot')
        if not orc['shared'] and not multi:
            why = []
            tm.meet(ins[0], ins[1], why)
            if why:
                labels.append('clash:%s@depth%d' % why[0])
        proper = True
    else:
        exp = orc['expected']
        proper = any(e not in ins for e in exp)
        labels.append('meet:new_term' if proper else 'meet:is_an_input')
    if orc['shared']:
        labels.append('shared_reference')
    if any(nd[0] == 'ref' for nd in case['nodes']):
        labels.append('reference_chain')
    if any(nd[2] for nd in case['nodes']):
        labels.append('bare_concrete_child')
    labels.append('maxdepth:%d' % max(tm.depth(t) for t in ins))
    if not multi:
        ks = sorted(top_kind(t) for t in ins)
        labels.append('top:%s/%s' % tuple(ks))
    nontrivial = ncomp >= 2 or proper
    return nontrivial, labels


# ------------------------------------------------------------------ exhaustive part

def exhaustive_terms(tier):
    cfg = EXH['thorough' if tier == 'thorough' else 'quick']
    f1 = tm.enum_terms(FULL_ATOMS, FULL_FIELDS, 2, cfg['n1'])
    f2 = tm.enum_terms(cfg['atoms2'], cfg['fields2'], 2, cfg['n2'], cfg['width2'])
    seen = set()
    out = []
    for t in f1 + f2:
        t = tm.T(t)
        if t not in seen:
            seen.add(t)
            out.append(t)
    return out


def pair_case(ta, tb):
    nodes = []
    a = tm.tree_to_nodes(ta, nodes)
    b = tm.tree_to_nodes(tb, nodes)
    return {'nodes': nodes, 'roots': [a, b], 'ops': [[0, 1]]}


def build_tree(R, t):
    k = t[0]
    if k == 'atom':
        return R.TypeReference(t[1])
    if k == 'list':
        return R.TypeReference([build_tree(R, t[1])])
    cls = R.OpenRecord if k == 'open' else R.ClosedRecord
    return R.TypeReference(cls({f: build_tree(R, v) for f, v in t[1]}))


def fast_pair_ok(R, ta, tb, m):
    """The same decisions as eval_case for a pair of tree terms, without the pool
    machinery.  True = certainly passes; False = look closer with eval_case."""
    try:
        A, B = build_tree(R, ta), build_tree(R, tb)
        R.Unify(A, B)
        ca, cb = R.VeryConcreteType(A), R.VeryConcreteType(B)
        va, vb = norm(ca), norm(cb)
        if m == BOT:
            if va != BOT and vb != BOT:
                return False, None
        elif va != m or vb != m:
            return False, None
        s1 = (R.RenderType(ca), R.RenderType(cb))
        R.Unify(A, B)
        R.Unify(B, A)
        s2 = (R.RenderType(R.VeryConcreteType(A)), R.RenderType(R.VeryConcreteType(B)))
        return s1 == s2, (va, vb)
    except Exception:
        return False, None


def run_exhaustive(ctx, col):
    R = ra()
    terms = exhaustive_terms(ctx.tier)
    n = len(terms)
    comp = [tm.is_composite(t) for t in terms]
    kinds = [top_kind(t) for t in terms]
    for i in range(n):
        ta = terms[i]
        j0 = i + ((ctx.k - 2 * i) % ctx.n)
        for j in range(j0, n, ctx.n):          # unordered pairs with (i + j) % n == k
            tb = terms[j]
            why = []
            m = tm.meet(ta, tb, why)
            if tm.meet(tb, ta) != m:
                raise OracleBug('oracle meet not symmetric on %r %r' % (ta, tb))
            ok1, o1 = fast_pair_ok(R, ta, tb, m)
            ok2, o2 = (ok1, o1) if i == j else fast_pair_ok(R, tb, ta, m)
            sym = o1 is not None and o2 is not None and (i == j or o1 == (o2[1], o2[0]))
            # every 64th pair also goes through the generic path (oracle cross-check)
            if not (ok1 and ok2 and sym) or (i * 7 + j) % 64 == 0:
                case = pair_case(ta, tb)
                res = eval_case(case)
                if 'skip' in res:
                    raise OracleBug('tree pair skipped: %r' % (res,))
                if res['fails']:
                    for b, d in res['fails']:
                        col.fail(b, case, d)
                elif not (ok1 and ok2 and sym):
                    raise OracleBug('fast path and generic path disagree on %s'
                                    % json.dumps(case))
            if m == BOT:
                lab = ['exh:meet:bot', 'exh:clash:%s@depth%d' % why[0]]
                nt = comp[i] and comp[j]
            else:
                proper = m != ta and m != tb
                lab = ['exh:meet:new_term' if proper else 'exh:meet:is_an_input']
                nt = proper or (comp[i] and comp[j])
            ks = sorted((kinds[i], kinds[j]))
            lab.append('exh:top:%s/%s' % (ks[0], ks[1]))
            sample = None
            if nt and m != BOT and comp[i] and comp[j] and len(col.samples) < 4:
                sample = {'a': tm.show(ta), 'b': tm.show(tb), 'meet': tm.show(m),
                          'sub_domain': 'exhaustive'}
            col.case('x%d:%d' % (i, j), nt, lab, sample)
            if i != j:
                col.case('x%d:%d' % (j, i), nt, lab)
    col.label('exh:terms=%d' % n, 'exh:tier=%s' % ctx.tier)


# ------------------------------------------------------------------ sampled part

def strategy():
    from hypothesis import strategies as st

    @st.composite
    def cases(draw):
        nodes = []
        depths = []

        def d(n):
            return draw(st.integers(0, n - 1))

        def push(kind, payload, dep):
            raw = 1 if kind != 'ref' and d(7) == 0 else 0
            nodes.append([kind, payload, raw])
            depths.append(dep)
            i = len(nodes) - 1
            if d(12) == 0:                      # chain link
                nodes.append(['ref', i, 0])
                depths.append(dep)
                i += 1
            return i

        def atom():
            r = d(10)
            name = tm.ATOMS[r] if r < 7 else ('Any', 'Num', 'Str')[r - 7]
            return push('atom', name, 0)

        def fieldset():
            k = (0, 1, 1, 2, 2, 2, 3, 3)[d(8)]
            perm = draw(st.permutations(SAMPLE_FIELDS))
            return sorted(perm[:k], key=tm.fkey)

        def term(maxd, top=False):
            if nodes and not top and d(8) == 0:  # the very same object again
                c = [i for i in range(len(nodes)) if depths[i] <= maxd]
                comp = [i for i in c if nodes[i][0] != 'atom']
                if comp and d(2) == 0:
                    c = comp
                if c:
                    return c[d(len(c))]
            if maxd == 0 or d(20) < (2 if top else 7):
                return atom()
            r = d(5)
            if r < 2:
                c = term(maxd - 1)
                return push('list', c, depths[c] + 1)
            kind = 'open' if r < 4 else 'closed'
            fs = [[f, term(maxd - 1)] for f in fieldset()]
            return push(kind, fs, 1 + max([depths[c] for _, c in fs] or [0]))

        def deref(i):
            while nodes[i][0] == 'ref':
                i = nodes[i][1]
            return i

        def variant(i, maxd, p_any, top=False, contra=1):
            """A term related to node i: mostly a generalisation (so that two variants
            of one base have a meet that is neither of them), sometimes the same
            object, sometimes a contradicting piece."""
            r = d(40)
            if top and r < 2 + p_any and d(8):
                r = 20                          # keep the root structural
            if r == 0 and depths[i] <= maxd:
                return i                        # shared between the terms
            if r == 1:
                return term(maxd)
            if r < 2 + p_any:
                return push('atom', 'Any', 0)
            k, p, _ = nodes[deref(i)]
            if k == 'atom':
                if r >= 36 and p in tm.GROUND:
                    return push('atom', 'Singular', 0)
                if r >= 34 and p == 'Str':
                    return push('atom', 'Sequential', 0)
                if 33 - contra < r <= 33:
                    return atom()               # likely a contradiction
                return push('atom', p, 0)
            if maxd == 0:
                return push('atom', 'Any', 0)
            if k == 'list':
                if r >= 38:
                    return push('atom', 'Sequential', 0)
                c = variant(p, maxd - 1, p_any, False, contra)
                return push('list', c, depths[c] + 1)
            if r >= 38:
                return push('atom', 'Singular', 0)
            kind = k
            r2 = d(8)
            if r2 < 2:
                kind = 'open'
            elif r2 == 2:
                kind = 'closed'
            fs = []
            for f, c in p:
                if d(12 if kind == 'closed' else 4) == 0:
                    continue                    # drop a field
                fs.append([f, variant(c, maxd - 1, p_any, False, contra)])
            if d(8) == 0:
                have = set(f for f, _ in fs)
                extra = [f for f in SAMPLE_FIELDS if f not in have]
                if extra:
                    fs.append([extra[d(len(extra))], term(maxd - 1)])
                    fs.sort(key=lambda fc: tm.fkey(fc[0]))
            return push(kind, fs, 1 + max([depths[c] for _, c in fs] or [0]))

        mode = d(11)
        if mode == 0:                           # unrelated terms
            a, b = term(MAX_DEPTH, True), term(MAX_DEPTH, True)
        elif mode == 10:
            # one composite object in several fields of a (as built-in signatures do),
            # separately perturbed copies of it in b
            base = term(MAX_DEPTH - 1, True)
            fs = fieldset() or ['a', 0]
            ka, kb = ('open', 'closed')[d(2)], ('open', 'closed')[d(2)]
            a = push(ka, [[f, base] for f in fs], depths[base] + 1)
            vs = [[f, variant(base, MAX_DEPTH - 1, 6 + d(8), True, 1 + d(5))] for f in fs]
            b = push(kb, vs, 1 + max(depths[c] for _, c in vs))
        else:
            base = term(MAX_DEPTH, True)
            if mode <= 2:                       # the base itself and a variant
                a = base
            else:
                a = variant(base, MAX_DEPTH, 8 + d(10), True)
            b = variant(base if d(4) else a, MAX_DEPTH, 8 + d(10), True)
        if d(5) < 3:
            return {'nodes': nodes, 'roots': [a, b], 'ops': [[0, 1]]}
        if mode == 0:
            c = term(MAX_DEPTH, True)
        else:
            c = variant((base, a, b)[d(3)], MAX_DEPTH, 8 + d(10), True)
        ops = [[[0, 1], [1, 2]], [[0, 1], [0, 2]], [[0, 2], [1, 2]],
               [[0, 1], [1, 2], [0, 2]], [[0, 1], [1, 2], [0, 1]]][d(5)]
        return {'nodes': nodes, 'roots': [a, b, c], 'ops': ops}
    return cases()


def prune(case):
    """Drop unreachable nodes and renumber (keeps the case small and canonical)."""
    nodes, roots = case['nodes'], case['roots']
    live = sorted(tm.reachable(nodes, roots))
    ren = {o: n for n, o in enumerate(live)}
    out = []
    for o in live:
        k, p, raw = nodes[o]
        if k == 'atom':
            q = p
        elif k in ('list', 'ref'):
            q = ren[p]
        else:
            q = [[f, ren[c]] for f, c in p]
        out.append([k, q, raw])
    return {'nodes': out, 'roots': [ren[r] for r in roots], 'ops': case['ops']}


def run_sampled(ctx, col):
    def one(case):
        case = prune(case)
        if AVOID_SHARED_COMPOSITE_CLASH:
            orc = oracle(case)
            if orc.get('clash') and orc.get('shared_composite') and len(case['ops']) == 1:
                col.exclude(K_SHARED_CLASH)
                return
        res = eval_case(case)
        if 'skip' in res:
            col.label('skipped:' + res['skip'])
            return
        orc = res['orc']
        nt, labels = classify(case, orc)
        for nlab in res['notes']:
            labels.append('note:' + nlab)
        sample = None
        if nt and not orc['clash'] and 'meet:new_term' in labels and len(col.samples) < 2:
            sample = {'terms': [tm.show(t) for t in orc['inputs']],
                      'constraints': case['ops'],
                      'result': [tm.show(t) for t in orc['expected']],
                      'shared_reference': orc['shared'], 'sub_domain': 'sampled'}
        if res['fails']:
            labels.append('failed')
            for b, dtl in res['fails']:
                col.fail(b, case, dtl)
        col.case(case, nt, labels, sample)
    core.hyp_run(one, strategy(), ctx.budget, ctx.hyp_seed)


def shard(ctx, col):
    ra()
    run_sampled(ctx, col)
    run_hist(ctx, col)
    run_exhaustive(ctx, col)


def evidence_extra(col):
    tier = 'thorough' if col.labels.get('exh:tier=thorough') else 'quick'
    out = {}
    nterms = [int(k.split('=')[1]) for k in col.labels if k.startswith('exh:terms=')]
    if nterms:
        n = nterms[0]
        cfg = EXH['thorough' if tier == 'thorough' else 'quick']
        exh_evals = sum(v for k, v in col.labels.items() if k.startswith('exh:meet:'))
        out['exhaustive_sub_domain'] = {
            'exhaustive': exh_evals == n * n,
            'what': 'all ordered pairs of T x T; T = terms of depth <= 2 with <= %d '
                    'nodes over atoms %s, fields %s, united with terms of depth <= 2 '
                    'with <= %d nodes over atoms %s, fields %s, record width <= %d' % (
                        cfg['n1'], list(FULL_ATOMS), list(FULL_FIELDS), cfg['n2'],
                        list(cfg['atoms2']), list(cfg['fields2']), cfg['width2']),
            'terms': n,
            'ordered_pairs': n * n,
            'ordered_pairs_evaluated': exh_evals,
            'clashing_pairs': col.labels.get('exh:meet:bot', 0),
        }
        out['history_cases'] = col.labels.get('hist', 0)
        out['history_cases_nontrivial'] = col.labels.get('hist:nontrivial', 0)
        out['sampled_cases'] = col.evaluations - exh_evals - out['history_cases']
    return out


# ------------------------------------------------------------------ histories
# Sub-domain (3): histories of the constraint operations the type inference really
# performs (type_inference/research/infer.py) on a small pool of TypeReference objects
# that get aliased by earlier operations:
#   ['U', i, j]     reference_algebra.Unify(ref_i, ref_j)
#   ['F', i, f, j]  reference_algebra.UnifyRecordField(ref_i, f, ref_j)     (x.f, {f: v})
#   ['E', l, e]     reference_algebra.UnifyListElement(ref_l, ref_e)        (e in l, [e])
#   ['C', i]        ref_i.CloseRecord()                                     ({...} literal)
# case = {'kind': 'hist', 'nodes': pool, 'refs': [node index...], 'ops': [...]}.
# CloseRecord is only generated where its callers use it: on a reference that denotes a
# record at that moment (infer.py closes a record-literal node right after unifying it
# with an open record and its fields); a history stops at the first clash.

HIST_SHARE = (1, 2)         # history cases per sampled pair/triple case (numerator, denom)
HIST_MAX_ORDERS = 8


class HistInvalid(Exception):
    pass


def hist_model_run(case, order):
    """Model states along `order` (a list of (op index, flip)).  -> list of per-step
    dicts(clash, expanded, shared_composite) ; raises HistInvalid for histories outside
    the domain (occurs check, CloseRecord on a non-record)."""
    nodes, refs, ops = case['nodes'], case['refs'], case['ops']
    g = tm.Constraints(nodes)
    if not g.acyclic(refs):
        raise HistInvalid('cyclic')
    steps = [{'clash': False, 'expanded': [g.expand(r) for r in refs]}]
    for k, _flip in order:
        op = ops[k]
        before = steps[-1]['expanded']
        entries = tm.op_entries(op, refs)
        shared = g.shared_entry(entries)
        shared_comp = shared and g.shared_entry(entries, composite=True)
        try:
            g.apply(op, refs)
        except tm.NotRecord:
            raise HistInvalid('close_on_non_record')
        clash = g.clash is not None
        expanded = None
        if not clash:
            if not g.acyclic(refs):
                raise HistInvalid('cyclic')
            expanded = [g.expand(r) for r in refs]
        if not shared:
            # cross-check with the tree formulation of the same operation
            want = tm.op_tree_result(op, before)
            tclash = any(v == BOT for v in want.values())
            if tclash != clash or (not clash and
                                   any(expanded[p] != v for p, v in want.items())):
                raise OracleBug('tree and graph formulation disagree on op %s of %s: '
                                '%s vs %s/%s' % (op, json.dumps(case), want, g.clash,
                                                 expanded))
        steps.append({'clash': clash, 'why': g.clash, 'expanded': expanded,
                      'shared_composite': shared_comp,
                      'classes': None if clash else [g.find(r) for r in refs]})
        if clash:
            break
    return steps


def hist_truncate(case):
    """Drop the operations after the first clash (nothing is claimed about them)."""
    order = [(k, 0) for k in range(len(case['ops']))]
    steps = hist_model_run(case, order)
    n = len(steps) - 1
    if n < len(case['ops']):
        case = dict(case, ops=case['ops'][:n])
    return case, steps


def hist_orders(ops, clash_final):
    """Orders in which the history is re-run: the operations between two CloseRecord
    calls are permuted among themselves (they are order-independent constraints),
    CloseRecord calls stay where they are; Unify arguments are flipped by a fixed
    pattern.  At most HIST_MAX_ORDERS orders, always including the full reversal."""
    ident = tuple((k, 0) for k in range(len(ops)))
    flipped = tuple((k, 1) for k in range(len(ops)))
    if clash_final:
        # the clash must be reported by the last operation in either orientation
        return [ident] + ([flipped] if any(op[0] == 'U' for op in ops) else [])
    segs = []
    cur = []
    for k, op in enumerate(ops):
        if op[0] == 'C':
            segs.append(cur)
            segs.append([k])
            cur = []
        else:
            cur.append(k)
    segs.append(cur)
    total = 1
    for s in segs:
        for x in range(2, len(s) + 1):
            total *= x
    stride = max(1, -(-total // (HIST_MAX_ORDERS - 2)))
    out = [ident]
    seen = {ident}

    def add(seq):
        if seq not in seen:
            seen.add(seq)
            out.append(seq)
    rev = []
    for s in segs:
        rev.extend(reversed(s))
    add(tuple((k, 1) for k in rev))
    prod = itertools.product(*[itertools.permutations(s) for s in segs])
    for n, combo in enumerate(itertools.islice(prod, 0, None, stride)):
        flat = [k for part in combo for k in part]
        add(tuple((k, ((n + 1) >> (p % 3)) & 1) for p, k in enumerate(flat)))
    add(flipped)
    return out[:HIST_MAX_ORDERS + 1]


def apply_real(R, op, objs, flip=0):
    k = op[0]
    if k == 'U':
        a, b = objs[op[1]], objs[op[2]]
        if flip:
            a, b = b, a
        R.Unify(a, b)
    elif k == 'F':
        R.UnifyRecordField(objs[op[1]], op[2], objs[op[3]])
    elif k == 'E':
        R.UnifyListElement(objs[op[1]], objs[op[2]])
    elif k == 'C':
        objs[op[1]].CloseRecord()
    else:
        raise ValueError('unknown op %r' % (op,))


def show_op(op):
    k = op[0]
    if k == 'U':
        return 'Unify(r%d, r%d)' % (op[1], op[2])
    if k == 'F':
        return 'UnifyRecordField(r%d, %r, r%d)' % (op[1], op[2], op[3])
    if k == 'E':
        return 'UnifyListElement(r%d, r%d)' % (op[1], op[2])
    return 'r%d.CloseRecord()' % op[1]


def show_order(case, order):
    out = []
    for k, flip in order:
        op = case['ops'][k]
        if op[0] == 'U' and flip:
            op = ['U', op[2], op[1]]
        out.append(show_op(op))
    return '; '.join(out)


def describe_hist(case, steps0):
    return 'pool: %s' % ' | '.join('r%d=%s' % (n, tm.show(t))
                                   for n, t in enumerate(steps0['expanded']))


def run_hist_order(case, order, steps, variant=None):
    """Fresh pool + the operations in `order`, compared with the model after EVERY
    operation.  variant 'doubled': every operation is issued twice in a row.
    -> (bucket|None, detail, final_obs, objs)."""
    R = ra()
    nodes, refs, ops = case['nodes'], case['refs'], case['ops']
    objs = build(nodes, refs)
    try:
        obs = observe(objs)
    except Exception:
        raise OracleBug('cannot observe the initial pool of %s' % json.dumps(case))
    if obs != steps[0]['expanded']:
        raise OracleBug('initial pool differs from the model: %s' % json.dumps(case))
    for n, (k, flip) in enumerate(order):
        op = ops[k]
        st = steps[n + 1]
        where = 'after op %d %s' % (n + 1, show_op(op))
        prev = obs
        try:
            apply_real(R, op, objs, flip)
            if variant == 'doubled' and not st['clash']:
                apply_real(R, op, objs, flip)
            obs = observe(objs)
            rend = render(objs)
        except RecursionError as e:
            return 'exc:' + exc_sig(e), where + ': RecursionError', None, None
        except Exception as e:
            return 'exc:' + exc_sig(e), where + ':\n' + traceback.format_exc()[-1500:], \
                None, None
        got = ' | '.join('r%d=%s' % (x, s if obs[x] == BOT else tm.show(obs[x]))
                         for x, s in enumerate(rend))
        seen_clash = any(o == BOT for o in obs)
        if st['clash']:
            if not seen_clash:
                b = K_SHARED_CLASH if st['shared_composite'] else 'missed_clash'
                return b, ('%s: the constraints have no common instance (%s) but no '
                           'reference of the pool shows a BadType: %s'
                           % (where, st['why'], got)), obs, objs
            return None, '', obs, objs
        exp = st['expanded']
        want = ' | '.join('r%d=%s' % (x, tm.show(t)) for x, t in enumerate(exp))
        if seen_clash:
            return 'spurious_clash', '%s: a common instance exists (%s), got %s' % (
                where, want, got), obs, objs
        cls = st['classes']
        for x in range(len(refs)):
            for y in range(x + 1, len(refs)):
                if cls[x] == cls[y] and obs[x] != obs[y]:
                    return 'sides_differ', ('%s: r%d and r%d were unified but denote '
                                            'different types: %s' % (where, x, y, got)), \
                        obs, objs
        for x in range(len(refs)):
            if not tm.leq(obs[x], prev[x]):
                return 'lost_info', '%s: r%d was %s, now %s' % (
                    where, x, tm.show(prev[x]), rend[x]), obs, objs
        if obs != exp:
            return 'not_meet', '%s: expected %s got %s' % (where, want, got), obs, objs
    return None, '', obs, objs


def eval_hist(case):
    """-> dict(skip=...) or dict(fails, steps, orders, case)."""
    try:
        case, steps = hist_truncate(case)
    except HistInvalid as e:
        return {'skip': str(e)}
    except tm.Cyclic:
        return {'skip': 'cyclic'}
    ops = case['ops']
    if not ops:
        return {'skip': 'empty'}
    R = ra()
    clash_final = steps[-1]['clash']
    head = describe_hist(case, steps[0])
    fails = []
    seenb = set()

    def fail(b, d):
        if b != K_SHARED_CLASH:
            b = 'hist:' + b
        if b not in seenb:
            seenb.add(b)
            fails.append((b, d))
    orders = hist_orders(ops, clash_final)
    final0 = None
    for n, order in enumerate(orders):
        if n == 0:
            st = steps
        else:
            try:
                st = hist_model_run(case, list(order))
            except (HistInvalid, tm.Cyclic) as e:
                raise OracleBug('re-ordered history leaves the domain (%s): %s %s'
                                % (e, json.dumps(case), order))
            if st[-1]['clash'] != clash_final or len(st) != len(steps) or (
                    not clash_final and st[-1]['expanded'] != steps[-1]['expanded']):
                raise OracleBug('model is order dependent on %s order %s'
                                % (json.dumps(case), order))
        b, d, obs, objs = run_hist_order(case, order, st)
        if b is not None:
            fail(b, '%s\norder: %s\n%s' % (head, show_order(case, order), d))
            continue
        if clash_final:
            continue
        if final0 is None:
            final0 = (obs, order)
        elif obs != final0[0]:
            fail('order_dependent', '%s\norder: %s\ngives %s\norder: %s\ngives %s' % (
                head, show_order(case, final0[1]),
                ' | '.join(tm.show(t) for t in final0[0]), show_order(case, order),
                ' | '.join(tm.show(t) for t in obs)))
        if n == 0:
            # repeating the operations of a clash-free history changes nothing
            before = render(objs)
            try:
                for k, flip in order:
                    apply_real(R, ops[k], objs, flip)
                    if ops[k][0] == 'U':
                        apply_real(R, ops[k], objs, 1 - flip)
                after = render(objs)
                obs2 = observe(objs)
            except Exception as e:
                fail('exc_repeat:' + exc_sig(e), '%s\norder: %s\n%s' % (
                    head, show_order(case, order), traceback.format_exc()[-1500:]))
                continue
            if after != before or obs2 != obs:
                fail('not_idempotent', '%s\norder: %s\nafter the history %s, after '
                     'repeating every operation %s' % (
                         head, show_order(case, order), ' | '.join(before),
                         ' | '.join(after)))
    if not clash_final and not fails:
        b, d, obs, objs = run_hist_order(case, orders[0], steps, variant='doubled')
        if b is not None:
            fail('not_idempotent', '%s\norder: %s (every operation issued twice in a '
                 'row)\n%s' % (head, show_order(case, orders[0]), d))
    return {'fails': fails, 'steps': steps, 'orders': len(orders), 'case': case}


def classify_hist(case, steps):
    """-> (nontrivial, labels).  Non-trivial: >= 2 operations and a later operation acts
    on a reference whose class an earlier operation already touched (aliasing)."""
    refs, ops = case['refs'], case['ops']
    labels = ['hist', 'hist:len=%d' % len(ops)]
    clash_final = steps[-1]['clash']
    labels.append('hist:clash_final' if clash_final else 'hist:clash_free')
    g = tm.Constraints(case['nodes'])
    touched = set()
    interacts = False
    seen = set()
    for n, op in enumerate(ops):
        args = [op[1]] + ([op[2]] if op[0] in ('U', 'E') else []) + (
            [op[3]] if op[0] == 'F' else [])
        subj = refs[op[1]]
        aliases = sum(1 for r in set(refs) if g.same(r, subj))
        kind = g.kind(subj)
        tag = None
        if op[0] == 'C':
            tag = 'close_on_aliased_class' if aliases > 1 else 'close_on_single'
            if kind == 'closed':
                tag = 'close_again'
        elif op[0] == 'F':
            if kind == 'closed':
                tag = 'field_of_closed:' + ('present' if op[2] in g.fields(subj)
                                            else 'missing')
            elif kind == 'open':
                tag = 'field_of_open:' + ('present' if op[2] in g.fields(subj)
                                          else 'added')
            else:
                tag = 'field_of:' + ('Any' if kind == 'Any' else
                                     'Singular' if kind == 'Singular' else 'non_record')
            if aliases > 1:
                seen.add('hist:field_via_alias')
        elif op[0] == 'E':
            tag = 'elem_of:' + ('list' if kind == 'list' else kind
                                if kind in ('Any', 'Sequential') else 'non_list')
        else:
            k2 = g.kind(refs[op[2]])
            comp = sum(1 for x in (kind, k2) if x in ('list', 'open', 'closed'))
            tag = 'unify:%d_composite' % comp
            if {kind, k2} == {'open', 'closed'}:
                tag = 'unify:open/closed'
            elif kind == k2 == 'closed':
                tag = 'unify:closed/closed'
        seen.add('hist:' + tag)
        if n > 0 and any(g.same(refs[a], refs[t]) for a in args for t in touched):
            interacts = True
        touched.update(args)
        if n + 1 < len(steps) and not steps[n + 1]['clash']:
            g.apply(op, refs)
    kinds = sorted(set(op[0] for op in ops))
    labels.append('hist:ops=' + ''.join(kinds))
    labels.extend(sorted(seen))
    if clash_final:
        labels.append('hist:clash_by:' + ops[-1][0])
        labels.append('hist:clash:' + str(steps[-1]['why']))
    if any(nd[0] == 'ref' for nd in case['nodes']):
        labels.append('hist:reference_chain')
    if len(set(refs)) < len(refs) or tm.has_sharing(case['nodes'], sorted(set(refs))):
        labels.append('hist:pool_shares_objects')
    nontrivial = len(ops) >= 2 and interacts
    if nontrivial:
        labels.append('hist:nontrivial')
    return nontrivial, labels


def hist_strategy():
    """All choices come from one random.Random that Hypothesis seeds with a drawn
    integer (st.randoms(use_true_random=True) is deterministic under hypothesis.seed):
    a history is a pure function of that draw."""
    from hypothesis import strategies as st

    @st.composite
    def cases(draw):
        rnd = draw(st.randoms(use_true_random=True))
        nodes = []
        depths = []

        def d(n):
            return rnd.randrange(n)

        def permuted(xs):
            return rnd.sample(list(xs), len(xs))

        def push(kind, payload, dep, allow_raw=True):
            raw = 1 if allow_raw and d(8) == 0 else 0
            nodes.append([kind, payload, raw])
            depths.append(dep)
            return len(nodes) - 1

        def small(maxd):
            if nodes and d(6) == 0:             # the very same object again
                c = [i for i in range(len(nodes)) if depths[i] <= maxd]
                if c:
                    return c[d(len(c))]
            if maxd == 0 or d(3) == 0:
                return push('atom', 'Any' if d(2) else tm.ATOMS[d(7)], 0)
            r = d(5)
            if r < 2:
                c = small(maxd - 1)
                return push('list', c, depths[c] + 1)
            kind = 'open' if r < 4 else 'closed'
            k = (0, 1, 1, 2)[d(4)]
            perm = permuted(SAMPLE_FIELDS)
            fs = [[f, small(maxd - 1)] for f in sorted(perm[:k], key=tm.fkey)]
            return push(kind, fs, 1 + max([depths[c] for _, c in fs] or [0]))

        refs = []
        nref = 3 + d(3)
        for _ in range(nref):
            r = d(20)
            if r < 11:                          # every expression starts as Any
                i = push('atom', 'Any', 0, False)
            elif r < 15:                        # literals, typing predicates, signatures
                i = push('atom', tm.ATOMS[1 + d(6)], 0, False)
            else:                               # a copy of a built-in signature type
                i = small(2)
            if d(10) == 0:                      # chain link
                nodes.append(['ref', i, 0])
                depths.append(depths[i])
                i = len(nodes) - 1
            refs.append(i)
        nspare = d(3)
        spares = []
        for _ in range(nspare):                 # partners of record literals
            nodes.append(['open', [], 0])
            depths.append(1)
            refs.append(len(nodes) - 1)
            spares.append(len(refs) - 1)
        general = [p for p in range(len(refs)) if p not in spares]

        m = tm.Constraints(nodes)
        if not m.acyclic(refs):
            return {'kind': 'hist', 'nodes': nodes, 'refs': refs, 'ops': []}

        def pick(cands):
            return cands[d(len(cands))]

        def other(p):
            c = [q for q in general if q != p]
            return pick(c)

        def propose(want_clash):
            """-> (list of operations, spare literal partner used or None)."""
            r = d(20)
            if want_clash and d(2):
                # addressing a field the closed record does not have
                closed = [p for p in general if m.kind(refs[p]) == 'closed']
                if closed:
                    i = pick(closed)
                    miss = [f for f in SAMPLE_FIELDS if f not in m.fields(refs[i])]
                    if miss:
                        return [['F', i, pick(miss), other(i)]], None
            if r < 7:
                closed = [p for p in general if m.kind(refs[p]) == 'closed']
                i = pick(closed) if closed and d(3) == 0 else pick(general)
                fs = m.fields(refs[i])
                f = pick(fs) if fs and d(2) else SAMPLE_FIELDS[d(len(SAMPLE_FIELDS))]
                return [['F', i, f, other(i)]], None
            if r < 12:
                recs = [p for p in general if m.kind(refs[p]) in ('open', 'closed')]
                if recs and (r < 9 or not spares):
                    return [['C', pick(recs)]], None
                if spares:
                    # a record literal: Unify(node, {...}); UnifyRecordField per field;
                    # CloseRecord
                    i = pick(general)
                    s = pick(spares)
                    out = [['U', i, s]]
                    perm = permuted(SAMPLE_FIELDS)
                    for f in perm[:d(3)]:
                        out.append(['F', i, f, other(i)])
                    out.append(['C', i])
                    return out, s
            if r < 17:
                i = pick(general)
                return [['U', i, other(i)]], None
            i = pick(general)
            return [['E', i, other(i)]], None

        def attempt(cand):
            """-> (status, number of ops applied, model after)."""
            m2 = m.clone()
            for n, op in enumerate(cand):
                try:
                    m2.apply(op, refs)
                except tm.NotRecord:
                    return 'invalid', n, None
                if m2.clash is not None:
                    return 'clash', n + 1, m2
                if not m2.acyclic(refs):
                    return 'invalid', n, None
            return 'ok', len(cand), m2

        ops = []
        want = 6 - d(5)
        while len(ops) < want:
            allow_clash = len(ops) >= 1 and d(8) == 0
            chosen = None
            for _ in range(6):
                cand, spare = propose(allow_clash)
                status, n, m2 = attempt(cand)
                if status == 'ok' or (status == 'clash' and allow_clash):
                    chosen = (status, cand[:n], m2, spare)
                    break
                if status == 'clash' and chosen is None:
                    chosen = (status, cand[:n], m2, spare)
            if chosen is None:
                break
            status, applied, m2, spare = chosen
            ops.extend(applied)
            m = m2
            if spare is not None:
                spares.remove(spare)
                general.append(spare)
            if status == 'clash':
                break
        return {'kind': 'hist', 'nodes': nodes, 'refs': refs, 'ops': ops}
    return cases()


def hist_budget(n):
    return (n * HIST_SHARE[0] + HIST_SHARE[1] - 1) // HIST_SHARE[1] if n > 0 else 0


def run_hist(ctx, col):
    seen = set()

    def one(case):
        hk = core.h(case)
        if hk in seen:                          # Hypothesis repeats small histories
            col.label('hist:duplicate_not_counted')
            return
        seen.add(hk)
        try:
            tcase, steps = hist_truncate(case)
        except (HistInvalid, tm.Cyclic) as e:
            col.label('hist:skipped:' + str(e))
            return
        if not tcase['ops']:
            col.label('hist:skipped:empty')
            return
        res = eval_hist(tcase)
        if 'skip' in res:
            col.label('hist:skipped:' + res['skip'])
            return
        nt, labels = classify_hist(tcase, steps)
        labels.append('hist:orders=%d' % res['orders'])
        sample = None
        if nt and not steps[-1]['clash'] and len(tcase['ops']) >= 3 and \
                'hist:close_on_aliased_class' in labels and len(col.samples) < 3:
            sample = {'pool': [tm.show(t) for t in steps[0]['expanded']],
                      'history': [show_op(op) for op in tcase['ops']],
                      'result': [tm.show(t) for t in steps[-1]['expanded']],
                      'orders_run': res['orders'], 'sub_domain': 'history'}
        if res['fails']:
            labels.append('hist:failed')
            for b, dtl in res['fails']:
                col.fail(b, tcase, dtl)
        col.case(tcase, nt, labels, sample)
    core.hyp_run(one, hist_strategy(), hist_budget(ctx.budget), ctx.hyp_seed + 500)


def minimise_hist(case, bucket):
    def fails(c):
        try:
            res = eval_hist(c)
            return any(b == bucket for b, _ in res.get('fails', ()))
        except Exception:
            return False
    budget = [300]
    progress = True
    while progress and budget[0] > 0:
        progress = False
        cands = []
        ops = case['ops']
        for x in range(len(ops) - 1, -1, -1):           # drop an operation
            cands.append(dict(case, ops=ops[:x] + ops[x + 1:]))
        for i, (k, p, raw) in enumerate(case['nodes']):  # simplify the pool
            alts = []
            if k == 'ref':
                tgt = case['nodes'][p]
                alts.append([tgt[0], tgt[1], 0])
            if raw:
                alts.append([k, p, 0])
            if k in ('list', 'open', 'closed') or (k == 'atom' and p != 'Any'):
                alts.append(['atom', 'Any', 0])
            if k in ('open', 'closed'):
                for x in range(len(p)):
                    alts.append([k, p[:x] + p[x + 1:], raw])
            for alt in alts:
                nodes = [list(n) for n in case['nodes']]
                nodes[i] = alt
                cands.append(dict(case, nodes=nodes))
        for c2 in cands:
            if budget[0] <= 0:
                break
            budget[0] -= 1
            if fails(c2):
                case = c2
                progress = True
                break
    # drop pool references no operation mentions, renumber
    used = sorted(set(a for op in case['ops'] for a in
                      ([op[1]] + ([op[2]] if op[0] in ('U', 'E') else []) +
                       ([op[3]] if op[0] == 'F' else []))))
    ren = {o: n for n, o in enumerate(used)}
    ops2 = []
    for op in case['ops']:
        op = list(op)
        op[1] = ren[op[1]]
        if op[0] in ('U', 'E'):
            op[2] = ren[op[2]]
        if op[0] == 'F':
            op[3] = ren[op[3]]
        ops2.append(op)
    c2 = dict(case, refs=[case['refs'][o] for o in used], ops=ops2)
    p = prune({'nodes': c2['nodes'], 'roots': c2['refs'], 'ops': c2['ops']})
    c2 = {'kind': 'hist', 'nodes': p['nodes'], 'refs': p['roots'], 'ops': p['ops']}
    return c2 if fails(c2) else case


# ------------------------------------------------------------------ replay / minimise

def _check_here(case):
    if case.get('kind') == 'hist':
        res = eval_hist(case)
        return [] if 'skip' in res else list(res['fails'])
    res = eval_case(case)
    if 'skip' in res:
        return []
    return list(res['fails'])


def check_case(case):
    # record unification iterates a set of field names: same hash seed as the workers
    if sys.flags.hash_randomization and not os.environ.get('LV_C16_CHILD'):
        env = dict(os.environ)
        env['PYTHONHASHSEED'] = '0'
        env['LV_C16_CHILD'] = '1'
        env['PYTHONPATH'] = core.VERIF + os.pathsep + env.get('PYTHONPATH', '')
        p = subprocess.run([sys.executable, '-m', 'lv.props.c16'], input=json.dumps(case),
                           capture_output=True, text=True, env=env, cwd=core.VERIF)
        if p.returncode != 0:
            raise RuntimeError('C16 replay child failed: ' + p.stderr[-2000:])
        return [tuple(x) for x in json.loads(p.stdout)]
    return _check_here(case)


def minimise(case, bucket):
    if case.get('kind') == 'hist':
        return minimise_hist(case, bucket)

    def fails(c):
        try:
            return any(b == bucket for b, _ in _check_here(c))
        except Exception:
            return False
    case = prune(case)
    budget = [400]
    progress = True
    while progress and budget[0] > 0:
        progress = False
        for i in range(len(case['nodes'])):
            k, p, raw = case['nodes'][i]
            cands = []
            if k == 'ref':
                tgt = case['nodes'][p]
                cands.append([tgt[0], tgt[1], 0])
            if raw:
                cands.append([k, p, 0])
            if k in ('list', 'open', 'closed'):
                cands.append(['atom', 'Any', 0])
            if k in ('open', 'closed'):
                for x in range(len(p)):
                    cands.append([k, p[:x] + p[x + 1:], raw])
            if k == 'atom' and p not in ('Any',):
                cands.append(['atom', 'Any', 0])
            for cand in cands:
                if budget[0] <= 0:
                    break
                budget[0] -= 1
                nodes = [list(n) for n in case['nodes']]
                nodes[i] = cand
                c2 = {'nodes': nodes, 'roots': case['roots'], 'ops': case['ops']}
                if fails(c2):
                    case = prune(c2)
                    progress = True
                    break
            if progress:
                break
        if not progress:
            # hoist: replace roots by their children (all roots through the same
            # field / list element, or one root at a time)
            def deref(i):
                while case['nodes'][i][0] == 'ref':
                    i = case['nodes'][i][1]
                return i

            def child_map(i):
                k, p, _ = case['nodes'][deref(i)]
                if k == 'list':
                    return {'[]': p}
                if k in ('open', 'closed'):
                    return {repr(f): c for f, c in p}
                return {}
            maps = [child_map(r) for r in case['roots']]
            tries = []
            for key in sorted(set.intersection(*[set(m) for m in maps]) if maps else ()):
                tries.append([m[key] for m in maps])
            for x, m in enumerate(maps):
                for key in sorted(m):
                    tries.append([m[key] if y == x else r
                                  for y, r in enumerate(case['roots'])])
            for roots2 in tries:
                if budget[0] <= 0:
                    break
                budget[0] -= 1
                c2 = {'nodes': case['nodes'], 'roots': roots2, 'ops': case['ops']}
                if fails(c2):
                    case = prune(c2)
                    progress = True
                    break
        if not progress and len(case['ops']) > 1 and budget[0] > 0:
            for x in range(len(case['ops'])):
                c2 = dict(case, ops=case['ops'][:x] + case['ops'][x + 1:])
                budget[0] -= 1
                if fails(c2):
                    case = c2
                    progress = True
                    break
    return case


if __name__ == '__main__':
    print(json.dumps(_check_here(json.loads(sys.stdin.read()))))
