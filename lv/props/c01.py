"""C01: compiled SQL returns exactly the multiset the program denotes (core fragment)."""
from lv import core, model, gen, drive
from lv.props import common

ID = 'C01'
BUDGET = {'quick': 1600, 'thorough': 16000}      # generated programs
RULE = ('programs from the typed core-fragment generator (facts with duplicates, '
        'multi-rule and | predicates, positional/named/partial/shorthand arguments, '
        '+ - *, ++, comparisons, boolean propositions, assignment, in, lists, records, '
        'if-then-else, functional and injectible predicates); every intensional '
        'predicate is compiled, run on SQLite and compared (column names, rows as a '
        'multiset) with the independent reference evaluator. Non-trivial = reference '
        'result non-empty and the predicate\'s transitive definition has a join on a '
        'shared variable, a disjunction / several rules, or an injected call; distinct '
        'by hash of (program text, predicate).')
ASSUMPTIONS = ['reference evaluator lv/ref.py is the oracle (checked against doc '
               'examples in lv/selftest.py)', 'CPython sqlite3',
               'composite values compared up to SQLite JSON text encoding',
               'dialect-library parse memoised per process (filled by the real parser)']
OPTS = dict(p_colnames=0.1, p_uminus=0.12, p_unnest_chain=0.08, p_in_lit_left=0.15, p_head_perm=0.3, p_if_composite=0.3, p_recif=0.12)


def gen_case(rng):
    prog = gen.gen_program(rng, **OPTS)
    return prog


def targets(prog):
    return [p for p in prog['preds'] if p.startswith('I')]


def check_pred(prog, pred, text=None, rules=None):
    st, bucket, detail, info = common.run_and_compare(prog, pred, text, rules=rules,
                                                       refusal_is_failure=True)
    return st, bucket, detail, info


def shard(ctx, col):
    drive.enable_library_cache()

    def one(rng):
        prog = gen_case(rng)
        text = model.print_program(prog)
        for k, v in prog.get('excluded', {}).items():
            col.excluded[k] += v
        try:
            rules = drive.parse_rules(text)
        except Exception:
            rules = None        # re-raised (and classified) per predicate
        for p in targets(prog):
            st, bucket, detail, info = check_pred(prog, p, text, rules)
            if st == 'inconclusive':
                col.inconc(bucket)
                continue
            feats = common.features(prog, p)
            labels = ['feat:' + f for f in feats]
            if st == 'ok':
                n = info.get('n_exp', 0)
                labels.append('result_empty' if n == 0 else 'result_nonempty')
                if info.get('dups'):
                    labels.append('result_has_duplicates')
                nt = n > 0 and bool(feats & {'join', 'disjunction', 'multi_rule',
                                             'inj_call'})
                col.case((text, p), nt, labels,
                         sample={'predicate': p, 'rows': n, 'program': text})
            else:
                col.case((text, p), False, labels + ['failed'])
                col.fail(bucket, {'prog': model.prog_to_json(prog), 'pred': p}, detail)
    core.hyp_run(one, common.strategy(), ctx.budget, ctx.hyp_seed)


def check_case(case):
    drive.enable_library_cache()
    prog = model.prog_from_json(case['prog'])
    st, bucket, detail, info = check_pred(prog, case['pred'])
    return [(bucket, detail)] if st == 'fail' else []


def minimise(case, bucket):
    return common.minimise_program(case, bucket, check_case)
