"""C04: functor application `N := F(A: B, ...)` is predicate substitution."""
import collections
import os
import traceback

from lv import core, model, ref, canon, drive, functorgen
from lv.props import common

ID = 'C04'
BUDGET = {'quick': 288, 'thorough': 3000}      # generated programs (~20 evaluations each)
WALL = {'quick': 2400, 'thorough': 14400}   # last resort only; a shard cut here loses its cases
RULE = ('layered non-recursive programs from the typed generator (facts with duplicates, '
        'joins, disjunction, negation, aggregation, functional predicates, nullary '
        'functional constants, optionally one intermediate predicate with @OrderBy over '
        'all its columns + @Limit) with 1-7 statements N := F(A: B, ...) printed at random '
        'positions under names whose lexicographic order is unrelated to their '
        'dependency order: argument reached directly and through chains of 1-4 intermediate '
        'predicates, 1-3 arguments at once (also an argument below another argument, and '
        'simultaneous bindings F(A: B, B: C) / F(A: B, B: A)), values that are fact twins / '
        'derived twins of equal signature / predicates that read the argument or the '
        'functor themselves / functor results / literals and constant predicates for '
        'nullary constants, the same functor applied again with equal, partly equal and '
        'different bindings, functors of made predicates, ordinary predicates over made '
        'predicates used as functors and as arguments (also F reaching a made predicate '
        'only through an intermediate while reading the argument directly). EVERY '
        'predicate of every program is run on SQLite: a made predicate (or one defined '
        'over made ones) must equal (1) the reference evaluator with dynamic rebinding of '
        'the argument names and (2) the same predicate of the program in which the '
        'substitution was done by hand on our AST (fresh names, copies keep @OrderBy/'
        '@Limit, no `:=`), compiled by Logica, and (3) must not change when the made '
        'predicates are renamed so that their lexicographic order is reversed; every '
        'other predicate (functor, arguments, values, intermediates, bystanders) must '
        'equal its value in the program without the functor statements. Non-trivial = a '
        'made predicate whose argument is reached through >= 1 intermediate predicate or '
        'whose functor is also applied with different bindings, and whose rows differ '
        'from the functor\'s rows; distinct by (program text, predicate).')
ASSUMPTIONS = ['reference evaluator lv/ref.py + dynamic rebinding (lv/functorgen.py '
               'FunctorEval) is the oracle; it is cross-checked on every case against '
               'the reference value of the by-hand substituted program (disagreement = '
               'harness error)',
               'the functor-free programs (by-hand substituted / statements removed) '
               'must themselves agree with the reference, else the predicate is counted '
               'inconclusive (that is C01/C02 territory)',
               'not generated (counted as excluded): an application whose argument names '
               'a predicate of which the functor already holds a private copy made by an '
               'earlier application and which it still reaches by name through a value '
               '(rule substitution and late binding read "every use of A" differently '
               'there; the statement does not decide); VERIF_C04_REBIND_COPIED=include '
               'generates them and checks them against the by-hand substitution only',
               'arguments are bound to predicates of identical signature (field names, '
               'types, functional value), literals are non-negative integers and plain '
               'lowercase strings', '@OrderBy keys are all columns of a null-free atom-typed '
               'predicate (total order up to identical rows), so @Limit has one answer; a copy '
               'of an annotated predicate (and a made predicate whose functor is annotated) '
               'keeps the annotation, the value bound to an argument does not take the '
               'argument\'s annotation (compiler/functors.py states both)',
               'CPython sqlite3', 'composite values compared up to SQLite JSON text '
               'encoding', 'dialect-library parse memoised per process']
OPTS = {}
MAX_ROWS = 1500
SQLITE_OPS = 1500000      # VM steps per query; beyond => inconclusive


class OracleDisagreement(Exception):
    """Our two oracles (dynamic rebinding / by-hand substitution) differ: harness bug."""


# ----------------------------------------------------------------- running

def run_pred(text, rules, pred):
    try:
        hdr, rows, sql = drive.run(text, pred, rules=rules)
    except drive.Interrupted:
        return ('inconclusive', 'sqlite_budget', '')
    except drive.DIAGNOSTICS as e:
        msg = common.first_line(e)
        return ('fail', 'rejected_valid:%s:%s' % (type(e).__name__, common.msg_class(msg)),
                'compiler refused a valid program: %s\n%s' % (type(e).__name__, msg))
    except Exception as e:
        return ('fail', 'internal:' + drive.exc_frame(e), traceback.format_exc()[-1500:])
    return ('ok', hdr, rows)


def parse(text):
    try:
        return drive.parse_rules(text)
    except Exception:
        return None          # re-raised and classified per predicate


def ref_rows(ev, pred):
    """-> (status, cols, rows)"""
    try:
        rows = ev.rows(pred)
        fields = ev.fields(pred)
    except ref.TooBig:
        return 'ref_too_big', None, None
    except ref.Ambiguous:
        return 'ref_ambiguous', None, None
    cols = [('col%d' % f if isinstance(f, int) else f) for f in fields]
    out = [tuple(r[f] for f in fields) for r in rows]
    if len(out) > MAX_ROWS:
        return 'result_too_large', None, None
    return 'ok', cols, out


def vs_ref(cols, exp, hdr, rows):
    if hdr != cols and not (not cols and len(hdr) == 1):
        return 'columns_differ', 'expected columns %r got %r' % (cols, hdr)
    if not cols:
        rows = [() for _ in rows]
    d = canon.rows_match(exp, rows)
    if d is not None:
        return 'rows_differ', '%s\nexpected %r\nactual   %r' % (
            d, sorted(map(repr, exp))[:12], sorted(map(repr, rows))[:12])
    return None


def bag(rows):
    return collections.Counter(canon.strict(tuple(canon.decode(v) for v in r))
                               for r in rows)


def vs_rows(hdr1, rows1, hdr2, rows2):
    if hdr1 != hdr2:
        return 'columns_differ', 'columns %r vs %r' % (hdr1, hdr2)
    a, b = bag(rows1), bag(rows2)
    if a != b:
        return 'rows_differ', 'only in first %r\nonly in second %r' % (
            sorted((a - b).items(), key=repr)[:8], sorted((b - a).items(), key=repr)[:8])
    return None


def same_ref(r1, r2):
    return sorted(repr(canon.strict(x)) for x in r1) == \
        sorted(repr(canon.strict(x)) for x in r2)


# ----------------------------------------------------------------- one program

def roles(prog, info):
    r = collections.defaultdict(set)
    for name, functor, args in prog['make']:
        r[functor].add('functor')
        for a, v in args:
            r[a].add('argument')
            if v[0] == 'pred':
                r[v[1]].add('value')
        for c in info['makes'][name]['clones']:
            r[c].add('intermediate')
    return r


def check_prog(prog, only=None):
    """-> list of dicts pred, kind (made|derived|untouched), status, bucket, detail,
    labels, nontrivial, n."""
    makes = prog['make']
    made = [mk[0] for mk in makes]
    prog0 = {k: v for k, v in prog.items() if k not in ('make', 'make_at')}
    prog2, info = functorgen.expand(prog)
    dependent = functorgen.depends_on_made(prog)
    feats = functorgen.make_features(prog)
    role = roles(prog, info)
    # applications whose argument names a predicate the functor already holds a private
    # copy of (see functorgen.EXCLUDE_REBIND_COPIED): rule substitution is the only
    # reading we can check them against
    g2 = functorgen.DepGraph(prog2['rules'])
    g2.origin = info['origin']
    ambiguous = set(mk[0] for mk in makes
                    if set(a for a, v in mk[2]) & functorgen.rebind_ambiguous(g2, mk[1]))
    text = model.print_program(prog)
    text2 = model.print_program(prog2)
    # "the program without the functor statements": predicates over made ones go too
    prog0['rules'] = [r for r in prog['rules'] if r['pred'] not in dependent]
    text0 = model.print_program(prog0)
    rules, rules2 = parse(text), parse(text2)
    lazy0 = []           # the statement-free program is parsed only when needed
    lazyv = []           # naming variant: built when the first made predicate passes
    ev_dyn = functorgen.FunctorEval(prog, budget=400000)
    ev_hand = ref.Evaluator(prog2, budget=400000)
    ev_plain = ref.Evaluator(prog0, budget=400000)
    out = []
    for pred in functorgen.source_names(prog):
        if only is not None and pred != only:
            continue
        res = {'pred': pred, 'labels': [], 'nontrivial': False, 'n': None}
        out.append(res)

        def done(status, bucket=None, detail=''):
            res['status'], res['bucket'] = status, bucket
            res['detail'] = '%s\n--- predicate %s\n%s' % (detail, pred, text) \
                if status == 'fail' else detail

        if pred in dependent:
            kind = res['kind'] = 'made' if pred in made else 'derived'
            st, cols, exp = ref_rows(ev_dyn, pred)
            st2, cols2, exp2 = ref_rows(ev_hand, pred)
            if ambiguous and (pred in ambiguous or set(g2.reach(pred)) & ambiguous):
                st, cols, exp = st2, cols2, exp2
                res['labels'].append('rebinds_copied_predicate')
            if st == 'ok' and st2 == 'ok' and not (cols == cols2 and same_ref(exp, exp2)):
                raise OracleDisagreement('%s\n%r\n%r\n%s' % (pred, exp[:10], exp2[:10],
                                                            text))
            base_text, base_rules = text2, rules2
        else:
            kind = res['kind'] = 'untouched'
            res['labels'] = ['role:' + x for x in sorted(role.get(pred, ['bystander']))]
            st, cols, exp = ref_rows(ev_plain, pred)
            base_text, base_rules = text0, None
        if st in ('ref_too_big', 'result_too_large'):
            # never hand SQLite a query the nested-loop reference could not finish
            done('inconclusive', st)
            continue
        got = run_pred(text, rules, pred)
        if got[0] == 'inconclusive':
            done('inconclusive', got[1])
            continue
        problem = None
        if got[0] == 'fail':
            problem = (got[1], got[2])
        elif st == 'ok':
            problem = vs_ref(cols, exp, got[1], got[2])
        if got[0] == 'ok':
            res['n'] = len(got[2])
        # the functor-free counterpart: by-hand substituted program for made / derived
        # predicates, program without the statements for the others.  Always compiled
        # for made predicates (second oracle), else only to attribute a problem.
        base = None
        if problem is not None or kind == 'made' or st != 'ok':
            if kind == 'untouched':
                if not lazy0:
                    lazy0.append(parse(text0))
                base_rules = lazy0[0]
            base = run_pred(base_text, base_rules, pred)
            if base[0] != 'ok':
                done('inconclusive', 'base_' + base[1].split(':')[0])
                continue
            if st == 'ok':
                d = vs_ref(cols, exp, base[1], base[2])
                if d is not None:
                    done('inconclusive', 'base_' + d[0])
                    continue
        if kind == 'made' and got[0] == 'ok':
            f = feats[pred]
            res['labels'] = sorted(f) + res['labels']
            mk = [m for m in makes if m[0] == pred][0]
            if st == 'ok':
                fst, fcols, fexp = ref_rows(ev_dyn, mk[1])
                differs = fst == 'ok' and not same_ref(exp, fexp)
                res['labels'].append('rows_differ_from_functor' if differs
                                     else 'rows_equal_functor')
                res['labels'].append('rows_empty' if not exp else 'rows_nonempty')
                res['nontrivial'] = differs and (
                    'chained' in f or 'same_functor_different_bindings' in f)
        if st != 'ok':
            res['labels'].append('no_reference:' + st)
        if problem is not None:
            what = {'made': 'differs from the reference (dynamic rebinding); the '
                            'program substituted by hand agrees with the reference',
                    'derived': 'predicate over made predicates differs from the '
                               'reference; the program substituted by hand agrees',
                    'untouched': 'predicate changed its meaning in the presence of '
                                 'functor statements; the program without them agrees '
                                 'with the reference'}[kind]
            done('fail', ('compile:%s' % problem[0]) if got[0] == 'fail' else
                 '%s:%s' % (kind, problem[0]), what + '\n' + problem[1])
            continue
        if base is not None:
            d = vs_rows(base[1], base[2], got[1], got[2])
            if d is not None:
                done('fail', ('byhand:' if kind != 'untouched' else 'untouched:') + d[0],
                     'differs from the functor-free program (listed first)\n%s\n'
                     '--- functor-free program:\n%s' % (d[1], base_text))
                continue
        done('ok')
        # naming variant: the made predicates renamed so that their lexicographic order
        # is reversed (the compiler walks applications in sorted order); same rows
        if kind != 'untouched' and len(made) > 1:
            if not lazyv:
                m = dict(zip(sorted(made), reversed(sorted(made))))
                tv = model.print_program(functorgen.rename_program(prog, m))
                lazyv.extend([m, tv, parse(tv)])
            m, tv, rv = lazyv
            res2 = {'pred': pred, 'kind': 'renamed', 'labels': [], 'nontrivial': False,
                    'n': None, 'variant_of': pred}
            out.append(res2)
            gotv = run_pred(tv, rv, m.get(pred, pred))
            if gotv[0] == 'inconclusive':
                res2['status'], res2['bucket'], res2['detail'] = 'inconclusive', gotv[1], ''
                continue
            problem = None
            if gotv[0] == 'fail':
                problem = ('compile:' + gotv[1], gotv[2])
            else:
                res2['n'] = len(gotv[2])
                d = vs_ref(cols, exp, gotv[1], gotv[2]) if st == 'ok' else \
                    vs_rows(got[1], got[2], gotv[1], gotv[2])
                if d is not None:
                    problem = d
            if problem is None:
                res2['status'], res2['bucket'], res2['detail'] = 'ok', None, ''
                if m.get(pred, pred) != pred:
                    res2['labels'].append('name_order_changed')
            else:
                res2['status'], res2['bucket'] = 'fail', 'renamed:' + problem[0]
                res2['detail'] = (
                    'the program with its made predicates renamed (%s) gives a different '
                    'result for %s; under the original names it agrees with the '
                    'reference\n%s\n--- predicate %s, renamed program:\n%s\n'
                    '--- original program:\n%s' % (
                        ', '.join('%s->%s' % kv for kv in sorted(m.items())),
                        m.get(pred, pred), problem[1], pred, tv, text))
    return out, text


# ----------------------------------------------------------------- self check

def selfcheck():
    """The documentation's example and the repository's functor integration programs
    under our reference semantics (guards against a vacuous / wrong oracle)."""
    from lv.model import mk_rule

    def fact(p, *vals, **kw):
        return mk_rule(p, tuple((i, ('lit', v)) for i, v in enumerate(vals)), (),
                       value=kw.get('value'))

    def call(p, *vs):
        return ('call', p, tuple((i, ('var', v)) for i, v in enumerate(vs)), ())
    x = ('var', 'x')
    # docs/learn/logica.md "Functors":  F(x) :- A(x) | B(x);  G := F(A: C, B: D);
    rules = [fact('A', 1), fact('B', 2), fact('C', 3), fact('C', 3), fact('D', 4),
             mk_rule('F', ((0, x),), (('or', ((call('A', 'x'),), (call('B', 'x'),))),))]
    p = {'rules': rules, 'inj': {}, 'make': [('G', 'F', (('A', ('pred', 'C')),
                                                          ('B', ('pred', 'D'))))]}
    ev = functorgen.FunctorEval(p)
    assert sorted(r[0] for r in ev.rows('G')) == [3, 3, 4], ev.rows('G')
    assert sorted(r[0] for r in ev.rows('F')) == [1, 2]
    p2, _ = functorgen.expand(p)
    assert sorted(r[0] for r in ref.Evaluator(p2).rows('G')) == [3, 3, 4]
    # integration_tests/functor_arg_update_test.l: T1()="t1"; F()=T1(); D := F();
    # B() = D(); T2() = "t2"; A := B(T1: T2);   expected A() = "t2"
    rules = [mk_rule('T1', (), (), value=('lit', 't1')),
             mk_rule('F', (), (), value=('fcall', 'T1', ())),
             mk_rule('B', (), (), value=('fcall', 'D', ())),
             mk_rule('T2', (), (), value=('lit', 't2'))]
    p = {'rules': rules, 'inj': {}, 'make': [('D', 'F', ()),
                                              ('A', 'B', (('T1', ('pred', 'T2')),))]}
    ev = functorgen.FunctorEval(p)
    assert [r['logica_value'] for r in ev.rows('A')] == ['t2']
    assert [r['logica_value'] for r in ev.rows('D')] == ['t1']
    # integration_tests/sqlite_functor_over_constant_test.l
    rules = [mk_rule('A', (), (), value=('lit', 'a')),
             mk_rule('T', (('a', ('fcall', 'A', ())),), ())]
    p = {'rules': rules, 'inj': {}, 'make': [('T3', 'T', (('A', ('const', 10)),))]}
    assert [r['a'] for r in functorgen.FunctorEval(p).rows('T3')] == [10]
    p2, _ = functorgen.expand(p)
    assert [r['a'] for r in ref.Evaluator(p2).rows('T3')] == [10]


# ----------------------------------------------------------------- shard / replay

def setup():
    drive.enable_library_cache()
    drive.SQLITE_OP_BUDGET = min(drive.SQLITE_OP_BUDGET, SQLITE_OPS)
    selfcheck()


def shard(ctx, col):
    setup()

    def one(rng):
        prog = functorgen.gen_functor_program(rng, **OPTS)
        for k, v in prog.get('excluded', {}).items():
            col.excluded[k] += v
        for l in prog['labels']:
            col.label('prog:' + l)
        col.label('prog:makes_%d' % min(len(prog['make']), 6))
        results, text = check_prog(prog)
        for r in results:
            if r['status'] == 'inconclusive':
                col.inconc(r['bucket'])
                continue
            labels = ['kind:' + r['kind']] + ['%s:%s' % (r['kind'], l) if r['kind'] ==
                                              'made' else l for l in r['labels']]
            if r['kind'] == 'renamed':
                if r['status'] == 'fail':
                    col.case((text, r['pred'], 'renamed'), False, labels + ['failed'])
                    col.fail(r['bucket'], {'prog': model.prog_to_json(prog),
                                           'pred': r['pred']}, r['detail'])
                else:
                    col.case((text, r['pred'], 'renamed'), False, labels)
                continue
            if r['status'] == 'ok':
                col.case((text, r['pred']), r['nontrivial'], labels,
                         sample={'predicate': r['pred'], 'rows': r['n'],
                                 'features': r['labels'], 'program': text})
            else:
                col.case((text, r['pred']), False, labels + ['failed'])
                col.fail(r['bucket'], {'prog': model.prog_to_json(prog),
                                       'pred': r['pred']}, r['detail'])
    core.hyp_run(one, common.strategy(), ctx.budget, ctx.hyp_seed)


def check_case(case):
    setup()
    prog = functorgen.prog_from_json(case['prog'])
    results, text = check_prog(prog, only=case.get('pred'))
    out, seen = [], set()
    for r in results:
        if r['status'] == 'fail' and r['bucket'] not in seen:
            seen.add(r['bucket'])
            out.append((r['bucket'], r['detail']))
    return out


def well_formed(prog_json):
    """Every predicate referred to by a rule or a functor statement is defined."""
    prog = functorgen.prog_from_json(prog_json)
    defined = set(r['pred'] for r in prog['rules']) | set(prog.get('inj', {})) | \
        set(mk[0] for mk in prog['make'])
    used = set()
    for r in prog['rules']:
        used |= set(functorgen.rule_refs(r))
    for name, functor, args in prog['make']:
        used.add(functor)
        used |= set(a for a, v in args) | set(v[1] for a, v in args if v[0] == 'pred')
    return used <= defined


def minimise(case, bucket):
    """Bounded delta debugging (count budgets): drop functor statements, then whole
    rules / facts, while the program stays well-formed and the same bucket still fails
    for the same predicate (body literals are kept: dropping them breaks range
    restriction)."""
    def fails(c):
        return well_formed(c['prog']) and any(b == bucket for b, d in check_case(c))

    def variant(**kw):
        p = dict(case['prog'])
        p.pop('make_at', None)
        p.update(kw)
        return dict(case, prog=p)
    c0 = variant()
    if not fails(c0):
        return case
    case = c0
    ms = core.ddmin(list(case['prog'].get('make', [])),
                    lambda sub: fails(variant(make=list(sub))), max_tests=25)
    case = variant(make=list(ms))
    rs = core.ddmin(list(case['prog']['rules']),
                    lambda sub: fails(variant(rules=list(sub))), max_tests=60)
    case = variant(rules=list(rs))
    return case
