"""Shared pieces of the evaluator-based properties (C01, C02, C07, C08, C11 ...)."""
import collections
import traceback

from hypothesis import strategies as st

from lv import core, model, ref, canon, drive, gen


MAX_ROWS = 4000


def strategy():
    """A random.Random seeded by ONE Hypothesis-drawn integer per case (still a pure
    function of the Hypothesis seed, i.e. of VERIF_SEED and the shard).  Measured while
    building C18: with use_true_random=False every rng call is a separate Hypothesis
    draw, and for generators making hundreds of draws per program Hypothesis then
    produces mostly span-copy near-duplicates of earlier examples, discards ~15 % of
    the examples half-built (entropy buffer overrun) and lands on the first alternative
    2-3 times more often than designed; nothing is shrunk by hyp_run anyway (failures
    are delta-debugged on the program)."""
    import random
    salt = core.CASE_SALT[0]
    # Hypothesis' first example is always the minimal one (seed 0): the salt (a function
    # of VERIF_SEED and the shard index, set by lv.worker) keeps the 16 shards from all
    # starting with the same program
    return st.integers(0, 2 ** 64 - 1).map(lambda x: random.Random(x ^ salt))


def expected_rows(ev, prog, pred):
    """-> (columns, list of tuples) from the reference evaluator."""
    rows = ev.rows(pred)
    fields = ev.fields(pred)
    cols = [('col%d' % f if isinstance(f, int) else f) for f in fields]
    return cols, [tuple(r[f] for f in fields) for r in rows]


def walk_lits(body):
    for l in body:
        yield l
        k = l[0]
        if k == 'neg':
            for x in walk_lits(l[1]):
                yield x
        elif k == 'impl':
            for x in walk_lits(l[1]):
                yield x
            for x in walk_lits(l[2]):
                yield x
        elif k == 'agg':
            for x in walk_lits(l[4]):
                yield x
        elif k == 'or':
            for b in l[1]:
                for x in walk_lits(b):
                    yield x


def walk_exprs_of_expr(e):
    yield e
    k = e[0]
    if k in ('bin', 'cmp'):
        subs = [e[2], e[3]]
    elif k == 'not' or k == 'size':
        subs = [e[1]]
    elif k == 'if':
        subs = [e[1], e[2], e[3]]
    elif k == 'list':
        subs = list(e[1])
    elif k == 'rec':
        subs = [x for f, x in e[1]]
    elif k == 'field':
        subs = [e[1]]
    elif k in ('elem', 'inx', 'arrow'):
        subs = [e[1], e[2]]
    elif k == 'fcall':
        subs = [x for f, x in e[2]]
    elif k == 'aggx':
        subs = [e[2]]
        for l in walk_lits(e[3]):
            subs.extend(lit_exprs(l))
    else:
        subs = []
    for s in subs:
        for x in walk_exprs_of_expr(s):
            yield x


def lit_exprs(l):
    k = l[0]
    if k == 'call':
        return [x for f, x in l[2]]
    if k == 'cmp':
        return [l[2], l[3]]
    if k == 'assign':
        return [l[2]]
    if k == 'in':
        return [l[1], l[2]]
    if k == 'prop':
        return [l[1]]
    if k == 'agg':
        return [l[3]]
    return []


def rule_exprs(r):
    out = list(model.head_exprs(r))
    for l in walk_lits(r['body']):
        out.extend(lit_exprs(l))
    res = []
    for e in out:
        res.extend(walk_exprs_of_expr(e))
    return res


def deps_of_rule(r):
    d = set()
    for l in walk_lits(r['body']):
        if l[0] == 'call':
            d.add(l[1])
    for e in rule_exprs(r):
        if e[0] == 'fcall':
            d.add(e[1])
        elif e[0] == 'aggx':
            for l in walk_lits(e[3]):
                if l[0] == 'call':
                    d.add(l[1])
    return d


def closure_rules(prog, pred):
    rules_of = collections.defaultdict(list)
    for r in prog['rules']:
        rules_of[r['pred']].append(r)
    seen, stack, out = set(), [pred], []
    while stack:
        p = stack.pop()
        if p in seen:
            continue
        seen.add(p)
        for r in rules_of.get(p, []):
            out.append(r)
            stack.extend(deps_of_rule(r))
    return out, seen


def features(prog, pred):
    """Structural labels of a predicate's (transitive) definition."""
    rules, seen = closure_rules(prog, pred)
    f = set()
    rules_of = collections.Counter(r['pred'] for r in rules if r['body'])
    if any(c > 1 for c in rules_of.values()):
        f.add('multi_rule')
    for r in rules:
        if not r['body']:
            continue
        calls = [l for l in walk_lits(r['body']) if l[0] == 'call']
        cnt = collections.Counter()
        for c in calls:
            for v in set().union(*[model.expr_vars(x) for _, x in c[2]] or [set()]):
                cnt[v] += 1
        if any(n > 1 for n in cnt.values()):
            f.add('join')
        for l in walk_lits(r['body']):
            if l[0] == 'or':
                f.add('disjunction')
            if l[0] == 'neg':
                f.add('negation')
                if len(l[1]) > 1:
                    f.add('negation_of_conjunction')
            if l[0] == 'agg':
                f.add('combine')
            if l[0] == 'in':
                f.add('in')
            if l[0] == 'call' and l[1] in prog.get('inj', {}):
                f.add('inj_call')
            if l[0] == 'call' and any(isinstance(a[0], str) for a in l[2]):
                f.add('named_args')
        for e in rule_exprs(r):
            if e[0] == 'fcall':
                f.add('inj_call' if e[1] in prog.get('inj', {}) else 'fcall')
            elif e[0] == 'if':
                f.add('if')
            elif e[0] in ('rec', 'field'):
                f.add('record')
            elif e[0] in ('list', 'size', 'elem'):
                f.add('list')
        if r.get('distinct'):
            f.add('distinct')
        if any(h[0] == 'AGG' for _, h in r['head']) or (
                r.get('value') is not None and r['value'][0] == 'AGG'):
            f.add('pred_aggregation')
    return f


def reference(prog, pred, budget=150000):
    """-> (status, cols, rows, info); status ok | ref_too_big | ref_ambiguous |
    result_too_large."""
    info = {}
    try:
        ev = ref.Evaluator(prog, budget=budget)
        cols, exp = expected_rows(ev, prog, pred)
    except ref.TooBig:
        return 'ref_too_big', None, None, info
    except ref.Ambiguous:
        return 'ref_ambiguous', None, None, info
    except (ref.Stuck, ref.Unready):
        # the reference finds no evaluation order (a generated rule whose variable is
        # bound only through an equation on itself): outside the range-restricted domain,
        # a generator slip - counted, nothing asserted
        return 'ref_stuck_not_range_restricted', None, None, info
    info['n_exp'] = len(exp)
    if len(exp) > MAX_ROWS:
        return 'result_too_large', None, None, info
    info['dups'] = len(exp) != len(set(map(repr, exp)))
    return 'ok', cols, exp, info


D11_FAMILY = ('circular dependency of', 'Found no way to assign variables')


def compiled_vs(cols, exp, text, pred, rules=None, flags=None, ordered=False,
                quirk_prog=None, info=None, cols_any_order=False, refusal_is_failure=False):
    """Compile `pred` of program text with the real pipeline, run on SQLite, compare
    with the expected (cols, rows).  -> (status, bucket, detail)."""
    info = info if info is not None else {}
    try:
        if rules is None:
            rules = drive.parse_rules(text)
        hdr, rows, sql = drive.run(text, pred, flags, rules=rules)
    except drive.Interrupted:
        return 'inconclusive', 'sqlite_budget', ''
    except drive.DIAGNOSTICS as e:
        msg = first_line(e)
        if not refusal_is_failure and any(x in msg for x in D11_FAMILY):
            # the compiler refuses a valid generated program with the diagnostic of the
            # open known finding D11 (variable elimination takes an equation / inclusion
            # as the definition of a table-bound variable).  Accepting every valid program
            # is C01's statement; the other properties do not assert anything here.
            return 'inconclusive', 'refused_valid_program_D11_family', ''
        return 'fail', 'rejected_valid:%s:%s' % (type(e).__name__, msg_class(msg)), \
            'compiler refused a valid program: %s\n%s\n--- predicate %s\n%s' % (
                type(e).__name__, msg, pred, text)
    except Exception as e:
        b = 'internal:' + drive.exc_frame(e)
        if type(e).__module__ == 'sqlite3':
            # the innermost frame is our own driver: name the engine's complaint instead
            b = 'internal:%s:%s' % (type(e).__name__, sqlite_msg_class(str(e)))
        return 'fail', b, \
            '%s\n--- predicate %s\n%s' % (traceback.format_exc()[-1500:], pred, text)
    info['sql'] = sql
    if cols_any_order and hdr != cols and sorted(hdr) == sorted(cols) and \
            len(set(hdr)) == len(hdr):
        # the order of NAMED columns follows the first rule in the text; a statement
        # permutation may legitimately change it: align by name
        pos = [hdr.index(c) for c in cols]
        rows = [tuple(r[i] for i in pos) for r in rows]
        hdr = list(cols)
    if hdr != cols and not (not cols and len(hdr) == 1):
        return 'fail', 'columns_differ', 'expected columns %r got %r\n--- predicate %s\n%s' % (
            cols, hdr, pred, text)
    if not cols:
        rows = [() for _ in rows]
    d = canon.rows_match(exp, rows, ordered=ordered)
    if d is not None:
        bucket = 'rows_differ'
        if quirk_prog is not None:
            q = attribute_to_quirks(quirk_prog, pred, rows, ordered)
            if q == ('?',):
                # under a recorded engine deviation the reference has no definite value
                # (membership among nulls ...): neither "explained" nor "unexplained"
                return 'inconclusive', 'quirk_attribution_ambiguous', ''
            if q:
                bucket = 'rows_differ:quirk:' + '+'.join(q)
        return 'fail', bucket, '%s\nexpected %r\nactual   %r\n--- predicate %s\n%s' % (
            d, sorted(map(repr, exp))[:12], sorted(map(repr, rows))[:12], pred, text)
    return 'ok', None, ''


def run_and_compare(prog, pred, text=None, flags=None, ordered=False, rules=None,
                    refusal_is_failure=False):
    """Evaluate pred with the reference and with the compiler+SQLite.
    Returns (status, bucket, detail, info), status in ok | fail | inconclusive."""
    text = text or model.print_program(prog)
    st, cols, exp, info = reference(prog, pred)
    if st != 'ok':
        return 'inconclusive', st, '', info
    st, bucket, detail = compiled_vs(cols, exp, text, pred, rules, flags, ordered,
                                     quirk_prog=prog, info=info,
                                     refusal_is_failure=refusal_is_failure)
    return st, bucket, detail, info


def attribute_to_quirks(prog, pred, rows, ordered):
    """Smallest set of recorded engine deviations (ref.QUIRKS) under which the
    reference reproduces the actual rows; () if none does."""
    import itertools
    ambiguous = False
    for n in range(1, len(ref.QUIRKS) + 1):
        for q in itertools.combinations(ref.QUIRKS, n):
            try:
                ev = ref.Evaluator(prog, budget=150000, quirks=q)
                cols, exp = expected_rows(ev, prog, pred)
            except ref.Ambiguous:
                ambiguous = True
                continue
            except Exception:
                continue
            if canon.rows_match(exp, rows, ordered=ordered) is None:
                return q
    return ('?',) if ambiguous else ()


def sqlite_msg_class(msg):
    import re
    m = msg.strip().split('\n')[0]
    m = re.sub(r'"[^"]*"|\'[^\']*\'', 'Q', m)
    for head in ('no such table', 'no such column', 'no such function', 'malformed JSON',
                 'near', 'ambiguous column name', 'wrong number of arguments',
                 'user-defined aggregate', 'user-defined function', 'GROUP BY term',
                 'ORDER BY term', 'misuse of aggregate', 'incomplete input'):
        if m.startswith(head) or head in m:
            return head.replace(' ', '_')
    return re.sub(r'[^A-Za-z ]+', '', m)[:40].strip().replace(' ', '_')


def first_line(e):
    s = str(e)
    for attr in ('message',):
        if hasattr(e, attr):
            s = str(getattr(e, attr))
    return s.strip().split('\n')[0][:300] if s.strip() else type(e).__name__


def msg_class(msg):
    """Message with identifiers and literals blanked (bucket key)."""
    import re
    m = re.sub(r'\x1b\[[0-9;]*m', '', msg)
    for phrase, slug in STABLE_PHRASES:
        if phrase in m:
            return slug
    m = re.sub(r'"[^"]*"|\'[^\']*\'', 'Q', m)
    m = re.sub(r'\b[A-Za-z_][A-Za-z0-9_]*\b',
               lambda g: g.group(0) if g.group(0).lower() in KEEP else 'w', m)
    m = re.sub(r'\d+', 'n', m)
    m = re.sub(r'(w[ ,]*)+', 'w ', m)
    return m[:80]


STABLE_PHRASES = (('Signature differs for bodies', 'signature_differs_for_bodies'),
                  ('circular dependency of', 'circular_dependency_of_in_calls'))

KEEP = {'circular', 'dependency', 'in', 'calls', 'found', 'no', 'way', 'to', 'assign',
        'variables', 'unmatched', 'could', 'not', 'parse', 'predicate', 'distinct',
        'aggregation', 'empty', 'recursion', 'type', 'error', 'undefined', 'is',
        'proven', 'functor', 'argument', 'annotation', 'imported', 'import',
        'parenthesis', 'string', 'bad', 'inconsistent', 'defined', 'steps', 'flat'}


def minimise_program(case, bucket, check_case, keep_pred=None):
    """Statement-level delta debugging: drop rules, then body literals, while the
    same bucket still fails."""
    prog = model.prog_from_json(case['prog'])

    def wellformed(p2):
        # never minimise into a program that calls a predicate without rules: the
        # failure would become "no such table" under the same coarse bucket
        defined = set(r['pred'] for r in p2['rules']) | set(p2.get('inj', {}))
        for r in p2['rules']:
            if not deps_of_rule(r) <= defined:
                return False
        for name, d in p2.get('inj', {}).items():
            try:
                body = d[2]
            except Exception:
                continue
            fake = {'pred': name, 'head': [], 'body': body, 'value': None}
            try:
                if not deps_of_rule(fake) <= defined:
                    return False
            except Exception:
                pass
        return True

    def fails(p2):
        if not wellformed(p2):
            return False
        c2 = dict(case)
        c2['prog'] = model.prog_to_json(p2)
        return any(b == bucket for b, d in check_case(c2))

    def with_rules(rs):
        p2 = dict(prog)
        p2['rules'] = list(rs)
        return p2
    rules = core.ddmin(prog['rules'], lambda rs: fails(with_rules(rs)), max_tests=120)
    prog = with_rules(rules)
    # injectibles
    for name in list(prog.get('inj', {})):
        p2 = dict(prog)
        p2['inj'] = {k: v for k, v in prog['inj'].items() if k != name}
        try:
            if fails(p2):
                prog = p2
        except Exception:
            pass
    # body literals
    for i, r in enumerate(list(prog['rules'])):
        if len(r['body']) < 2:
            continue

        def with_body(b, i=i, r=r):
            r2 = dict(r)
            r2['body'] = tuple(b)
            rs = list(prog['rules'])
            rs[i] = r2
            return with_rules(rs)
        b = core.ddmin(list(r['body']), lambda b: fails(with_body(b)), max_tests=40)
        prog = with_body(b)
    c2 = dict(case)
    c2['prog'] = model.prog_to_json(prog)
    return c2
