"""C10: string literals and flag values are data, never SQL.

Sub-domain A (literals): a hostile string s, written in a literal form that can express
it, at one of the positions a string can occur in, for each of the eight engines.
  SQLite: the program is run; the value returned must be s exactly.
  every engine (SQLite included): main_predicate_sql is tokenised with that engine's
  documented lexical rules (lv/sqlscope.py); the token sequence must equal the one
  obtained for the control string `abc` at the same position, except that every literal
  token whose value is `abc` now has the value s (=> same shape, literal decodes to s).
Sub-domain B (${flag}): flag definitions with references between them (chains, DAGs,
  cycles, self-reference, undefined names), user overrides.  Compilation must end (we
  count the compiler's substitution rounds, no clock) in SQL or a diagnostic; with
  acyclic definitions the literal holds the full expansion, user values winning.
"""
import json
import os
import re
import subprocess
import sys
import traceback

from hypothesis import strategies as st

from lv import core, drive, sqlscope
from lv.props import common

ID = 'C10'
BUDGET = {'quick': 560, 'thorough': 10000}  # half strings (each x 11 positions x 8 engines), half flag cases (x 8 engines)
WALL = {'quick': 900, 'thorough': 3600}
ENGINES = list(sqlscope.ENGINES)
FLAG_SHARE = 2      # one generated case in FLAG_SHARE is a ${flag} case (they are cheap)
RULE = ('A: strings of 0-8 tokens over the alphabet {a b space \' " \\ newline tab # / * '
        '- ; , ( ) [ ] { } % s d $ : | ~ ` = e-acute, a CJK char, an astral char} and a '
        'dictionary of hostile fragments (-- /* */ %s {0} {} \'\' \\\' \\\\ "; \') -- :- '
        '" in " distinct combine if-then-else null ...), never containing "${"; written '
        'as "..." , \'...\' (Python escapes) or """...""" when the form can express the '
        'string; at the positions fact argument (single fact / one of two facts), list '
        'element, record field, ++ '
        'operand, comparison constant, if-then-else branch, injected function argument, '
        'injected predicate argument, @DefineFlag default read by FlagValue, user flag '
        'read by FlagValue, argument of a built-in function (Join element / separator, '
        'Size and Element of a list holding it, Upper, Like pattern, Greatest, nested '
        'Join(Split(s, ","), "+") - templates of both the {0} and the %s style; SQLite '
        'value asserted for all but Like); every string is tried at every position on all 8 engines, '
        'the literal form is drawn per position.  B: 1-5 flags named '
        '[a-z]{1,4} whose default and user values reference each other (DAG, arbitrary, '
        'ring, undefined name); in one case of three the values are SQL-safe text, in two '
        'of three they are built from a hostile dictionary (backslash sequences \\ \\\\ '
        '\\n \\t \\d \\x \\1 \\g<0> \\g<a>, $ { } $$ $1 ${ {a} $a, %s %d % %% %(a)s {0} {} {{ '
        '}}, quotes, real newline/tab, comment markers, non-ASCII, a Windows path, a '
        'regular expression) with the defaults written in a drawn literal form and '
        'parameter look-alikes around the references of the fact T("...${f}..."); one '
        'hostile case in four reads a flag with T(FlagValue("f")) instead.  Oracle B: '
        'acyclic definitions => main_predicate_sql equals, character for character, the '
        'SQL of the same flags with a reference-free marker string in the fact, the '
        'marker replaced by the structural expansion (user values over defaults); when '
        'every character of the expansion is verbatim inside that engine\'s literal the '
        'statement has one literal decoding to it and SQLite returns it; FlagValue of a '
        'value without live references: token sequence of the control value "abc" with '
        'the literal decoding to the value, SQLite returns it; cycles/undefined names as '
        'before; user flags additionally go through logica.py ReadUserFlags as '
        '--name=value arguments and must come back unchanged.  Evaluations are '
        '(case, engine) pairs.  Non-trivial (A) = the string has a character outside '
        '[a-z0-9 ]; (B) = at least one reference between flags or a hostile character in '
        'a value; distinct by hash of '
        '(string, position, form, engine) resp. (definitions, user flags, use, forms, '
        'flag read, engine).')
ASSUMPTIONS = [
    'lv/sqlscope.py lexers follow the documented lexical rules of the eight engines '
    '(string literal forms and escapes)',
    'CPython sqlite3 returns TEXT as str; JSON text of lists/records decoded with json',
    'a literal form "can express" s: "..." iff s has no " and no line break; '
    '\'...\' always (Python escapes); """...""" iff s has no """ and neither starts '
    'nor ends with "',
    'substitution rounds are counted through a dict subclass put in place of '
    'LogicaProgram.flag_values (items() calls); nothing in /repo is edited',
    'dialect-library parse memoised per process (filled by the real parser)',
    '${flag} is textual substitution into the SQL (docs: flags as parameters): a value '
    'spliced into a literal is not escaped by the compiler, so a value holding that '
    'engine\'s quote/escape characters is only required to appear verbatim in the SQL '
    'text, not to decode back',
    'flag cases whose structural expansion differs from plain left-to-right / '
    'right-to-left textual replacement (references arising by juxtaposition or nesting) '
    'and cases where a parameter-like sequence exists only in the escaped source of a '
    'literal are excluded and counted',
]

# ---- findings.  D6 (ClickHouse backslash) and the exponential ${flag} cycles were
# repaired in /repo (fix: commits 8c748bb, 4e1fc06) and are not excluded any more
# (VERIF_C10_EXCLUDE=D6,EXP restores the old exclusions).  D12 (line break in a literal
# inside a re-indented block) is an open known finding: excluded by construction, counted
# in evidence, its repro is run from known_findings.json.  VERIF_C10_NO_EXCLUDE=1 switches
# every exclusion off (to re-derive D12).
_NOEX = bool(os.environ.get('VERIF_C10_NO_EXCLUDE'))
_EXC = set(x.strip().upper() for x in os.environ.get('VERIF_C10_EXCLUDE', '').split(','))
EXCLUDE_D6 = 'D6' in _EXC and not _NOEX          # ClickHouse: backslash in a literal
EXCLUDE_EXP_CYCLES = 'EXP' in _EXC and not _NOEX  # ${flag} cycle with >= 2 references back
EXCLUDE_D12 = not _NOEX         # line break in a literal that lands in an indented block
# engines whose literal syntax keeps a line break raw (the others write \n)
RAW_NEWLINE_ENGINES = ('sqlite', 'psql', 'trino', 'presto', 'clickhouse')
# positions whose literal is emitted inside a block that the compiler re-indents
# (UNION member of a multi-fact predicate, WITH body, WHERE clause)
INDENTED_POSITIONS = ('fact_of_two', 'compare_const')

ALPHABET = ['a', 'b', ' ', "'", '"', '\\', '\n', '\t', '#', '/', '*', '-', ';', ',',
            '(', ')', '[', ']', '{', '}', '%', 's', 'd', '$', ':', '|', '~', '`', '=',
            'é', '漢', '\U0001f600']
FRAGMENTS = ['--', '/*', '*/', '%s', '{0}', '{}', "''", "\\'", '\\\\', '";', "') --",
             ':-', ' in ', 'distinct', 'combine', 'if a then b else c', 'null',
             '%(x)s', '{x}', '%%', '\\n', "' || '", '" + "', '$$', "E'", '\\', "'",
             '%son', '%d', '{1}']
CONTROL = 'abc'
MAX_BUCKETED_FAILURES = 24      # per shard; each costs ~200 compilations
DECOY = 'zzzzzzzzz'

POSITIONS = ['fact', 'fact_of_two', 'list_elem', 'record_field', 'concat', 'compare_const',
             'if_branch', 'fun_arg', 'rel_arg', 'flag_default', 'user_flag',
             # argument (possibly nested) of a BUILT-IN function: templates written with
             # {0}/{1} (Join, Element, Size, Like on most engines) and with %s (Upper,
             # Greatest, Length) must not reinterpret an already substituted argument
             'bi_join_elem', 'bi_join_sep', 'bi_size', 'bi_element', 'bi_upper', 'bi_like',
             'bi_greatest', 'bi_nested']
NOVALUE = object()      # positions whose SQLite value has no trivial model: shape only
FORMS = ['dq', 'sq', 'tq']


# ---------------------------------------------------------------- literal forms

def can_express(form, s):
    if form == 'dq':
        return '"' not in s and '\n' not in s and '\r' not in s
    if form == 'tq':
        return '"""' not in s and not s.startswith('"') and not s.endswith('"')
    return True


def literal(form, s):
    if form == 'dq':
        return '"%s"' % s
    if form == 'tq':
        return '"""%s"""' % s
    out = []
    for c in s:
        if c == '\\':
            out.append('\\\\')
        elif c == "'":
            out.append("\\'")
        elif c == '\n':
            out.append('\\n')
        elif c == '\t':
            out.append('\\t')
        elif c == '\r':
            out.append('\\r')
        else:
            out.append(c)
    return "'" + ''.join(out) + "'"


def program(position, lit, engine):
    """-> (program text, expected SQLite value as function of s, decoder)."""
    e = '@Engine("%s");\n' % engine
    if position == 'fact':
        return e + 'T(%s);\n' % lit
    if position == 'fact_of_two':
        return e + 'T("%s");\nT(%s);\n' % (DECOY, lit)
    if position == 'list_elem':
        return e + 'T([%s, "k"]);\n' % lit
    if position == 'record_field':
        return e + 'T({a: %s, b: 1});\n' % lit
    if position == 'concat':
        return e + 'T("<" ++ %s ++ ">");\n' % lit
    if position == 'compare_const':
        return e + 'D("%s");\nD(%s);\nT(x) :- D(x), x == %s;\n' % (DECOY, lit, lit)
    if position == 'if_branch':
        return e + 'D(1);\nT(if x == 1 then %s else "%s") :- D(x);\n' % (lit, DECOY)
    if position == 'fun_arg':
        return e + 'F(x) = x ++ ">";\nT(F(%s));\n' % lit
    if position == 'rel_arg':
        return e + 'J(x, y) :- y == x;\nT(y) :- J(%s, y);\n' % lit
    if position == 'flag_default':
        return e + '@DefineFlag("f", %s);\nT(FlagValue("f"));\n' % lit
    if position == 'user_flag':
        return e + '@DefineFlag("f", "dflt");\nT(FlagValue("f"));\n'
    if position == 'bi_join_elem':
        return e + 'T(Join([%s, "k"], "-"));\n' % lit
    if position == 'bi_join_sep':
        return e + 'T(Join(["a", "b"], %s));\n' % lit
    if position == 'bi_size':
        return e + 'T(Size([%s]));\n' % lit
    if position == 'bi_element':
        return e + 'T(Element([%s], 0));\n' % lit
    if position == 'bi_upper':
        return e + 'T(Upper(%s));\n' % lit
    if position == 'bi_like':
        return e + 'T(Like("%s", %s));\n' % (DECOY, lit)
    if position == 'bi_greatest':
        return e + 'T(Greatest(%s, "a"));\n' % lit
    if position == 'bi_nested':
        return e + 'T(Join(Split(%s, ","), "+"));\n' % lit
    raise ValueError(position)


def expected_sqlite(position, s):
    if position == 'list_elem':
        return [s, 'k']
    if position == 'record_field':
        return {'a': s, 'b': 1}
    if position == 'concat':
        return '<' + s + '>'
    if position == 'fun_arg':
        return s + '>'
    if position == 'bi_join_elem':
        return s + '-k'
    if position == 'bi_join_sep':
        return 'a' + s + 'b'
    if position == 'bi_size':
        return 1
    if position == 'bi_upper':          # SQLite's UPPER folds ASCII letters only
        return ''.join(chr(ord(c) - 32) if 'a' <= c <= 'z' else c for c in s)
    if position == 'bi_greatest':       # BINARY collation = code point order
        return max(s, 'a')
    if position == 'bi_nested':         # Split and Join are inverse up to the separator
        return s.replace(',', '+')
    if position == 'bi_like':
        return NOVALUE
    return s


def decode_sqlite(position, v):
    if position in ('list_elem', 'record_field'):
        return json.loads(v)
    return v


_control = {}


def control_tokens(position, engine):
    k = (position, engine, core.repo_path())
    if k not in _control:
        text = program(position, literal('dq', CONTROL), engine)
        flags = {'f': CONTROL} if position == 'user_flag' else None
        pr, sql = drive.compile_program(text, 'T', flags=flags)
        toks = sqlscope.lex(pr.execution.main_predicate_sql, engine)
        if CONTROL not in sqlscope.strings(toks):
            # the plain control string itself does not arrive as a literal
            _control[k] = ('broken', pr.execution.main_predicate_sql)
        else:
            _control[k] = [(t[0], t[1]) for t in toks]
    return _control[k]


def check_literal(s, position, form, engine):
    """-> None or (symptom, detail)."""
    lit = literal(form, s)
    text = program(position, lit, engine)
    flags = {'f': s} if position == 'user_flag' else None
    hdr = '--- engine %s position %s form %s string %r\n%s%s' % (
        engine, position, form, s, text, '--- user flags %r\n' % flags if flags else '')
    try:
        pr, sql = drive.compile_program(text, 'T', flags=flags)
    except drive.DIAGNOSTICS as e:
        return ('rejected', 'the compiler refused a program whose only unusual part is '
                'the string: %s: %s\n%s' % (type(e).__name__, common.first_line(e), hdr))
    except RecursionError:
        return ('internal', traceback.format_exc()[-1200:] + hdr)
    except Exception as e:
        return ('internal', 'internal error %s\n%s\n%s' % (
            drive.exc_frame(e), traceback.format_exc()[-1500:], hdr))
    main = pr.execution.main_predicate_sql
    try:
        ctl = control_tokens(position, engine)
    except Exception as e:
        return ('control_rejected', 'the same program with the plain string "abc" does '
                'not compile: %s: %s\n%s' % (type(e).__name__, common.first_line(e), hdr))
    if isinstance(ctl, tuple):
        return ('control_broken', 'the same program with the plain string "abc" has no '
                'literal abc in its SQL:\n%s\n%s' % (ctl[1], hdr))
    try:
        toks = [(t[0], t[1]) for t in sqlscope.lex(main, engine)]
    except sqlscope.LexError as e:
        return ('not_one_literal', 'the emitted statement does not tokenise under %s '
                'rules: %s\n--- SQL\n%s\n%s' % (engine, e, main, hdr))
    want = [((k, s) if k in ('str', 'dq') and v == CONTROL else (k, v)) for k, v in ctl]
    if toks != want:
        def shp(ts):
            return [(k, '?' if k in ('str', 'dq') else v) for k, v in ts]
        if shp(toks) != shp(want):
            sym = 'shape_differs'
            why = 'token shape differs from the shape for the control string'
        else:
            sym = 'decodes_differently'
            got = [v for (k, v), (k2, v2) in zip(toks, want) if (k, v) != (k2, v2)]
            why = 'the literal decodes (by %s rules) to %r, not to %r' % (
                engine, got[:2], s)
        return (sym, '%s\n--- SQL\n%s\n--- SQL for the control string has tokens\n%r\n%s'
                % (why, main, ctl[:60], hdr))
    if engine == 'sqlite':
        try:
            h, rows = drive.execute(pr)
        except drive.Interrupted:
            return None
        except Exception as e:
            return ('sqlite_error', 'SQLite fails on the emitted SQL: %s: %s\n--- SQL\n%s\n%s'
                    % (type(e).__name__, e, main, hdr))
        exp = expected_sqlite(position, s)
        if exp is NOVALUE:
            return None
        try:
            got = [decode_sqlite(position, r[0]) for r in rows]
        except Exception as e:
            return ('value_differs', 'undecodable result %r (%s)\n%s' % (rows, e, hdr))
        want_rows = [exp] if position != 'fact_of_two' else sorted([DECOY, exp])
        if position == 'fact_of_two':
            got = sorted(got)
        if got != want_rows:
            return ('value_differs', 'SQLite returned %r, expected exactly %r\n'
                    '--- SQL\n%s\n%s' % (got, want_rows, main, hdr))
    return None


CLASS = {'\\': 'backslash', "'": 'squote', '"': 'dquote', '\n': 'newline', '\t': 'tab',
         '\r': 'cr', '#': 'hash', '/': 'slash', '*': 'star', '-': 'dash', ';': 'semicolon',
         ',': 'comma', '(': 'paren', ')': 'paren', '[': 'bracket', ']': 'bracket',
         '{': 'brace', '}': 'brace', '%': 'percent', '$': 'dollar', ':': 'colon',
         '|': 'bar', '~': 'tilde', '`': 'backquote', '=': 'equals', ' ': 'space'}


def classes(s):
    out = set()
    for c in s:
        if c in CLASS:
            out.add(CLASS[c])
        elif ord(c) > 0xffff:
            out.add('astral')
        elif ord(c) > 127:
            out.add('nonascii')
        elif c.isalnum():
            out.add('alnum')
        else:
            out.add('other')
    return out


def shrink_string(s, position, form, engine):
    """Smallest sub-sequence of s (same position/engine, any form able to express it)
    that still fails."""
    def fails(chars):
        t = ''.join(chars)
        f = form if can_express(form, t) else 'sq'
        return check_literal(t, position, f, engine) is not None
    chars = list(s)
    if chars and fails([]):
        return ''               # position/engine broken for every string
    if len(chars) > 1:
        chars = core.ddmin(chars, fails, max_tests=80)
        # ddmin never tries the empty list / single survivors exhaustively
        for i in range(len(chars) - 1, -1, -1):
            if len(chars) > 1 and fails(chars[:i] + chars[i + 1:]):
                chars = chars[:i] + chars[i + 1:]
    return ''.join(chars)


_pattern = {}


def failing_pattern(m):
    """(position, engine) pairs at which the (minimal) string m fails, any form."""
    k = (m, core.repo_path())
    if k not in _pattern:
        out = []
        for pos in POSITIONS:
            for e in ENGINES:
                if check_literal(m, pos, 'sq', e) is not None:
                    out.append((pos, e))
        _pattern[k] = out
    return _pattern[k]


def literal_bucket(s, position, form, engine):
    """Root-cause bucket of a failing literal case + the minimal string:
    literal:<character classes of the minimal string>:<engines on which it fails>:
    <all_positions | at_<positions at which it fails>>[:only_form_<form>]"""
    m = shrink_string(s, position, form, engine)
    f = form if can_express(form, m) else 'sq'
    cl = classes(m)
    cls = '+'.join(sorted(cl - ({'alnum'} if len(cl) > 1 else set()))) or 'empty'
    pat = failing_pattern(m)
    if (position, engine) not in pat:
        # fails only in a form other than '...'
        return 'literal:%s:only_form_%s' % (cls, f), m, f
    engs = sorted(set(e for p, e in pat))
    poss = [p for p in POSITIONS if any(p == p2 for p2, e in pat)]
    where = 'all_positions' if len(poss) == len(POSITIONS) else 'at_' + '+'.join(poss)
    return 'literal:%s:%s:%s' % (cls, '+'.join(engs), where), m, f


def d6_class(s, engine):
    return engine == 'clickhouse' and '\\' in s


def d12_class(s, position, engine):
    return '\n' in s and engine in RAW_NEWLINE_ENGINES and position in INDENTED_POSITIONS


# ---------------------------------------------------------------- ${flag} sub-domain

REF = re.compile(r'[$][{](.*?)[}]')
MAX_ROUNDS = 3000      # the compiler's own guard is 100 rounds per text it expands


class CountingDict(dict):
    """flag_values stand-in: counts the substitution rounds of the compiler."""
    calls = 0

    def items(self):
        self.calls += 1
        if self.calls > MAX_ROUNDS:
            raise RoundsExceeded()
        return dict.items(self)


class RoundsExceeded(BaseException):
    pass


def def_literals(defs, forms=None):
    """Source text of each default value: the drawn literal form when it can express the
    value, else '...' with Python escapes (which expresses every string)."""
    out = []
    for i, (n, v) in enumerate(defs):
        f = (forms[i] if forms and i < len(forms) else 'dq')
        if not can_express(f, v):
            f = 'sq'
        out.append(literal(f, v))
    return out


def flag_program(defs, use, engine, forms=None, read=None):
    """read=None: the fact T("<use>") (textual ${flag} expansion inside a literal);
    read=<flag>: the fact T(FlagValue("<flag>"))."""
    lits = def_literals(defs, forms)
    fact = 'T(FlagValue("%s"));\n' % read if read else 'T("%s");\n' % use
    return '@Engine("%s");\n' % engine + ''.join(
        '@DefineFlag("%s", %s);\n' % (n, l) for (n, v), l in zip(defs, lits)) + fact


def simulate(text, eff, order):
    """Plain textual substitution to a fixed point, flags visited in `order`; None when
    no fixed point within len(eff) + 2 rounds.  Used ONLY to recognise inputs whose
    meaning depends on the order of the textual replacements (references that come into
    being by juxtaposition, e.g. "$" + "{a}", or nested ones, "${a${b}}"): the expected
    text always comes from the structural expansion below."""
    for _ in range(len(eff) + 3):
        prev = text
        for n in order:
            text = text.replace('${%s}' % n, eff[n])
        if text == prev:
            return text
    return None


def flag_model(defs, user, use, forms=None):
    """-> dict(kind=..., expected=...) from the documented meaning only."""
    defaults = dict(defs)
    eff = dict(defaults)
    eff.update(user)
    in_text = set(REF.findall(use))
    in_src = set(REF.findall(use))
    for (n, v), l in zip(defs, def_literals(defs, forms)):
        in_text |= set(REF.findall(v))
        in_src |= set(REF.findall(l))
    if in_text != in_src:
        # a parameter-like sequence exists in the escaped source text of a literal and
        # not in its value (or vice versa): which of the two the compiler should scan for
        # undefined parameters is not stated anywhere
        return {'kind': 'ambiguous_parameter_scan'}
    undefined = sorted(in_text - set(defaults))
    if undefined:
        return {'kind': 'undefined_in_program', 'names': undefined}

    def refs(n):
        # a name that is not a flag, or a flag whose value is its own reference
        # (the documented "no value" default), is inert text
        return [r for r in REF.findall(eff[n]) if r in eff and eff[r] != '${%s}' % r]
    start = [r for r in REF.findall(use) if r in eff and eff[r] != '${%s}' % r]
    reach, stack = set(), list(start)
    while stack:
        n = stack.pop()
        if n in reach:
            continue
        reach.add(n)
        stack.extend(refs(n))
    # cycle detection + growth class on the reachable part
    color = {}
    cyc = [False]

    def dfs(n):
        color[n] = 1
        for r in refs(n):
            if color.get(r) == 1:
                cyc[0] = True
            elif r not in color:
                dfs(r)
        color[n] = 2
    for n in sorted(reach):
        if n not in color:
            dfs(n)
    if cyc[0]:
        # strongly connected components (tiny graphs: closure by reachability)
        def reach_from(n):
            seen, st_ = set(), list(refs(n))
            while st_:
                x = st_.pop()
                if x not in seen:
                    seen.add(x)
                    st_.extend(refs(x))
            return seen
        rf = {n: reach_from(n) for n in reach}
        exp_growth = False
        renaming = True
        for n in reach:
            if n in rf[n]:       # n is on a cycle
                back = [r for r in refs(n) if n in rf[r] or r == n]
                if len(back) >= 2:
                    exp_growth = True
                if REF.sub('', eff[n]) != '' or len(REF.findall(eff[n])) != 1:
                    renaming = False
        return {'kind': 'cycle', 'exponential': exp_growth, 'renaming_only': renaming}

    def expand(text, depth=0):
        def rep(m):
            n = m.group(1)
            if n in eff and eff[n] != '${%s}' % n:
                return expand(eff[n], depth + 1)
            return m.group(0)
        return REF.sub(rep, text)
    exp = expand(use)
    names = [n for n, v in defs]
    if simulate(use, eff, names) != exp or simulate(use, eff, names[::-1]) != exp:
        return {'kind': 'order_dependent_expansion'}
    return {'kind': 'acyclic', 'expected': exp,
            'depth': len(reach), 'has_refs': bool(start)}


def compile_flags(text, user):
    """-> ('sql', program) | ('diagnostic', e) | ('internal', e) | ('rounds', None)"""
    try:
        with drive.quiet():
            rules = drive.parse.ParseFile(text)['rule']
            lp = drive.universe.LogicaProgram(rules, user_flags=dict(user))
            cd = CountingDict(lp.flag_values)
            lp.flag_values = cd
            lp.FormattedPredicateSql('T')
        return 'sql', lp
    except RoundsExceeded:
        return 'rounds', None
    except drive.DIAGNOSTICS as e:
        return 'diagnostic', e
    except Exception as e:
        return 'internal', e


MARK = 'qzqmarkqzq'
# characters an engine's string literal takes verbatim (documented lexical rules, the same
# ones lv/sqlscope.py implements): a value spliced by ${flag} is SQL text written by the
# user, the compiler does not escape it, so only values free of that engine's quote and
# escape characters are required to come back unchanged as ONE literal
NO_BACKSLASH_ESCAPES = ('sqlite', 'psql', 'trino', 'presto')


def verbatim_in_literal(engine, text):
    if engine in NO_BACKSLASH_ESCAPES:
        return "'" not in text
    return not any(c in text for c in '\'"\\\n\r\t')


def check_flags(defs, user, use, engine, allow_exponential=False, forms=None, read=None):
    """-> (failures [(bucket, detail)], labels)"""
    defs = [tuple(d) for d in defs]
    user = dict(user)
    if read:
        return check_flagvalue(defs, user, read, engine, forms)
    m = flag_model(defs, user, use, forms)
    text = flag_program(defs, use, engine, forms)
    hdr = '--- engine %s, user flags %r\n%s' % (engine, user, text)
    labels = ['flags:' + m['kind']]
    if m['kind'] in ('ambiguous_parameter_scan', 'order_dependent_expansion'):
        return [], labels + ['flags:not_run']
    if m['kind'] == 'cycle' and m['exponential']:
        labels.append('flags:cycle_exponential')
        if not allow_exponential:
            return [], labels + ['flags:not_run']
        return exponential_probe(defs, user, use, engine, hdr, forms), labels
    kind, val = compile_flags(text, user)
    labels.append('flags:%s->%s' % (m['kind'], kind))
    if kind == 'rounds':
        return [('flags:expansion_unbounded',
                 'more than %d substitution rounds: the expansion does not terminate\n%s'
                 % (MAX_ROUNDS, hdr))], labels
    if kind == 'internal':
        e = val
        tb = ''.join(traceback.format_exception(type(e), e, e.__traceback__))[-1500:]
        return [('flags:internal:%s' % drive.exc_frame(e), tb + '\n' + hdr)], labels
    if m['kind'] == 'undefined_in_program':
        if kind != 'diagnostic':
            return [('flags:undefined_param_accepted',
                     'parameters %s are used in the program and not defined, but '
                     'compilation succeeded\n%s' % (m['names'], hdr))], labels
        return [], labels
    if m['kind'] == 'cycle':
        if m['renaming_only']:
            labels.append('flags:renaming_cycle->%s' % kind)
        elif kind != 'diagnostic':
            # a growing cycle has no fixed point: SQL can only mean an incomplete
            # expansion
            return [('flags:growing_cycle_accepted',
                     'cyclic flag definitions with no fixed point, yet SQL came back\n'
                     '--- SQL\n%s\n%s' % (val.execution.main_predicate_sql, hdr))], labels
        return [], labels
    # acyclic: full expansion, user values win
    if kind == 'diagnostic':
        return [('flags:acyclic_rejected:' + common.msg_class(common.first_line(val)),
                 'acyclic flag definitions rejected: %s\n%s' % (
                     common.first_line(val), hdr))], labels
    main = val.execution.main_predicate_sql
    exp = m['expected']
    # (1) textual: the statement is the one compiled for a reference-free marker string
    # at the same place, with the marker replaced by the full expansion - character for
    # character, whatever the values contain
    kind0, val0 = compile_flags(flag_program(defs, MARK, engine, forms), user)
    if kind0 != 'sql' or val0.execution.main_predicate_sql.count(MARK) != 1:
        return [('flags:control_rejected', 'the same flags with the fact T("%s") do not '
                 'compile to one occurrence of the marker: %s %s\n%s' % (
                     MARK, kind0, val0 if kind0 != 'sql' else
                     val0.execution.main_predicate_sql, hdr))], labels
    want = val0.execution.main_predicate_sql.replace(MARK, exp)
    if main != want:
        return [('flags:wrong_expansion',
                 'the SQL is not the plain textual substitution of the flag values '
                 '(user values override defaults):\n--- got\n%s\n--- expected\n%s\n'
                 '--- expansion %r\n%s' % (main, want, exp, hdr))], labels
    # (2) where every character of the expansion is verbatim inside this engine's
    # literal, the statement has exactly one literal and it decodes to the expansion
    if not verbatim_in_literal(engine, exp):
        labels.append('flags:expansion_not_literal_safe')
        return [], labels
    try:
        strs = sqlscope.strings(sqlscope.lex(main, engine))
    except sqlscope.LexError as e:
        return [('flags:not_one_literal', '%s\n--- SQL\n%s\n%s' % (e, main, hdr))], labels
    if strs != [exp]:
        return [('flags:wrong_expansion',
                 'literal(s) %r, expected the full expansion [%r] (user values override '
                 'defaults)\n--- SQL\n%s\n%s' % (strs, exp, main, hdr))], labels
    if engine == 'sqlite':
        try:
            h, rows = drive.execute(val)
        except drive.Interrupted:
            return [], labels
        except Exception as e:
            return [('flags:sqlite_error', '%s: %s\n%s' % (type(e).__name__, e, hdr))], labels
        if rows != [(exp,)]:
            return [('flags:wrong_expansion', 'SQLite returned %r, expected [(%r,)]\n%s' % (
                rows, exp, hdr))], labels
    if m['has_refs']:
        labels.append('flags:chain_depth_%d' % min(m['depth'], 5))
    return [], labels


def check_flagvalue(defs, user, read, engine, forms=None):
    """T(FlagValue("<read>")) among other flags with hostile values: the value of the
    flag (user value, else default) must arrive as one literal that decodes to it, with
    the token shape of the same program reading the plain value "abc".  Asserted when the
    value holds no reference to a flag that has a value (then nothing is to expand)."""
    eff = dict(defs)
    eff.update(user)
    v = eff[read]
    text = flag_program(defs, '', engine, forms, read=read)
    hdr = '--- engine %s, user flags %r, value read %r\n%s' % (engine, user, v, text)
    labels = ['flags:flagvalue']
    m = flag_model(defs, user, '', forms)
    if m['kind'] == 'ambiguous_parameter_scan':
        return [], labels + ['flags:not_run']
    kind, val = compile_flags(text, user)
    labels.append('flags:flagvalue->%s' % kind)
    if kind == 'rounds':
        return [('flags:expansion_unbounded',
                 'more than %d substitution rounds\n%s' % (MAX_ROUNDS, hdr))], labels
    if kind == 'internal':
        e = val
        tb = ''.join(traceback.format_exception(type(e), e, e.__traceback__))[-1500:]
        return [('flags:internal:%s' % drive.exc_frame(e), tb + '\n' + hdr)], labels
    if m['kind'] == 'undefined_in_program':
        if kind != 'diagnostic':
            return [('flags:undefined_param_accepted',
                     'parameters %s are used in the program and not defined, but '
                     'compilation succeeded\n%s' % (m['names'], hdr))], labels
        return [], labels
    live = [r for r in REF.findall(v) if r in eff and eff[r] != '${%s}' % r]
    nested = simulate(v, eff, [n for n, _ in defs]) != v
    if live or nested:
        # the value itself uses the ${flag} form: expansion applies (covered by the
        # T("...") cases); here only that compilation ends
        return [], labels + ['flags:flagvalue_with_references']
    if kind == 'diagnostic':
        return [('flags:flagvalue_rejected:' + common.msg_class(common.first_line(val)),
                 'a program reading a flag value was rejected: %s\n%s' % (
                     common.first_line(val), hdr))], labels
    main = val.execution.main_predicate_sql
    kind0, val0 = compile_flags(text, dict(user, **{read: CONTROL}))
    if kind0 != 'sql':
        return [('flags:control_rejected', 'the same program with the value "abc" for the '
                 'flag read does not compile: %s %s\n%s' % (kind0, val0, hdr))], labels
    try:
        ctl = [(t[0], t[1]) for t in sqlscope.lex(val0.execution.main_predicate_sql, engine)]
        toks = [(t[0], t[1]) for t in sqlscope.lex(main, engine)]
    except sqlscope.LexError as e:
        return [('flags:flagvalue_not_one_literal', 'the statement does not tokenise under '
                 '%s rules: %s\n--- SQL\n%s\n%s' % (engine, e, main, hdr))], labels
    want = [((k, v) if k in ('str', 'dq') and x == CONTROL else (k, x)) for k, x in ctl]
    if toks != want:
        return [('flags:flagvalue_differs',
                 'tokens of the statement differ from those for the value "abc" with the '
                 'literal replaced by the value: literals %r, expected [%r]\n--- SQL\n%s\n%s'
                 % (sqlscope.strings(sqlscope.lex(main, engine)), v, main, hdr))], labels
    if engine == 'sqlite':
        try:
            h, rows = drive.execute(val)
        except drive.Interrupted:
            return [], labels
        except Exception as e:
            return [('flags:sqlite_error', '%s: %s\n%s' % (type(e).__name__, e, hdr))], labels
        if rows != [(v,)]:
            return [('flags:flagvalue_differs', 'SQLite returned %r, expected [(%r,)]\n%s' % (
                rows, v, hdr))], labels
    labels.append('flags:flagvalue_checked')
    return [], labels


PROBE = r'''
import resource, sys, json
resource.setrlimit(resource.RLIMIT_AS, (400 * 2**20, 400 * 2**20))
sys.path.insert(0, sys.argv[1])
from lv.props import c10
from lv import drive
drive.enable_library_cache()
case = json.loads(sys.argv[2])
kind, val = c10.compile_flags(c10.flag_program([tuple(d) for d in case['defs']],
                                               case['use'], case['engine'],
                                               case.get('forms')), case['user'])
print('OUTCOME', kind, type(val).__name__)
'''


def exponential_probe(defs, user, use, engine, hdr, forms=None):
    """Runs the compilation in a child with a 400 MB address-space limit (a resource
    count, not a clock)."""
    case = {'defs': defs, 'user': user, 'use': use, 'engine': engine, 'forms': forms}
    env = dict(os.environ)
    env['PYTHONPATH'] = core.VERIF + os.pathsep + env.get('PYTHONPATH', '')
    p = subprocess.run([sys.executable, '-c', PROBE, core.VERIF, json.dumps(case)],
                       capture_output=True, text=True, env=env, cwd=core.VERIF)
    out = p.stdout.strip().split('\n')[-1] if p.stdout.strip() else ''
    if out.startswith('OUTCOME diagnostic') or out.startswith('OUTCOME sql'):
        return []
    return [('flags:expansion_exhausts_memory',
             'cyclic flag definition with two references back into the cycle: the text '
             'doubles in every substitution round; the guard counts rounds (100), so '
             'the compilation runs out of memory (400 MB limit in a child process) '
             'instead of ending with the diagnostic.  child said: %r rc=%s\n%s' % (
                 out or p.stderr[-300:], p.returncode, hdr))]


# ---------------------------------------------------------------- strategies

def strings():
    return st.lists(st.one_of(st.sampled_from(ALPHABET), st.sampled_from(ALPHABET),
                              st.sampled_from(FRAGMENTS)),
                    min_size=0, max_size=8).map(''.join).filter(lambda s: '${' not in s)


@st.composite
def literal_cases(draw):
    s = draw(strings())
    forms = draw(st.lists(st.sampled_from(FORMS), min_size=len(POSITIONS),
                          max_size=len(POSITIONS)))
    return ('lit', s, forms)


NAME = st.text(alphabet='abcdefghijklmnopqrstuvwxyz', min_size=1, max_size=4)
SAFE = st.text(alphabet='abcxyz019_ .', min_size=0, max_size=3)
# what a flag value can legitimately hold (paths, regular expressions, format strings,
# quoted text): everything special to re / str.format / % templates, to the ${...} form
# itself and to the eight literal syntaxes
HOSTILE = ['\\', '\\\\', '\\n', '\\t', '\\r', '\\d', '\\x', '\\1', '\\0', '\\g<0>',
           '\\g<1>', '\\g<a>', '\\u00e9', '$', '{', '}', '$$', '$1', '${', '{a}', '$a', '%s',
           '%d', '%', '%%', '%(a)s', '{0}', '{}', '{{', '}}', "'", "''", '"', '\\\'', '\n',
           '\t', '#', '--', '/*', '*/', ';', ',', '(', ')', 'é', '漢', 'C:\\new\\table',
           '^\\d+$', "') --"]
USE_SAFE = st.text(alphabet='abcxyz019_ .${}%()', min_size=0, max_size=3)


@st.composite
def flag_cases(draw):
    names = draw(st.lists(NAME, min_size=1, max_size=5, unique=True))
    mode = draw(st.sampled_from(['dag', 'dag', 'dag', 'any', 'any', 'undefined', 'ring']))
    extra = draw(NAME.filter(lambda n: n not in names))
    hostile = draw(st.sampled_from([False, True, True]))

    def plain():
        if hostile and draw(st.integers(0, 2)) > 0:
            return ''.join(draw(st.lists(st.one_of(st.sampled_from(HOSTILE),
                                                   st.sampled_from(HOSTILE), SAFE),
                                         min_size=1, max_size=3)))
        return draw(SAFE)

    def value(i, pool):
        if pool and draw(st.integers(0, 5)) == 0:
            return '${%s}' % draw(st.sampled_from(pool))      # pure renaming
        parts = [plain()]
        for _ in range(draw(st.sampled_from([0, 1, 1, 2]))):
            if pool:
                parts.append('${%s}' % draw(st.sampled_from(pool)))
                parts.append(plain())
        return ''.join(parts)
    defs = []
    for i, n in enumerate(names):
        if mode == 'ring':
            # a -> b -> ... -> a, every value exactly one reference (or nearly)
            nxt = names[(i + 1) % len(names)]
            defs.append((n, '${%s}' % nxt + (plain() if draw(st.integers(0, 4)) == 0
                                             else '')))
            continue
        if mode == 'dag':
            pool = names[i + 1:]
        elif mode == 'any':
            pool = names
        else:
            pool = names[i + 1:] + [extra]
        defs.append((n, value(i, pool)))
    user = {}
    for i, n in enumerate(names):
        if draw(st.integers(0, 3)) == 0:
            pool = names[i + 1:] if mode not in ('any', 'ring') else names
            user[n] = value(i, pool)
    use_names = draw(st.lists(st.sampled_from(names), min_size=1, max_size=2))
    sf = USE_SAFE if hostile else SAFE
    use = draw(sf) + ''.join('${%s}%s' % (n, draw(sf)) for n in use_names)
    forms = [draw(st.sampled_from(FORMS)) for _ in names] if hostile else None
    read = None
    if hostile and draw(st.integers(0, 3)) == 0:
        # T(FlagValue("<read>")) instead; mostly a flag whose value is plain data
        eff = dict(defs)
        eff.update(user)
        free = [n for n in names if '${' not in eff[n]]
        if free and draw(st.integers(0, 3)) > 0:
            read = draw(st.sampled_from(free))
        else:
            read = draw(st.sampled_from(names))
    return ('flag', defs, user, use, forms, read)




# ---------------------------------------------------------------- runner interface

def run_literal(col, s, forms):
    nt = bool(re.search(r'[^a-z0-9 ]', s))
    cl = ['chars:' + c for c in sorted(classes(s))]
    for position, form in zip(POSITIONS, forms):
        if position == 'user_flag':
            form = 'user'
        elif not can_express(form, s):
            form = 'sq'
        f0 = 'sq' if form == 'user' else form
        for engine in ENGINES:
            key = ('lit', s, position, form, engine)
            labels = ['pos:' + position, 'form:' + form, 'engine:' + engine]
            if EXCLUDE_D6 and d6_class(s, engine):
                col.exclude('D6_clickhouse_backslash_in_literal')
                continue
            if EXCLUDE_D12 and d12_class(s, position, engine):
                col.exclude('D12_line_break_in_literal_inside_indented_block')
                continue
            r = check_literal(s, position, f0, engine)
            if r is None:
                col.case(key, nt, labels + (cl if position == 'fact' else []),
                         sample={'string': s, 'position': position, 'form': form,
                                 'engine': engine})
                continue
            col.case(key, False, labels + ['failed'])
            if sum(col._fail_count.values()) >= MAX_BUCKETED_FAILURES:
                col.label('failure_not_bucketed')     # enough reported already
                continue
            b, m, f = literal_bucket(s, position, f0, engine)
            r2 = check_literal(m, position, f, engine) or r
            col.fail(b, {'kind': 'lit', 's': m, 'position': position,
                         'form': 'user' if form == 'user' else f, 'engine': engine},
                     '[%s] %s' % (r2[0], r2[1]))


_cli = {}


def cli_reader():
    """logica.py's ReadUserFlags (the command line's --flag=value reader), taken from
    the source of the repository under test: logica.py is a script with package-relative
    imports, so the one function is compiled on its own with the names it uses."""
    k = core.repo_path()
    if k not in _cli:
        import ast
        import getopt
        from common import color
        path = os.path.join(k, 'logica.py')
        with open(path) as f:
            tree = ast.parse(f.read())
        fn = [n for n in tree.body
              if isinstance(n, ast.FunctionDef) and n.name == 'ReadUserFlags']
        ns = {'getopt': getopt, 'sys': sys, 'universe': drive.universe, 'color': color}
        exec(compile(ast.Module(body=fn, type_ignores=[]), path, 'exec'), ns)
        _cli[k] = ns['ReadUserFlags']
    return _cli[k]


def check_cli(defs, user, forms=None):
    """--name=value arguments for defined flags come back as exactly {name: value}."""
    defs = [tuple(d) for d in defs]
    text = flag_program(defs, '', 'sqlite', forms)
    argv = ['--%s=%s' % (n, v) for n, v in sorted(user.items())]
    hdr = '--- argv %r\n%s' % (argv, text)
    try:
        with drive.quiet():
            rules = drive.parse.ParseFile(text)['rule']
    except BaseException:
        return []
    try:
        with drive.quiet():
            got = cli_reader()(rules, argv)
    except (KeyboardInterrupt, MemoryError):
        raise
    except BaseException as e:
        return [('flags:cli_flag_rejected',
                 'ReadUserFlags refuses values for defined flags: %s: %s\n%s' % (
                     type(e).__name__, e, hdr))]
    if got != dict(user):
        return [('flags:cli_flag_value_differs',
                 'ReadUserFlags returned %r, expected %r\n%s' % (got, dict(user), hdr))]
    return []


def hostile_classes(defs, user):
    out = set()
    for v in [v for n, v in defs] + list(user.values()):
        t = REF.sub('', v)
        if '\\' in t:
            out.add('backslash')
        if "'" in t or '"' in t:
            out.add('quote')
        if '$' in t or '{' in t or '}' in t:
            out.add('dollar_brace')
        if '%' in t:
            out.add('percent')
        if '\n' in t or '\t' in t:
            out.add('control_char')
        if any(ord(c) > 127 for c in t):
            out.add('nonascii')
    return sorted(out)


def run_flags(col, defs, user, use, forms=None, read=None):
    m = flag_model(defs, user, use, forms)
    nt = any(REF.search(v) for n, v in defs) or any(REF.search(v) for v in user.values())
    hc = hostile_classes(defs, user)
    nt = nt or bool(hc)
    if m['kind'] in ('ambiguous_parameter_scan', 'order_dependent_expansion'):
        col.exclude('flags_' + m['kind'])
    if user:
        fails = check_cli(defs, user, forms)
        col.case(('flag_cli', defs, sorted(user.items()), forms), bool(hc) and not fails,
                 ['flags:cli_reader'])
        for b, d in fails:
            col.fail(b, {'kind': 'flag', 'defs': [list(x) for x in defs], 'user': user,
                         'use': use, 'engine': 'sqlite', 'forms': forms, 'cli': True}, d)
    for engine in ENGINES:
        key = ('flag', defs, sorted(user.items()), use, forms, read, engine)
        if m['kind'] == 'cycle' and m['exponential'] and EXCLUDE_EXP_CYCLES:
            col.exclude('flag_cycle_with_exponential_growth')
            continue
        if m['kind'] == 'cycle' and m['exponential'] and engine != 'sqlite' and not read:
            continue        # the child-process probe is expensive: one engine is enough
        fails, labels = check_flags(defs, user, use, engine, allow_exponential=True,
                                    forms=forms, read=read)
        if user:
            labels.append('flags:user_override')
        if engine == 'sqlite':
            labels += ['flags:value_has_' + c for c in hc]
            if forms:
                labels.append('flags:hostile_alphabet')
        col.case(key, nt and not fails and 'flags:not_run' not in labels,
                 labels + ['engine:' + engine],
                 sample={'defs': defs, 'user': user, 'use': use, 'engine': engine,
                         'forms': forms, 'read': read})
        for b, d in fails:
            col.fail(b, {'kind': 'flag', 'defs': [list(x) for x in defs], 'user': user,
                         'use': use, 'engine': engine, 'forms': forms, 'read': read}, d)


def shard(ctx, col):
    drive.enable_library_cache()

    if ctx.k == 0:
        # the control string is a case of the property like any other
        for f in FORMS:
            run_literal(col, CONTROL, [f] * len(POSITIONS))
    n_flag = ctx.budget // FLAG_SHARE
    n_lit = ctx.budget - n_flag
    core.hyp_run(lambda c: run_literal(col, c[1], c[2]), literal_cases(), n_lit,
                 ctx.hyp_seed)
    core.hyp_run(lambda c: run_flags(col, c[1], c[2], c[3], c[4], c[5]), flag_cases(), n_flag,
                 ctx.hyp_seed + 500)


def minimise(case, bucket):
    """Flag cases: fewer flags, fewer user values, shorter texts, same bucket.  (Literal
    cases are already shrunk when they are bucketed.)"""
    if case.get('kind') != 'flag':
        return case

    def fails(c):
        try:
            return any(b == bucket for b, d in check_case(c))
        except Exception:
            return False
    c = json.loads(json.dumps(case))
    if not fails(c):
        return case
    def drop(c):
        for k in sorted(c.get('user', {})):
            c2 = json.loads(json.dumps(c))
            del c2['user'][k]
            if fails(c2):
                c = c2
        i = 0
        while i < len(c['defs']):
            c2 = json.loads(json.dumps(c))
            del c2['defs'][i]
            if c2.get('forms'):
                del c2['forms'][i]
            if c2['defs'] and fails(c2):
                c = c2
            else:
                i += 1
        return c
    c = drop(c)

    def shrink(get, put):
        def test(chars):
            c2 = json.loads(json.dumps(c))
            put(c2, ''.join(chars))
            return fails(c2)
        chars = list(get(c))
        if len(chars) > 1:
            chars = core.ddmin(chars, test, max_tests=60)
        for j in range(len(chars) - 1, -1, -1):
            if test(chars[:j] + chars[j + 1:]):
                chars = chars[:j] + chars[j + 1:]
        put(c, ''.join(chars))
    for i in range(len(c['defs'])):
        shrink(lambda x, i=i: x['defs'][i][1],
               lambda x, v, i=i: x['defs'][i].__setitem__(1, v))
    for k in sorted(c.get('user', {})):
        shrink(lambda x, k=k: x['user'][k], lambda x, v, k=k: x['user'].__setitem__(k, v))
    if not c.get('read') and not c.get('cli'):
        shrink(lambda x: x['use'], lambda x, v: x.__setitem__('use', v))
    return drop(c)


def check_case(case):
    drive.enable_library_cache()
    if case.get('kind') == 'flag' and case.get('cli'):
        return check_cli(case['defs'], case.get('user', {}), case.get('forms'))
    if case.get('kind') == 'flag':
        fails, labels = check_flags(case['defs'], case.get('user', {}), case['use'],
                                    case['engine'], allow_exponential=True,
                                    forms=case.get('forms'), read=case.get('read'))
        return fails
    s, position, form, engine = case['s'], case['position'], case['form'], case['engine']
    f0 = 'sq' if form == 'user' else form
    r = check_literal(s, position, f0, engine)
    if r is None:
        return []
    b, m, f = literal_bucket(s, position, f0, engine)
    return [(b, '[%s] %s' % (r[0], r[1]))]
