"""C20: built-in functions and aggregates on SQLite compute their documented meaning.

One generated call per case: `@Engine("sqlite"); T(<builtin call>);` or an aggregating
rule over generated facts, compiled and executed through lv.drive.run(text, 'T').
Aggregates run once per distinct permutation of the fact order (<= 5 facts, <= 120
programs): the order of the facts is the order in which SQLite hands the rows to the
Python UDFs (ArgMin/ArgMax/DistinctListAgg) - checked, see label arrival=fact_order.
Oracle: lv/builtin_models.py (models written from the documentation).
"""
import contextlib
import io
import itertools
import re
import sqlite3
import traceback

from lv import core, drive
from lv import builtin_models as M
from lv.props import common

ID = 'C20'
BUDGET = {'quick': 2600, 'thorough': 36800}        # generated cases (calls)
WALL = {'quick': 1200, 'thorough': 7200}     # safety net only (loaded machines)
RULE = ('round-robin over every built-in named in the statement (46-slot schedule, '
        'UDF-backed aggregates twice); arguments are Hypothesis draws from small '
        'int/float/string/list pools incl. empty lists, zero, negatives, multi-digit '
        'numbers, duplicates; aggregates: 1-5 facts F(g,k,v) with duplicate rows, '
        'equal ordering values (ties), nulls, K in 1..n+1, three forms (T() Op= e, '
        'T(g) Op= e, x = Op{e :- F(..), filter}), EVERY distinct permutation of the '
        'fact order is compiled and run. Non-trivial = scalar call whose argument is '
        'not the identity/empty/zero case (per built-in predicate), or aggregate '
        'over >= 2 non-null rows with >= 2 distinct (ordering) values and >= 2 '
        'permutations; distinct by hash of the program text.')
ASSUMPTIONS = [
    'lv/builtin_models.py (models from docs/learn/logica.md, README.md, tutorial, '
    'sqlite_* goldens and StandardSQL meaning of same-named functions) is the oracle',
    'CPython sqlite3 / SQLite JSON1; SQLite feeds UNION ALL rows to aggregates in '
    'statement order (observed per run through List: label arrival=fact_order)',
    'floats compared with 1e-9 relative tolerance; List as multiset, Set as set, '
    'ArgMin/ArgMax/K/Array ties: any answer consistent with the documentation',
    'dialect-library parse memoised per process (filled by the real parser)',
    'permutations other than the first and last of a case reorder the PARSED facts '
    'instead of re-parsing the reordered text; on the last permutation of every case '
    'both routes are compiled and their SQL must be identical (else harness error)',
]

# ---- known-finding input classes (generator keeps away from them unless switched on)
ALLOW_NULL_ELEMENTS = False    # D8a: null among the values aggregated by List/Set/Array
ALLOW_EMPTY_LIST = False       # D8b: List of nothing
ALLOW_EMPTY_COUNT = False      # D8c: Count of nothing

NOT_ASSERTED = [
    'Element / l[i] with index < 0 or >= Size (docs silent; SQLite: null / JSON path error)',
    'Split with empty or self-overlapping separator (UDF raises on "")',
    'integer / integer with a remainder (SQLite truncates, BigQuery divides exactly)',
    'division or modulo by zero, modulo with a negative operand',
    '0 ^ 0, 0 ^ negative, negative ^ fractional',
    'ToInt64 of non-integral floats / non-numeric strings; ToString of floats',
    '++ on lists (SQLite concatenates the JSON texts)', 'Join of a list of numbers',
    'mixed number/string arguments anywhere; upper-case / non-ASCII string ordering',
    'null arguments of scalar built-ins (except ArrayConcat, fixed by a golden)',
    'null ARGUMENT (k) of ArgMin/ArgMax/K, null ordering key of Array',
    'ArgMinK/ArgMaxK over rows whose ordering values are all null: null and [] accepted',
    'predicate-level aggregation whose body has no solution (T() Op= e gives one row)',
]

INTS = [-12, -3, -2, -1, 0, 1, 2, 3, 4, 5, 7, 9, 10, 11, 21, 100]
FLTS = [-2.5, -0.25, 0.5, 1.5, 2.25, 2.5, 9.5, 10.5]
STRS = ['', 'a', 'b', 'ab', 'ba', 'abc', 'b c', 'a,b', '10', '9', 'x-y', 'zz']

ARITH = ['+', '-', '*', '/', '%', '^']
CMPS = ['<', '<=', '>', '>=', '==', '!=']
SCALARS = (['Range', 'Size', 'Element', 'l[i]', 'in:prop', 'in:bool', 'in:gen', 'Sort',
            'ArrayConcat', '++', 'Join', 'Split', 'ToString', 'ToInt64', 'Least',
            'Greatest'] + ARITH + CMPS)
NATIVE_AGGS = ['Sum', 'Min', 'Max', 'Avg', 'Count', 'List']
UDF_AGGS = ['Set', 'ArgMin', 'ArgMax', 'ArgMinK', 'ArgMaxK', 'Array']
AGGS = NATIVE_AGGS + UDF_AGGS
# statement name -> entries that exercise it
STATEMENT = {
    'Range': ['Range'], 'Size': ['Size'], 'Element': ['Element'], 'l[i]': ['l[i]'],
    'in': ['in:prop', 'in:bool', 'in:gen'], 'Sort': ['Sort'],
    'ArrayConcat': ['ArrayConcat'], '++': ['++'], 'Join': ['Join'], 'Split': ['Split'],
    'ToString': ['ToString'], 'ToInt64': ['ToInt64'], 'Least': ['Least'],
    'Greatest': ['Greatest'], 'arithmetic': ARITH, 'comparison': CMPS,
}
for _a in AGGS:
    STATEMENT[_a] = [_a]


def schedule():
    """Interleaved so that cheap scalar and expensive aggregate cases alternate."""
    aggs = AGGS + UDF_AGGS[1:]          # ArgMin, ArgMax, ArgMinK, ArgMaxK, Array twice
    out = []
    sc = list(SCALARS)
    i = j = 0
    while i < len(sc) or j < len(aggs):
        for _ in range(2):
            if i < len(sc):
                out.append(sc[i])
                i += 1
        if j < len(aggs):
            out.append(aggs[j])
            j += 1
    return out


SCHED = schedule()


# ================================================================== generation

def P(r, percent):
    """Bernoulli draw.  (Hypothesis' r.random() is far from uniform: integer draws.)"""
    return r.randrange(100) < percent


def g_val(r, t):
    if t == 'str':
        return r.choice(STRS)
    if t == 'num' and P(r, 50):
        return r.choice(FLTS)
    return r.choice(INTS) if P(r, 75) else r.randint(-20, 120)


def g_list(r, t, lo, hi):
    n = r.randint(lo, hi)
    if n and P(r, 30):          # few distinct values => duplicates
        pool = [g_val(r, t) for _ in range(2)]
        return [r.choice(pool) for _ in range(n)]
    return [g_val(r, t) for _ in range(n)]


def g_type(r, choices=('int', 'num', 'str')):
    return r.choice(list(choices))


def gen_scalar(r, b):
    a = {}
    if b == 'Range':
        a = {'n': r.randint(-2, 6), 'form': r.choice(['val', 'val', 'gen'])}
    elif b == 'Size':
        a = {'l': g_list(r, g_type(r), 0, 5)}
    elif b in ('Element', 'l[i]'):
        l = g_list(r, g_type(r), 1, 5)
        a = {'l': l, 'i': r.randint(0, len(l) - 1)}
    elif b == 'in:gen':
        a = {'l': g_list(r, g_type(r), 0, 4)}
    elif b in ('in:prop', 'in:bool'):
        t = g_type(r)
        l = g_list(r, t, 0, 4)
        if l and P(r, 50):
            x = r.choice(l)
            if t != 'str' and isinstance(x, int) and P(r, 20):
                x = float(x)            # sqlite_in_expr_test: 4 / 2.0 in Range(10)
        elif l and t == 'str' and P(r, 60):
            e = r.choice(l)             # near miss: piece / extension of an element
            x = r.choice([e[:-1], e[1:], e + 'a', e + ',', ', '])
        else:
            x = g_val(r, t)
        a = {'x': x, 'l': l}
    elif b == 'Sort':
        a = {'l': g_list(r, g_type(r), 0, 6)}
        if P(r, 60):
            # a second built-in over the byte-identical list literal, executed right
            # after the Sort in the same process: its value must not depend on that
            a['then'] = r.choice(['Join', 'ArrayConcat', 'ArrayConcat', 'Size', 'Element'])
            if a['then'] == 'Join' and any(not isinstance(x, str) for x in a['l']):
                a['then'] = 'ArrayConcat'
            if a['then'] == 'Element' and not a['l']:
                a['then'] = 'Size'
    elif b == 'ArrayConcat':
        t = g_type(r)
        a = {'a': g_list(r, t, 0, 3), 'b': g_list(r, t, 0, 3)}
        if P(r, 6):
            a[r.choice(['a', 'b'])] = None
    elif b == '++':
        a = {'parts': [r.choice(STRS) for _ in range(r.randint(2, 3))]}
    elif b == 'Join':
        a = {'l': g_list(r, 'str', 0, 4), 'sep': r.choice(['', ',', ', ', '-', 'ab'])}
    elif b == 'Split':
        sep = r.choice([',', '-', 'ab', ',-', 'b'])
        if P(r, 50):
            s = sep.join(r.choice(['', 'a', 'x', 'aa', 'c d'])
                         for _ in range(r.randint(1, 4)))
        else:
            s = ''.join(r.choice('ab,-') for _ in range(r.randint(0, 8)))
        a = {'s': s, 'sep': sep}
    elif b == 'ToString':
        a = {'x': g_val(r, 'int') if P(r, 80) else r.choice(STRS)}
    elif b == 'ToInt64':
        x = g_val(r, 'int') if P(r, 60) else r.randint(-1000, 1000)
        a = {'x': x if P(r, 30) else str(x)}
    elif b in ('Least', 'Greatest'):
        a = {'args': g_list(r, g_type(r), 2, 4)}
    elif b in ARITH:
        a = gen_arith(r, b)
    elif b in CMPS:
        t = g_type(r)
        x = g_val(r, t)
        y = x if P(r, 25) else g_val(r, t)
        a = {'x': x, 'y': y, 'form': r.choice(['val', 'prop'])}
    else:
        raise ValueError(b)
    return {'kind': 'scalar', 'b': b, 'a': a}


def gen_arith(r, op):
    if op in ('+', '-', '*'):
        t = g_type(r, ('int', 'num'))
        return {'x': g_val(r, t), 'y': g_val(r, t)}
    if op == '/':
        if P(r, 50):
            y = r.choice([x for x in INTS if x != 0])
            q = g_val(r, 'int')
            return {'x': q * y, 'y': y}
        x, y = g_val(r, 'num'), g_val(r, 'num')
        if not isinstance(x, float) and not isinstance(y, float):
            x = r.choice(FLTS)
        if y == 0:
            y = 4
        return {'x': x, 'y': y}
    if op == '%':
        return {'x': r.randint(0, 30), 'y': r.randint(1, 9)}
    if op == '^':
        x = r.choice([0, 0.5, 1, 2, 3, 10, 2.5, -2, -1, -3])
        if x == 0:
            y = r.choice([1, 2, 0.5, 3])
        elif x < 0:
            y = r.randint(-2, 4)
        else:
            y = r.choice([-2, -1, 0, 1, 2, 3, 4, 0.5, 1.5])
        return {'x': x, 'y': y}
    raise ValueError(op)


# number of facts (n! programs per case): weights in per cent
SIZE_W_UDF = [(1, 6), (2, 20), (3, 42), (4, 28), (5, 4)]         # Array
SIZE_W_K = [(1, 4), (2, 12), (3, 38), (4, 40), (5, 6)]           # bounded heaps
SIZE_W_ARG1 = [(1, 8), (2, 27), (3, 40), (4, 22), (5, 3)]        # ArgMin, ArgMax, Set
SIZE_W_NATIVE = [(1, 8), (2, 30), (3, 46), (4, 15), (5, 1)]      # SQLite's own aggregates


def pick_w(r, table):
    return r.choice([v for v, w in table for _ in range(w)])


def gen_pool(r, vt, size, distinct):
    pool, tries = [], 0
    while len(pool) < size:
        tries += 1
        v = g_val(r, vt)
        if tries > 40:                       # deterministic fresh value
            v = 'v%d' % len(pool) if vt == 'str' else 200 + len(pool)
        if distinct and any(M.val_eq(v, p) for p in pool):
            continue
        pool.append(v)
    return pool


def gen_agg(r, op, excl):
    n = pick_w(r, SIZE_W_K if op in ('ArgMinK', 'ArgMaxK') else
               SIZE_W_ARG1 if op in ('ArgMin', 'ArgMax', 'Set') else
               SIZE_W_UDF if op == 'Array' else SIZE_W_NATIVE)
    if op in ('Sum', 'Avg'):
        vt = g_type(r, ('int', 'num'))
    else:
        vt = g_type(r)
    kt = r.choice(['int', 'str'])
    # ordering / aggregated values: a small pool so that ties and duplicates are common
    isk = op in ('ArgMinK', 'ArgMaxK')
    distinct_vals = P(r, 60 if isk else 45)
    pool = gen_pool(r, vt, n if distinct_vals else r.randint(1, 3), distinct_vals)
    keymode = r.choice(['distinct', 'distinct', 'dups'])
    rows = []
    for i in range(n):
        g = 0 if P(r, 88 if isk else 70) else 1
        if keymode == 'distinct':
            k = i + 1 if kt == 'int' else 'abcde'[i]
        else:
            k = r.randint(1, 2) if kt == 'int' else r.choice(['a', 'b'])
        v = pool[i] if distinct_vals else r.choice(pool)
        rows.append([g, k, v])
    if keymode == 'distinct' and P(r, 30):
        r.shuffle(rows)                      # keys not in fact order
    if n >= 2 and P(r, 20):
        rows[r.randint(0, n - 1)] = list(rows[r.randint(0, n - 1)])   # duplicate row
    # nulls in the aggregated / ordering value
    if P(r, 18 if isk else 30):
        for _ in range(r.randint(1, 2)):
            rows[r.randint(0, n - 1)][2] = None
    form = r.choice(['head0', 'head0', 'headk', 'expr', 'expr'])
    flt = None
    if form == 'expr':
        flt = r.choice([None, None, 0, 0, 1, 9])   # g == c ; 9 matches nothing
    case = {'kind': 'agg', 'b': op, 'form': form, 'filter': flt, 'rows': rows,
            'perms': 'all'}
    if op == 'Sum':
        case['style'] = r.choice(['plus', 'name'])
    if op in ('ArgMinK', 'ArgMaxK'):
        # K from 1 to n+1; the bounded heap only works when K < n
        ks = [r.randint(1, max(1, n - 1))] * 3 + [n, n + 1]
        if n >= 4:
            ks += [r.randint(2, n - 2)] * 4      # heap is full and is updated twice
        case['K'] = r.choice(ks)
        case['style'] = r.choice(['defn', 'defn', 'aggr']) if form != 'expr' else 'defn'
    if op == 'Array':
        # Array= v -> k: v is the ordering key (never null: not modelled), k the element
        for row in rows:
            if row[2] is None:
                row[2] = r.choice(pool)
        if P(r, 15):
            rows[r.randint(0, n - 1)][1] = None          # null element (D8a class)
    avoid_known(case, r, pool, excl, kt)
    return case


def groups_of(case):
    """-> list of (group label, [(k, v)...]) that the rule aggregates."""
    rows = case['rows']
    if case['form'] == 'headk':
        gs = sorted(set(g for g, k, v in rows))
        return [(g, [(k, v) for g2, k, v in rows if g2 == g]) for g in gs]
    if case['form'] == 'expr' and case.get('filter') is not None:
        return [(None, [(k, v) for g, k, v in rows if g == case['filter']])]
    return [(None, [(k, v) for g, k, v in rows])]


def avoid_known(case, r, pool, excl, kt='int'):
    """Keep the generator away from the input classes of open findings (D8)."""
    op = case['b']
    if op in ('List', 'Set', 'Array') and not ALLOW_NULL_ELEMENTS:
        hit = False
        for row in case['rows']:
            if op == 'Array' and row[1] is None:
                row[1] = 'n' if kt == 'str' else 0
                hit = True
            elif op != 'Array' and row[2] is None:
                row[2] = r.choice(pool)
                hit = True
        if hit:
            excl('D8a:null_value_in_%s' % op)
    if (op == 'List' and not ALLOW_EMPTY_LIST) or (op == 'Count' and not ALLOW_EMPTY_COUNT):
        for i in range(3):
            empties = [pairs for g, pairs in groups_of(case)
                       if not M.effective(op, pairs)]
            if not empties:
                break
            if i == 0:
                excl('D8%s:%s_of_nothing' % ('b' if op == 'List' else 'c', op))
            if case.get('filter') is not None and not any(
                    g == case['filter'] for g, k, v in case['rows']):
                case['filter'] = None
            else:
                for row in case['rows']:
                    if row[2] is None:
                        row[2] = r.choice(pool)


# ================================================================== program text

HEADER = '@Engine("sqlite");\n'


def scalar_program(case):
    """-> (text, kind, expected)"""
    b, a = case['b'], case['a']
    L = M.lit
    if b == 'Range':
        if a.get('form') == 'gen':
            return 'T(x) :- x in Range(%s);' % L(a['n']), 'rows', M.m_range(a['n'])
        return 'T(Range(%s));' % L(a['n']), 'list', M.m_range(a['n'])
    if b == 'Size':
        return 'T(Size(%s));' % L(a['l']), 'num', M.m_size(a['l'])
    if b == 'Element':
        e = M.m_element(a['l'], a['i'])
        return 'T(Element(%s, %s));' % (L(a['l']), L(a['i'])), kind_of(e), e
    if b == 'l[i]':
        e = M.m_element(a['l'], a['i'])
        return 'T(l[%s]) :- l == %s;' % (L(a['i']), L(a['l'])), kind_of(e), e
    if b == 'in:gen':
        return 'T(x) :- x in %s;' % L(a['l']), 'rows', list(a['l'])
    if b == 'in:prop':
        return 'T() :- %s in %s;' % (L(a['x']), L(a['l'])), 'prop', M.m_in(a['x'], a['l'])
    if b == 'in:bool':
        return 'T(%s in %s);' % (L(a['x']), L(a['l'])), 'bool', M.m_in(a['x'], a['l'])
    if b == 'Sort':
        return 'T(Sort(%s));' % L(a['l']), 'list', M.m_sort(a['l'])
    if b == 'ArrayConcat':
        e = M.m_array_concat(a['a'], a['b'])
        return 'T(ArrayConcat(%s, %s));' % (L(a['a']), L(a['b'])), \
            ('null' if e is None else 'list'), e
    if b == '++':
        return 'T(%s);' % ' ++ '.join(L(p) for p in a['parts']), 'str', \
            M.m_concat(a['parts'])
    if b == 'Join':
        return 'T(Join(%s, %s));' % (L(a['l']), L(a['sep'])), 'str', \
            M.m_join(a['l'], a['sep'])
    if b == 'Split':
        return 'T(Split(%s, %s));' % (L(a['s']), L(a['sep'])), 'list', \
            M.m_split(a['s'], a['sep'])
    if b == 'ToString':
        return 'T(ToString(%s));' % L(a['x']), 'str', M.m_to_string(a['x'])
    if b == 'ToInt64':
        return 'T(ToInt64(%s));' % L(a['x']), 'int', M.m_to_int64(a['x'])
    if b in ('Least', 'Greatest'):
        e = (M.m_least if b == 'Least' else M.m_greatest)(a['args'])
        return 'T(%s(%s));' % (b, ', '.join(L(x) for x in a['args'])), kind_of(e), e
    if b in ARITH:
        e = M.m_arith(b, a['x'], a['y'])
        return 'T(%s %s %s);' % (M.opnd(a['x']), b, M.opnd(a['y'])), 'num', e
    if b in CMPS:
        e = M.m_cmp(b, a['x'], a['y'])
        if a.get('form') == 'prop':
            return 'T() :- %s %s %s;' % (M.opnd(a['x']), b, M.opnd(a['y'])), 'prop', e
        return 'T(%s %s %s);' % (M.opnd(a['x']), b, M.opnd(a['y'])), 'bool', e
    raise ValueError(b)


def kind_of(e):
    if e is None:
        return 'null'
    return 'num' if M.is_num(e) else 'str'


def scalar_nontrivial(case):
    b, a = case['b'], case['a']
    if b == 'Range':
        return a['n'] >= 2
    if b == 'Size':
        return len(a['l']) >= 1
    if b in ('Element', 'l[i]'):
        return len(a['l']) >= 2 and len(set(map(repr, a['l']))) >= 2
    if b.startswith('in:'):
        return len(a['l']) >= 2
    if b == 'Sort':
        return a['l'] != sorted(a['l'])
    if b == 'ArrayConcat':
        return bool(a['a']) and bool(a['b'])
    if b == '++':
        return sum(1 for p in a['parts'] if p) >= 2
    if b == 'Join':
        return len(a['l']) >= 2 and a['sep'] != ''
    if b == 'Split':
        return a['sep'] in a['s']
    if b == 'ToString':
        return a['x'] not in (0, '')
    if b == 'ToInt64':
        return a['x'] not in (0, '0')
    if b in ('Least', 'Greatest'):
        return len(set(map(repr, a['args']))) >= 2
    if b in ('+', '-'):
        return a['x'] != 0 and a['y'] != 0
    if b in ('*', '/'):
        return a['x'] not in (0, 1) and a['y'] not in (0, 1)
    if b == '%':
        return a['x'] >= a['y'] > 1
    if b == '^':
        return a['x'] not in (0, 1) and a['y'] not in (0, 1)
    if b in CMPS:
        return a['x'] != a['y']
    return True


def scalar_labels(case):
    b, a = case['b'], case['a']
    ls = []
    for k, v in sorted(a.items()):
        if isinstance(v, list):
            if not v:
                ls.append('arg:empty_list')
            if len(v) != len(set(map(repr, v))):
                ls.append('arg:list_with_duplicates')
            if any(isinstance(x, float) for x in v):
                ls.append('arg:floats')
            if any(M.is_num(x) and abs(x) >= 10 for x in v):
                ls.append('arg:multi_digit')
        elif v is None:
            ls.append('arg:null')
        elif M.is_num(v) and v == 0 and k != 'form':
            ls.append('arg:zero')
        elif M.is_num(v) and v < 0:
            ls.append('arg:negative')
        elif v == '':
            ls.append('arg:empty_string')
    if a.get('form'):
        ls.append('form:%s:%s' % (b, a['form']))
    return ls


def agg_text(case, rows):
    op, form = case['b'], case['form']
    lines = ['F(%s, %s, %s);' % (M.lit(g), M.lit(k), M.lit(v)) for g, k, v in rows]
    e = 'v'
    if op in M.ARG_OPS:
        e = 'k -> v'
    elif op == 'Array':
        e = 'v -> k'
    name = op
    if op in ('ArgMinK', 'ArgMaxK'):
        if case.get('style') == 'aggr':
            name, e = 'Aggr', '%s(%s, %d)' % (op, e, case['K'])
        else:                       # README: ArgMax5(x) = ArgMaxK(x, 5);
            name = 'BestK'
            lines.append('BestK(x) = %s(x, %d);' % (op, case['K']))
    body = 'F(g, k, v)'
    if form == 'expr':
        if case.get('filter') is not None:
            body += ', g == %d' % case['filter']
        lines.append('T(x) :- x = %s{%s :- %s};' % (name, e, body))
    else:
        head = 'T()' if form == 'head0' else 'T(g)'
        if op == 'Sum' and case.get('style') == 'plus':
            lines.append('%s += %s :- %s;' % (head, e, body))
        else:
            lines.append('%s %s= %s :- %s;' % (head, name, e, body))
    return HEADER + '\n'.join(lines) + '\n'


# ================================================================== execution

def run_text(text, rules=None):
    """-> ('ok', hdr, rows, sql) | ('fail', bucket-suffix, detail) |
    ('inconclusive', why, '').  rules: the parse of `text` when already known."""
    err = io.StringIO()
    try:
        with contextlib.redirect_stderr(err):
            hdr, rows, sql = drive.run(text, 'T', rules=rules)
        return ('ok', hdr, rows, sql)
    except drive.Interrupted:
        return ('inconclusive', 'sqlite_budget', '')
    except drive.DIAGNOSTICS as e:
        msg = common.first_line(e)
        return ('fail', 'rejected:%s:%s' % (type(e).__name__, common.msg_class(msg)),
                'compiler refused the program: %s: %s' % (type(e).__name__, msg))
    except sqlite3.Error as e:
        m = str(e).split('\n')[0]
        if 'user-defined' in m:
            # sqlite3.enable_callback_tracebacks(True): the UDF's traceback is on stderr
            tb = err.getvalue()
            frames = re.findall(r'File "[^"]*?([^"/]+)", line \d+, in (\w+)', tb)
            excs = re.findall(r'^(\w+(?:\.\w+)*)(?::|$)', tb, re.M)
            where = '%s:%s' % frames[-1] if frames else '?'
            what = [x for x in excs if x not in ('Traceback', 'File')]
            m = 'udf_raised:%s@%s' % (what[-1] if what else '?', where)
            return ('fail', 'error:' + m, (tb[-1000:] or str(e)))
        return ('fail', 'error:%s:%s' % (type(e).__name__, common.msg_class(m)[:40]),
                traceback.format_exc()[-1200:])
    except Exception as e:
        return ('fail', 'error:' + drive.exc_frame(e), traceback.format_exc()[-1500:])


def check_scalar(case):
    """-> (failures [(bucket, detail)], info)"""
    b = case['b']
    text, kind, exp = scalar_program(case)
    text = HEADER + text + '\n'
    info = {'text': text, 'runs': 1}
    res = run_text(text)
    if res[0] == 'inconclusive':
        info['inconclusive'] = res[1]
        return [], info
    if res[0] == 'fail':
        return [('%s:%s' % (b, res[1]), '%s\n--- program\n%s' % (res[2], text))], info
    hdr, rows = res[1], res[2]

    def bad(why, got):
        return [('%s:%s' % (b, why), 'expected %r (%s)\nactual   %r\n--- program\n%s' % (
            exp, kind, got, text))], info
    if kind == 'prop':
        # multiset semantics: `x in l` may satisfy the body once per matching element;
        # only the truth of the proposition is asserted
        present = len(rows) > 0
        if present != bool(exp) or any(rw != ('yes',) for rw in rows):
            return bad('wrong_truth', rows)
        return [], info
    if kind == 'rows':
        if any(len(rw) != 1 for rw in rows):
            return bad('shape', rows)
        got = [rw[0] for rw in rows]
        return ([], info) if M.multiset_eq(got, exp) else bad('wrong_rows', got)
    if len(rows) != 1 or len(rows[0]) != 1:
        return bad('shape', rows)
    got = rows[0][0]
    if kind == 'list':
        dec = M.decode_list(got)
        ok = isinstance(dec, list) and M.list_eq(dec, exp)
    elif kind == 'null':
        ok = got is None
    elif kind == 'bool':
        ok = isinstance(got, (int, bool)) and got in (0, 1) and bool(got) == bool(exp)
    elif kind == 'int':
        ok = isinstance(got, int) and got == exp
    elif kind == 'num':
        ok = M.is_num(got) and M.num_eq(got, exp)
    else:
        ok = isinstance(got, str) and got == exp
    if not ok:
        return bad('wrong_value', got)
    if b == 'Sort' and case['a'].get('then'):
        l = case['a']['l']
        t = case['a']['then']
        fa = {'Join': {'l': l, 'sep': ','}, 'ArrayConcat': {'a': l, 'b': l[:1]},
              'Size': {'l': l}, 'Element': {'l': l, 'i': 0}}[t]
        f2, i2 = check_scalar({'kind': 'scalar', 'b': t, 'a': fa})
        info['runs'] += i2.get('runs', 1)
        info['then'] = t
        if f2:
            return [('after_Sort:' + bk, 'executed right after %s\n%s' % (text, d))
                    for bk, d in f2], info
    return [], info


def parse_once(text, nfacts):
    """Parse of the identity-order program and the positions of its facts, or
    (None, None) when anything is unusual (then every permutation is parsed)."""
    try:
        with contextlib.redirect_stderr(io.StringIO()):
            rules = drive.parse_rules(text)
        fpos = [i for i, r in enumerate(rules) if r['head']['predicate_name'] == 'F']
        lines = [l[:-1] for l in text.split('\n') if l.startswith('F(')]
        if len(fpos) != nfacts or [rules[i]['full_text'] for i in fpos] != lines:
            return None, None
        return rules, fpos
    except Exception:
        return None, None


def permuted_rules(rules, fpos, p):
    out = list(rules)
    for t, i in enumerate(fpos):
        out[i] = rules[fpos[p[t]]]
    return out


def same_sql_or_die(text, rules, sql):
    """Harness sanity: reordering the parsed facts == parsing the reordered text."""
    with drive.quiet(), contextlib.redirect_stderr(io.StringIO()):
        prog, sql2 = drive.compile_rules(rules, 'T')
    if sql2 != sql:
        raise RuntimeError('C20 harness: permuting parsed facts and parsing permuted '
                           'text give different SQL for\n%s' % text)


def distinct_perms(rows):
    seen = set()
    for p in itertools.permutations(range(len(rows))):
        key = repr([rows[i] for i in p])
        if key in seen:
            continue
        seen.add(key)
        yield p


def extract_groups(case, hdr, rows):
    """-> dict group -> raw value, or None on a shape error."""
    if case['form'] == 'headk':
        out = {}
        for rw in rows:
            if len(rw) != 2 or rw[0] in out:
                return None
            out[rw[0]] = rw[1]
        return out
    if len(rows) != 1 or len(rows[0]) != 1:
        return None
    return {None: rows[0][0]}


def check_agg(case):
    """Runs every distinct permutation; -> (failures, info)."""
    op = case['b']
    rows = case['rows']
    K = case.get('K')
    groups = groups_of(case)
    perms = list(distinct_perms(rows)) if case.get('perms', 'all') == 'all' \
        else [tuple(range(len(rows)))]
    info = {'runs': 0, 'nperms': len(perms), 'text': agg_text(case, rows),
            'tie': any(M.has_tie(op, pairs, K) for g, pairs in groups),
            'arrival': None}
    fails = {}          # bucket -> (detail, failing row order)
    canon = {g: [] for g, _ in groups}
    reasons = {g: [] for g, _ in groups}

    def add(bucket, detail, order):
        if bucket not in fails:
            fails[bucket] = (detail, order)
    parsed, fpos = parse_once(info['text'], len(rows))
    for j, p in enumerate(perms):
        order = [rows[i] for i in p]
        text = agg_text(case, order)
        if parsed is None or j == 0 or j == len(perms) - 1:
            res = run_text(text)                    # parser sees the permuted text
            if parsed is not None and j > 0 and res[0] == 'ok':
                same_sql_or_die(text, permuted_rules(parsed, fpos, p), res[3])
        else:                                       # parsed facts reordered (x1.7 faster)
            res = run_text(text, rules=permuted_rules(parsed, fpos, p))
        info['runs'] += 1
        if res[0] == 'inconclusive':
            info['inconclusive'] = res[1]
            continue
        if res[0] == 'fail':
            add('%s:%s' % (op, res[1]), '%s\n--- program\n%s' % (res[2], text), order)
            continue
        got = extract_groups(case, res[1], res[2])
        if got is None or sorted(map(repr, got)) != sorted(repr(g) for g, _ in groups):
            add('%s:shape' % op, 'expected one value per group %r\nactual rows %r\n'
                '--- program\n%s' % ([g for g, _ in groups], res[2], text), order)
            continue
        for g, pairs in groups:
            raw = got[g]
            val = M.decode_list(raw) if op in M.LIST_OPS else raw
            if op == 'List' and case['form'] == 'head0' and isinstance(val, list) and \
                    info['arrival'] is not False:
                info['arrival'] = (M.list_eq(val, [v for g2, k, v in order]))
            canon[g].append((M.agg_canon(op, val), order, raw))
            bad = M.agg_check(op, pairs, val, K)
            if bad is not None:
                reasons[g].append((bad[0], bad[1], raw, order, text))
    for g, pairs in groups:
        cs = canon[g]
        varies = len(set(repr(c[0]) for c in cs)) > 1
        tie = M.has_tie(op, pairs, K)
        for why, expd, raw, order, text in reasons[g]:
            if why == 'wrong_value' and varies and len(reasons[g]) < len(cs):
                why = 'order_dependent'
            add('%s:%s' % (op, why),
                'group %r, rows %r%s\nexpected %s\nactual   %r\n(%d of %d permutations '
                'wrong, results %s across permutations)\n--- program\n%s' % (
                    g, pairs, (', K=%d' % K) if K else '', expd, raw, len(reasons[g]),
                    len(cs), 'vary' if varies else 'do not vary', text), order)
        if not reasons[g] and varies and not tie:
            a, b2 = cs[0], next(c for c in cs if repr(c[0]) != repr(cs[0][0]))
            if not _close_canon(a[0], b2[0]):
                add('%s:order_dependent' % op,
                    'group %r: %r for fact order %r but %r for fact order %r' % (
                        g, a[2], a[1], b2[2], b2[1]), b2[1])
    return [(b, d, o) for b, (d, o) in sorted(fails.items())], info


def _close_canon(a, b):
    """Canonical values equal up to float tolerance."""
    if isinstance(a, list) and isinstance(b, list):
        return len(a) == len(b) and all(_close_canon(x, y) for x, y in zip(a, b))
    if isinstance(a, tuple) and isinstance(b, tuple) and len(a) == 3 and len(b) == 3:
        return a[0] == b[0] and a[2] == b[2] and M.num_eq(a[1], b[1])
    return a == b


def agg_labels(case, info):
    op, rows = case['b'], case['rows']
    K = case.get('K')
    ls = ['form:' + case['form'], 'rows=%d' % len(rows)]
    np_ = info['nperms']
    ls.append('perms:' + ('1' if np_ == 1 else '2-6' if np_ <= 6 else
                          '7-24' if np_ <= 24 else '25-119' if np_ < 120 else '120'))
    if info['tie']:
        ls.append('tie')
        ls.append('tie:' + op)
    if len(set(map(repr, rows))) < len(rows):
        ls.append('duplicate_rows')
    if any(v is None for g, k, v in rows):
        ls.append('null_value')
        ls.append('null_value:' + op)
    if any(k is None for g, k, v in rows):
        ls.append('null_element')
    for g, pairs in groups_of(case):
        eff = M.effective(op, pairs)
        if not eff:
            ls.append('aggregating_nothing')
            ls.append('aggregating_nothing:' + op)
        if K is not None and eff:
            ls.append('K<n' if K < len(eff) else 'K=n' if K == len(eff) else 'K>n')
    if case.get('filter') is not None:
        ls.append('filtered')
    if case.get('style'):
        ls.append('style:%s:%s' % (op, case['style']))
    vt = set('null' if v is None else 'str' if isinstance(v, str) else
             'float' if isinstance(v, float) else 'int' for g, k, v in rows)
    ls.extend('vtype:' + t for t in sorted(vt))
    if info.get('arrival') is True:
        ls.append('arrival=fact_order')
    elif info.get('arrival') is False:
        ls.append('arrival!=fact_order')
    return sorted(set(ls))


def agg_nontrivial(case, info):
    if info['nperms'] < 2:
        return False
    op = case['b']
    for g, pairs in groups_of(case):
        eff = M.effective(op, pairs)
        if len(eff) >= 2 and len(set(repr(v) for k, v in eff)) >= 2:
            return True
    return False


def run_case(case):
    """-> (failures [(bucket, detail, case_to_store)], info)"""
    if case['kind'] == 'scalar':
        f, info = check_scalar(case)
        return [(b, d, case) for b, d in f], info
    f, info = check_agg(case)
    out = []
    for b, d, order in f:
        c2 = dict(case)
        c2['rows'] = [list(x) for x in order]      # failing schedule first
        out.append((b, d, c2))
    return out, info


# ================================================================== runner contract

def slot_cost(b):
    """Expected number of programs per case (for balancing shards)."""
    if b in ('ArgMinK', 'ArgMaxK'):
        return 20.0
    if b in ('ArgMin', 'ArgMax', 'Set'):
        return 11.9
    return 14.4 if b == 'Array' else 8.2 if b in AGGS else 0.6


def assign_slots(n):
    """Longest-processing-time assignment of schedule slots to n shards."""
    load = [0.0] * n
    out = [[] for _ in range(n)]
    for s in sorted(range(len(SCHED)), key=lambda s: (-slot_cost(SCHED[s]), s)):
        k = min(range(n), key=lambda i: (load[i], i))
        out[k].append(s)
        load[k] += slot_cost(SCHED[s])
    return [sorted(x) for x in out]


def shard(ctx, col):
    """Every slot of SCHED (= every built-in of the statement) belongs to exactly one
    shard and gets total_budget / len(SCHED) cases from its own Hypothesis run, so the
    coverage of the built-ins is by construction, not by luck."""
    drive.enable_library_cache()
    total = ctx.budget * ctx.n
    for s in assign_slots(ctx.n)[ctx.k]:
        q = total // len(SCHED) + (1 if s < total % len(SCHED) else 0)
        run_slot(SCHED[s], q, ctx.seed * 100000 + s, col)


def run_slot(b, q, seed, col):
    def one(r):
        if b in AGGS:
            case = gen_agg(r, b, col.exclude)
        else:
            case = gen_scalar(r, b)
        fails, info = run_case(case)
        col.labels['sqlite_runs'] += info['runs']
        if info.get('inconclusive'):
            col.inconc(info['inconclusive'])
            return
        if case['kind'] == 'scalar':
            nt = scalar_nontrivial(case)
            labels = scalar_labels(case)
        else:
            nt = agg_nontrivial(case, info)
            labels = agg_labels(case, info)
        labels = ['b:' + b] + (['nt:' + b] if nt else []) + labels
        if fails:
            labels.append('failed')
        col.case(info['text'], nt and not fails, labels,
                 sample={'builtin': b, 'program': info['text'],
                         'programs_run': info['runs']})
        for bucket, detail, c2 in fails:
            col.fail(bucket, c2, detail)
    core.hyp_run(one, common.strategy(), q, seed)


def check_case(case):
    drive.enable_library_cache()
    fails, info = run_case(case)
    return [(b, d) for b, d, c in fails]


def minimise(case, bucket):
    def fails(c):
        try:
            return any(b == bucket for b, d in check_case(c))
        except Exception:
            return False
    if case['kind'] == 'agg':
        rows = core.ddmin(case['rows'],
                          lambda rs: fails(dict(case, rows=[list(x) for x in rs])),
                          max_tests=40)
        case = dict(case, rows=[list(x) for x in rows])
        c2 = dict(case, perms='identity')
        if fails(c2):
            case = c2
        if case.get('filter') is not None and case['form'] == 'expr' and \
                any(g == case['filter'] for g, k, v in case['rows']):
            c2 = dict(case, filter=None,
                      rows=[r for r in case['rows'] if r[0] == case['filter']])
            if fails(c2):
                case = c2
        return case
    a = dict(case['a'])
    for key in sorted(a):
        if isinstance(a[key], list) and len(a[key]) >= 2 and key != 'args':
            def f2(sub, key=key):
                a2 = dict(a)
                a2[key] = list(sub)
                if 'i' in a2 and a2['i'] >= len(sub):
                    return False
                return fails(dict(case, a=a2))
            a[key] = core.ddmin(a[key], f2, max_tests=30)
    return dict(case, a=a)


# key of a known-findings entry -> failure buckets it covers (lv.check.known_match)
KNOWN_GROUPS = {
    'D8a': ['List:null_kept', 'Set:null_kept', 'Array:null_kept',
            'Array:error:udf_raised:TypeError@sqlite3_logica.py:finalize'],
    'D8b': ['List:nothing_not_null'],
    'D8c': ['Count:nothing_not_null'],
}


def known_match(entry, bucket):
    return bucket == entry['key'] or bucket in KNOWN_GROUPS.get(entry['key'], [])


def evidence_extra(col):
    per = {}
    missing = []
    for name, entries in sorted(STATEMENT.items()):
        c = sum(col.labels.get('b:' + e, 0) for e in entries)
        nt = sum(col.labels.get('nt:' + e, 0) for e in entries)
        per[name] = {'cases': c, 'nontrivial': nt}
        if c == 0:
            missing.append(name)
    if missing and col.evaluations >= 2 * len(SCHED) and not col.inconclusive:
        raise RuntimeError('built-ins of the statement not exercised: %r' % missing)
    return {'per_builtin': per, 'builtins_not_exercised': missing,
            'programs_compiled_and_run': col.labels.get('sqlite_runs', 0),
            'not_asserted_docs_silent': NOT_ASSERTED,
            'flags': {'ALLOW_NULL_ELEMENTS': ALLOW_NULL_ELEMENTS,
                      'ALLOW_EMPTY_LIST': ALLOW_EMPTY_LIST,
                      'ALLOW_EMPTY_COUNT': ALLOW_EMPTY_COUNT}}
