"""C06: the C++ and the Python parser accept the same programs and build the same rules."""
import json

from lv import core, noise, parsers, syntaxgen, syntaximport

ID = 'C06'
BUDGET = {'quick': 4000, 'thorough': 60000}     # generated programs; ~4 texts each
WALL = {'quick': 1800, 'thorough': 7200}     # safety net only (=> inconclusive shards)
RULE = ('programs of the syntactic grammar generator lv/syntaxgen.py (every statement, '
        'literal, operator and denotation form of docs/syntax.md plus the forms of the '
        'repository\'s own programs); each program yields 4 texts: base print, a layout '
        'variant (whitespace / comments at token boundaries, redundant parentheses, '
        'trailing ;) and one single-token corruption of each from the fixed catalogue in '
        'lv/noise.py; roughly one program in eight is the main file of a generated import tree '
        '(lv/syntaximport.py: files in a run-private temporary directory, import .. [as ..], '
        'nested and shared imports, and the import-level corruptions: missing file, '
        'undefined / unused predicate, cycle, duplicated `as`). Every text is parsed '
        'with LOGICA_PARSER=PY and =CPP in one process: both accept => rule lists equal '
        '(main-file rules in order, rules of imported files as a multiset; '
        'HeritageAwareString as text, and where both trees carry a span, the same span of '
        'the same statement text); both reject (internal Python exception = '
        'reject, tallied); anything else is a failure. Non-trivial: accepted text with '
        '>= 2 rules of which >= 1 has a body, or a corrupted text rejected by both whose '
        'uncorrupted source was accepted; distinct by hash of the text (and files).')
ASSUMPTIONS = ['the shared object is built by lv/cppbuild.py from the current '
               'parser_cpp/logica_parse.cpp with the bridge\'s own compiler flags',
               'parse.ParseFile(text, import_root=dir)["rule"] is the observation point '
               'for both parsers',
               'a Python-internal exception (not ParsingException) counts as rejection',
               'the domain of the undocumented forms (order_by/limit denotations, \'..\' and '
               '""".."" literals, Op{..}, l[i]) is what the repository\'s own programs use, '
               'widened where both parsers agree (see the DOMAIN RESTRICTION notes in '
               'lv/syntaxgen.py)']

# FINDING cpp_array_subscript_heritage (C15 and C06, C++ parser only): the array
# expression of `l[i]` gets a heritage of its own (the text `l`, span 0..1) instead of
# its span in the statement (ParseArraySub builds a fresh SpanString from the name).
# While the exclusion is on, the span comparison skips exactly that node (counted).
EXCLUDE_ARRAYSUB_SPAN = syntaxgen.excluded('ARRAYSUB_SPAN')
KEY_ARRAYSUB = 'cpp_array_subscript_heritage'
IMPORT_SHARE = 4            # one generated program in IMPORT_SHARE is an import tree


def pieces_of(cell_texts, cells, tail):
    """statement-sized chunks whose concatenation is the text."""
    out, cur = [], []
    for txt, c in zip(cell_texts, cells):
        cur.append(txt)
        if c[3] is None:            # the ';' cell closes a statement
            out.append(''.join(cur))
            cur = []
    cur.append(tail)
    if ''.join(cur):
        out.append(''.join(cur))
    return out


def rendered_pieces(r):
    return pieces_of([c[0] + c[2].text for c in r.cells], r.cells, r.tail[0])


def _pipe_operator(tree):
    """an aggregation / call whose operator text contains a single '|'."""
    found = []

    def walk(n):
        if isinstance(n, dict):
            pn = n.get('predicate_name')
            if isinstance(pn, str) and '|' in pn and pn != '||':
                found.append(pn)
            for v in n.values():
                walk(v)
        elif isinstance(n, list):
            for v in n:
                walk(v)
    walk(tree)
    return bool(found)


def _null_call(tree):
    """{"call": null} somewhere: what the C++ parser emits for `v[]`."""
    if isinstance(tree, dict):
        return any((k == 'call' and v is None) or _null_call(v) for k, v in tree.items())
    if isinstance(tree, list):
        return any(_null_call(v) for v in tree)
    return False


def compare_rules(a, b, n_files):
    """-> None | (bucket, path, x, y).  a, b: plain rule lists (PY, CPP).
    n_files None (no imports): the lists must be equal.  Otherwise n_files = k, the
    number of main-file rules: the first k rules must be equal in order, the rest (rules
    of imported files, which the two parsers emit in different file orders) must be
    equal as multisets of canonical JSON."""
    if n_files is None:
        if a != b:
            d = parsers.first_diff(a, b)
            return ('tree_differs:' + parsers.path_class(d[0]),) + tuple(d)
        return None
    k = n_files
    if len(a) != len(b):
        return ('tree_differs:number_of_rules', '/len', len(a), len(b))
    if a[:k] != b[:k]:
        d = parsers.first_diff(a[:k], b[:k])
        return ('tree_differs:main:' + parsers.path_class(d[0]),) + tuple(d)
    ca = sorted(json.dumps(r, sort_keys=True, default=str) for r in a[k:])
    cb = sorted(json.dumps(r, sort_keys=True, default=str) for r in b[k:])
    if ca != cb:
        only_a = [x for x in ca if x not in cb]
        only_b = [x for x in cb if x not in ca]
        return ('tree_differs:imported_rules', '/imported',
                (only_a or ['<multiplicity>'])[0][:600],
                (only_b or ['<multiplicity>'])[0][:600])
    return None


def verdict(text, import_root=None, main_rules=None):
    """-> (failures [(bucket, detail)], info).
    import_root: directory of the generated file tree (None: no imports);
    main_rules: number of rules the main file contributes (imports only)."""
    res = parsers.parse_both(text, import_root)
    (ps, pp), (cs, cp) = res['PY'], res['CPP']
    info = {'py': ps, 'cpp': cs, 'excluded': []}
    fails = []
    if ps == 'ok' and cs == 'ok':
        a, b = parsers.plain(pp), parsers.plain(cp)
        info['n_rules'] = len(a)
        info['has_body'] = any('body' in r for r in a if isinstance(r, dict))
        d = compare_rules(a, b, main_rules if import_root is not None else None)
        if d:
            fails.append((d[0], 'first difference at %s\n  PY : %s\n  CPP: %s\ntext:\n%s' % (
                d[1], json.dumps(d[2], default=str)[:600],
                json.dumps(d[3], default=str)[:600], text)))
        elif import_root is None:
            fails += span_failures(pp, cp, text, info)
    elif ps != 'ok' and cs != 'ok':
        info['py_msg'] = pp
    elif ps == 'ok':
        bucket = 'py_accepts_cpp_%s:%s' % (cs, cp)
        if (cs, cp) == ('reject', 'Could not parse proposition.') and \
                noise.combine_empty_body(text):
            bucket = 'combine_empty_body'
        fails.append((bucket, 'Python parser accepts, C++ parser: %s (%s)\ntext:\n%s' % (
            cs, cp, text)))
    else:
        bucket = 'cpp_accepts_py_%s:%s' % (ps, pp)
        # the signatures of the recorded findings get their key as the bucket
        if _pipe_operator(cp):
            bucket = 'pipe_eq_operator'
        elif (ps, pp) == ('internal', 'TypeError:parse.py:ShiftArgs'):
            bucket = 'denotation_named_argument'
        elif (ps, pp) == ('internal', 'SyntaxError:parse.py:ParseString') and \
                noise.quote_literal_not_python(text):
            bucket = 'quote_literal_not_python'
        elif _null_call(cp):
            bucket = 'cpp_empty_array_subscript'
        fails.append((bucket, 'C++ parser accepts, Python parser: %s (%s)\ntext:\n%s' % (
            ps, pp, text)))
    return fails, info


def span_failures(pp, cp, text, info):
    """Where both trees carry a HeritageAwareString, it must be the same span of the
    same statement text."""
    fails = []
    seen = set()
    for path, x, y in parsers.span_pairs(pp, cp, []):
        if (x.start, x.stop, x.heritage) == (y.start, y.stop, y.heritage):
            continue
        if parsers.is_array_operand(cp, path) and y.heritage == str(y):
            if EXCLUDE_ARRAYSUB_SPAN:
                if 'finding:' + KEY_ARRAYSUB not in info['excluded']:
                    info['excluded'].append('finding:' + KEY_ARRAYSUB)    # once per text
                continue
            bucket = KEY_ARRAYSUB
        else:
            bucket = 'span_differs:' + parsers.path_class(path)
        if bucket in seen:
            continue
        seen.add(bucket)
        fails.append((bucket, 'node %s = %r: span PY [%d:%d] of %r, CPP [%d:%d] of %r\n'
                      'text:\n%s' % (path, str(x), x.start, x.stop, x.heritage[:200],
                                     y.start, y.stop, y.heritage[:200], text)))
    return fails


def evaluate(case):
    """-> (fails, info) for one stored case.  A case whose text contains the input
    class of a layout finding carries `alt`: {finding key(s): pieces of the same text
    without that layout}; a failure that disappears there is the finding's."""
    if case.get('files') is not None:
        return syntaximport.evaluate(case, verdict, attribute_layout)
    text = case['text'] if 'text' in case else ''.join(case['pieces'])
    fails, info = verdict(text)
    return attribute_layout(case, fails, lambda t: verdict(t)[0]), info


def attribute_layout(case, fails, fails_of):
    """A failure that disappears in the text without the layout of a recorded finding
    is that finding's (cpp_array_subscript_heritage is a property of the program, not
    of the layout: it stays as it is)."""
    layout_fails = [f for f in fails if f[0] != KEY_ARRAYSUB]
    if not layout_fails or not case.get('alt'):
        return fails
    for key in sorted(case['alt'], key=lambda k: (k.count('+'), k)):
        f2 = fails_of(''.join(case['alt'][key]))
        if not [f for f in f2 if f[0] != KEY_ARRAYSUB]:
            bucket = key if '+' not in key else 'layout:quirk:' + key
            return [f for f in fails + f2 if f[0] == KEY_ARRAYSUB][:1] + [
                (bucket, 'fails only with the layout of %s (%s):\n%s' % (
                    key, ', '.join(sorted(set(b for b, _ in layout_fails))),
                    layout_fails[0][1]))]
    return fails


def alt_pieces(r):
    """{key: pieces} of the rendering r without the layout of the findings it touches."""
    risks = r.risks()
    if not risks:
        return None
    out = {k: rendered_pieces(r.without([k])) for k in risks}
    if len(risks) > 1:
        out['+'.join(risks)] = rendered_pieces(r.without(risks))
    return out


def make_texts(rng, salt=0):
    """one generated program -> list of case dicts (kind, pieces, corruption, feats)."""
    stmts, strings, feats, excl = syntaxgen.generate(rng)
    base = noise.render(stmts, trailing=rng.random() < 0.7)
    noisy = noise.render(stmts, rng, p_noise=[0.08, 0.25, 0.5][rng.randrange(3)],
                         p_paren=[0.0, 0.1, 0.3][rng.randrange(3)],
                         trailing=rng.random() < 0.5)
    excluded = dict(excl)
    if noisy.stats.get('excluded_den_paren'):
        excluded['finding:' + noise.RISK_DEN] = noisy.stats['excluded_den_paren']
    cases = [{'kind': 'base', 'pieces': rendered_pieces(base), 'corruption': None},
             {'kind': 'noisy', 'pieces': rendered_pieces(noisy), 'corruption': None,
              'noise': {k: v for k, v in noisy.stats.items()}}]
    alt = alt_pieces(noisy)
    if alt:
        cases[1]['alt'] = alt
    for src, r in (('base', base), ('noisy', noisy)):
        c = noise.pick_corruption(r.cells, rng, salt)
        salt += 7
        if c is None:
            continue
        ex = noise.excluded_class(r.cells, c)
        if ex is None and src == 'noisy' and alt:
            # only with a layout exclusion switched off: a corruption on top of the
            # finding's layout would be reported under the corruption's name
            ex = 'option:no_corruption_of_finding_layout'
        if ex:
            excluded[ex] = excluded.get(ex, 0) + 1
            continue
        texts = noise.apply_corruption_cells(r, c)
        pieces = pieces_of(texts, r.cells, r.tail[0])
        k = noise.excluded_text(''.join(pieces))
        if k:
            excluded[k] = excluded.get(k, 0) + 1
            continue
        cases.append({'kind': 'corrupt', 'of': src, 'pieces': pieces,
                      'corruption': [c[0], c[2], r.cells[c[1]][2].text]})
    return cases, sorted(feats), excluded


def record(col, case, fails, info, labels, accepted):
    kind = case['kind']
    text = case.get('key') or ''.join(case['pieces'])
    labels = list(labels) + ['kind:' + kind]
    both_ok = info['py'] == 'ok' and info['cpp'] == 'ok'
    both_rej = info['py'] != 'ok' and info['cpp'] != 'ok'
    if both_ok:
        labels.append('both_accept')
    elif both_rej:
        labels.append('both_reject')
        if info['py'] == 'internal':
            labels.append('py_internal:' + info['py_msg'])
        if info['cpp'] == 'internal':
            labels.append('cpp_internal')
    for k in info.get('excluded', []):
        col.exclude(k)
    accepted[kind] = both_ok
    if case.get('corruption'):
        labels.append('corr:' + case['corruption'][0])
        flipped = accepted.get(case.get('of')) and both_rej
        if flipped:
            labels.append('corr_flipped_verdict')
        elif accepted.get(case.get('of')) and both_ok:
            labels.append('corr_still_accepted')
        nt = bool(flipped)
    else:
        nt = (not fails and info.get('n_rules', 0) >= 2 and bool(info.get('has_body')))
    if fails:
        labels.append('failed')
        nt = False
    sample = {'kind': kind, 'corruption': case.get('corruption'),
              'text': ''.join(case['pieces']), 'py': info['py'], 'cpp': info['cpp']}
    if case.get('files') is not None:
        sample['files'] = case['files']
    col.case(text, nt, labels, sample=sample)
    for bucket, detail in fails:
        stored = {k: v for k, v in case.items() if k not in ('noise', 'of', 'key')}
        col.fail(bucket, stored, detail)


def shard(ctx, col):
    parsers.setup()
    counter = [0]

    def one(rng):
        counter[0] += 1
        # (a Hypothesis draw, not the counter: the draw sequence must be a function of
        # the drawn values alone)
        if rng.randrange(IMPORT_SHARE) == 0:
            cases, feats, excluded = syntaximport.make_cases(rng, counter[0])
        else:
            cases, feats, excluded = make_texts(rng, counter[0])
        for k, v in excluded.items():
            for _ in range(v):
                col.exclude(k)
        accepted = {}
        for case in cases:
            fails, info = evaluate(case)
            labels = []
            if case['kind'] in ('base', 'tree'):
                labels += ['feat:' + f for f in feats]
            if case['kind'] == 'noisy':
                labels += ['noise:' + k for k, v in case['noise'].items()
                           if v and not k.startswith('excluded')]
            record(col, case, fails, info, labels, accepted)
    try:
        core.hyp_run(one, core_strategy(), ctx.budget, ctx.hyp_seed)
    finally:
        syntaximport.cleanup()


def core_strategy():
    from hypothesis import strategies as st
    # one drawn seed per case (see common.strategy): also immune to FlakyStrategyDefinition,
    # which per-call draws raised when a case counter influenced how many draws happen
    return st.randoms(use_true_random=True)


def check_case(case):
    """`with_findings`: [keys] in a stored case switches the named exclusions that act
    inside the oracle off for this case (the repro of an open finding must be able to
    fail while generated cases stay clear of it)."""
    global EXCLUDE_ARRAYSUB_SPAN
    parsers.setup()
    saved = EXCLUDE_ARRAYSUB_SPAN
    if KEY_ARRAYSUB in (case.get('with_findings') or ()):
        EXCLUDE_ARRAYSUB_SPAN = False
    try:
        fails, _ = evaluate(case)
    finally:
        EXCLUDE_ARRAYSUB_SPAN = saved
        syntaximport.cleanup()
    return fails


def minimise(case, bucket):
    """Statement-level delta debugging only: dropping whole statements keeps the text
    inside the property's domain (a grammar program, its layout variant, or one of them
    with a single corrupted token); deleting arbitrary tokens would not."""
    parsers.setup()
    if case.get('files') is not None or case.get('alt'):
        return case

    def fails_with(text):
        return any(b == bucket for b, _ in verdict(text)[0])
    pieces = list(case.get('pieces') or [case['text']])
    if len(pieces) > 1:
        pieces = core.ddmin(pieces, lambda sub: fails_with(''.join(sub)), max_tests=60)
    return {'kind': case.get('kind'), 'corruption': case.get('corruption'),
            'pieces': pieces}
