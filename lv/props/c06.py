"""C06: the C++ and the Python parser accept the same programs and build the same rules."""
import json

from lv import core, noise, parsers, syntaxgen

ID = 'C06'
BUDGET = {'quick': 2400, 'thorough': 60000}     # generated programs; ~4 texts each
WALL = {'quick': 600, 'thorough': 3600}
RULE = ('programs of the syntactic grammar generator lv/syntaxgen.py (every statement, '
        'literal, operator and denotation form of docs/syntax.md; no imports yet); each '
        'program yields 4 texts: base print, a layout variant (whitespace / comments at '
        'token boundaries, redundant parentheses, trailing ;) and one single-token '
        'corruption of each from the fixed catalogue in lv/noise.py. Every text is parsed '
        'with LOGICA_PARSER=PY and =CPP in one process: both accept => rule lists equal '
        '(order, HeritageAwareString as text); both reject (internal Python exception = '
        'reject, tallied); anything else is a failure. Non-trivial: accepted text with '
        '>= 2 rules of which >= 1 has a body, or a corrupted text rejected by both whose '
        'uncorrupted source was accepted; distinct by hash of the text.')
ASSUMPTIONS = ['the shared object is built by lv/cppbuild.py from the current '
               'parser_cpp/logica_parse.cpp with the bridge\'s own compiler flags',
               'parse.ParseFile(text)["rule"] is the observation point for both parsers',
               'a Python-internal exception (not ParsingException) counts as rejection']


def pieces_of(cell_texts, cells, tail):
    """statement-sized chunks whose concatenation is the text."""
    out, cur = [], []
    for txt, c in zip(cell_texts, cells):
        cur.append(txt)
        if c[3] is None:            # the ';' cell closes a statement
            out.append(''.join(cur))
            cur = []
    cur.append(tail)
    if ''.join(cur):
        out.append(''.join(cur))
    return out


def rendered_pieces(r):
    return pieces_of([c[0] + c[2].text for c in r.cells], r.cells, r.tail[0])


def _pipe_operator(tree):
    """an aggregation / call whose operator text contains a single '|'."""
    found = []

    def walk(n):
        if isinstance(n, dict):
            pn = n.get('predicate_name')
            if isinstance(pn, str) and '|' in pn and pn != '||':
                found.append(pn)
            for v in n.values():
                walk(v)
        elif isinstance(n, list):
            for v in n:
                walk(v)
    walk(tree)
    return bool(found)


def _null_call(tree):
    """{"call": null} somewhere: what the C++ parser emits for `v[]`."""
    if isinstance(tree, dict):
        return any((k == 'call' and v is None) or _null_call(v) for k, v in tree.items())
    if isinstance(tree, list):
        return any(_null_call(v) for v in tree)
    return False


def verdict(text):
    """-> (failures [(bucket, detail)], info)"""
    res = parsers.parse_both(text)
    (ps, pp), (cs, cp) = res['PY'], res['CPP']
    info = {'py': ps, 'cpp': cs}
    fails = []
    if ps == 'ok' and cs == 'ok':
        a, b = parsers.plain(pp), parsers.plain(cp)
        info['n_rules'] = len(a)
        info['has_body'] = any('body' in r for r in a if isinstance(r, dict))
        if a != b:
            d = parsers.first_diff(a, b)
            bucket = 'tree_differs:' + parsers.path_class(d[0])
            fails.append((bucket, 'first difference at %s\n  PY : %s\n  CPP: %s\ntext:\n%s' % (
                d[0], json.dumps(d[1], default=str)[:600],
                json.dumps(d[2], default=str)[:600], text)))
    elif ps != 'ok' and cs != 'ok':
        info['py_msg'] = pp
    elif ps == 'ok':
        bucket = 'py_accepts_cpp_%s:%s' % (cs, cp)
        fails.append((bucket, 'Python parser accepts, C++ parser: %s (%s)\ntext:\n%s' % (
            cs, cp, text)))
    else:
        bucket = 'cpp_accepts_py_%s:%s' % (ps, pp)
        if _pipe_operator(cp):
            bucket += ':pipe_operator'
        if _null_call(cp):
            bucket += ':null_call'
        fails.append((bucket, 'C++ parser accepts, Python parser: %s (%s)\ntext:\n%s' % (
            ps, pp, text)))
    return fails, info


def make_texts(rng, salt=0):
    """one generated program -> list of case dicts (kind, pieces, corruption, feats)."""
    stmts, strings, feats, excl = syntaxgen.generate(rng)
    base = noise.render(stmts, trailing=rng.random() < 0.7)
    noisy = noise.render(stmts, rng, p_noise=[0.08, 0.25, 0.5][rng.randrange(3)],
                         p_paren=[0.0, 0.1, 0.3][rng.randrange(3)],
                         trailing=rng.random() < 0.5)
    excluded = dict(excl)
    for k in ('excluded_den_paren',):
        if noisy.stats.get(k):
            excluded['C15_' + k] = noisy.stats[k]
    cases = [{'kind': 'base', 'pieces': rendered_pieces(base), 'corruption': None},
             {'kind': 'noisy', 'pieces': rendered_pieces(noisy), 'corruption': None,
              'noise': {k: v for k, v in noisy.stats.items()}}]
    for src, r in (('base', base), ('noisy', noisy)):
        c = noise.pick_corruption(r.cells, rng, salt)
        salt += 7
        if c is None:
            continue
        ex = noise.excluded_class(r.cells, c)
        if ex:
            excluded[ex] = excluded.get(ex, 0) + 1
            continue
        texts = noise.apply_corruption_cells(r, c)
        cases.append({'kind': 'corrupt', 'of': src,
                      'pieces': pieces_of(texts, r.cells, r.tail[0]),
                      'corruption': [c[0], c[2], r.cells[c[1]][2].text]})
    return cases, sorted(feats), excluded


def shard(ctx, col):
    parsers.setup()

    counter = [0]

    def one(rng):
        counter[0] += 1
        cases, feats, excluded = make_texts(rng, counter[0])
        for k, v in excluded.items():
            col.excluded[k] += v
        accepted = {}
        for case in cases:
            text = ''.join(case['pieces'])
            fails, info = verdict(text)
            kind = case['kind']
            labels = ['kind:' + kind]
            if info['py'] == 'ok' and info['cpp'] == 'ok':
                labels.append('both_accept')
            elif info['py'] != 'ok' and info['cpp'] != 'ok':
                labels.append('both_reject')
                if info['py'] == 'internal':
                    labels.append('py_internal:' + info['py_msg'])
                if info['cpp'] == 'internal':
                    labels.append('cpp_internal')
            if kind == 'base':
                labels += ['feat:' + f for f in feats]
            if kind == 'noisy':
                labels += ['noise:' + k for k, v in case['noise'].items()
                           if v and not k.startswith('excluded')]
            accepted[kind] = info['py'] == 'ok' and info['cpp'] == 'ok'
            if kind == 'corrupt':
                labels.append('corr:' + case['corruption'][0])
                flipped = accepted.get(case['of']) and info['py'] != 'ok' and \
                    info['cpp'] != 'ok'
                if flipped:
                    labels.append('corr_flipped_verdict')
                elif accepted.get(case['of']) and accepted[kind]:
                    labels.append('corr_still_accepted')
                nt = bool(flipped)
            else:
                nt = (not fails and info.get('n_rules', 0) >= 2 and info.get('has_body'))
            if fails:
                labels.append('failed')
                nt = False
            col.case(text, nt, labels,
                     sample={'kind': kind, 'corruption': case['corruption'], 'text': text,
                             'py': info['py'], 'cpp': info['cpp']})
            for bucket, detail in fails:
                col.fail(bucket, {'kind': kind, 'pieces': case['pieces'],
                                  'corruption': case['corruption']}, detail)
    core.hyp_run(one, core_strategy(), ctx.budget, ctx.hyp_seed)


def core_strategy():
    from hypothesis import strategies as st
    return st.randoms(use_true_random=False)


def check_case(case):
    parsers.setup()
    text = case['text'] if 'text' in case else ''.join(case['pieces'])
    fails, _ = verdict(text)
    return fails


def minimise(case, bucket):
    """Statement-level delta debugging only: dropping whole statements keeps the text
    inside the property's domain (a grammar program, its layout variant, or one of them
    with a single corrupted token); deleting arbitrary tokens would not."""
    parsers.setup()

    def fails_with(text):
        return any(b == bucket for b, _ in verdict(text)[0])
    pieces = list(case.get('pieces') or [case['text']])
    if len(pieces) > 1:
        pieces = core.ddmin(pieces, lambda sub: fails_with(''.join(sub)), max_tests=60)
    return {'kind': case.get('kind'), 'corruption': case.get('corruption'),
            'pieces': pieces}
